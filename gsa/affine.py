"""E5: affine normal forms over ast expressions. No solver: equality of normal forms only."""
import ast
from fractions import Fraction


class NotAffine(Exception):
    pass


def path_of(node, env=None):
    """Canonical access path for Name / Attribute chains / len(x) / x.shape[i] / subscripts with affine index."""
    if isinstance(node, ast.Name):
        return node.id
    if isinstance(node, ast.Attribute):
        b = path_of(node.value, env)
        return None if b is None else f'{b}.{node.attr}'
    if isinstance(node, ast.Call) and isinstance(node.func, ast.Name) and node.func.id == 'len' \
            and len(node.args) == 1 and not node.keywords:
        b = path_of(node.args[0], env)
        return None if b is None else f'len({b})'
    if isinstance(node, ast.Call) and isinstance(node.func, ast.Name) and node.func.id == 'int' \
            and len(node.args) == 1 and not node.keywords:
        return path_of(node.args[0], env)
    if isinstance(node, ast.Subscript):
        b = path_of(node.value, env)
        if b is None:
            return None
        sl = node.slice
        if isinstance(sl, ast.Slice):
            return None
        if isinstance(sl, ast.Tuple):
            parts = []
            for e in sl.elts:
                try:
                    parts.append(str(Aff.of(e, env or {})))
                except NotAffine:
                    return None
            return f'{b}[{", ".join(parts)}]'
        try:
            idx = Aff.of(sl, env or {})
        except NotAffine:
            return None
        return f'{b}[{idx}]'
    return None


class Aff:
    """sum(coeff * symbol) + const, symbols are canonical access paths."""

    def __init__(self, terms=None, const=0):
        self.terms = {k: Fraction(v) for k, v in (terms or {}).items() if v != 0}
        self.const = Fraction(const)

    @staticmethod
    def of(node, env=None):
        env = env or {}
        if isinstance(node, ast.Constant) and isinstance(node.value, int) and not isinstance(node.value, bool):
            return Aff(const=node.value)
        if isinstance(node, ast.UnaryOp) and isinstance(node.op, ast.USub):
            return Aff.of(node.operand, env).scale(-1)
        if isinstance(node, ast.UnaryOp) and isinstance(node.op, ast.UAdd):
            return Aff.of(node.operand, env)
        if isinstance(node, ast.BinOp):
            if isinstance(node.op, ast.Add):
                return Aff.of(node.left, env).add(Aff.of(node.right, env))
            if isinstance(node.op, ast.Sub):
                return Aff.of(node.left, env).sub(Aff.of(node.right, env))
            if isinstance(node.op, ast.Mult):
                l, r = Aff.of(node.left, env), Aff.of(node.right, env)
                if not l.terms:
                    return r.scale(l.const)
                if not r.terms:
                    return l.scale(r.const)
                raise NotAffine(ast.unparse(node))
            if isinstance(node.op, ast.LShift):
                l, r = Aff.of(node.left, env), Aff.of(node.right, env)
                if not r.terms and r.const >= 0 and r.const.denominator == 1:
                    return l.scale(2 ** int(r.const))
                raise NotAffine(ast.unparse(node))
        p = path_of(node, env)
        if p is not None:
            if p in env:
                v = env[p]
                return v if isinstance(v, Aff) else Aff({v: 1})
            return Aff({p: 1})
        raise NotAffine(ast.unparse(node))

    @staticmethod
    def try_of(node, env=None):
        try:
            return Aff.of(node, env)
        except NotAffine:
            return None

    def scale(self, c):
        return Aff({k: v * c for k, v in self.terms.items()}, self.const * c)

    def add(self, o):
        t = dict(self.terms)
        for k, v in o.terms.items():
            t[k] = t.get(k, 0) + v
        return Aff(t, self.const + o.const)

    def sub(self, o):
        return self.add(o.scale(-1))

    def plus(self, c):
        return Aff(self.terms, self.const + c)

    def subst(self, env):
        out = Aff(const=self.const)
        for k, v in self.terms.items():
            r = env.get(k)
            if r is None:
                r = Aff({k: 1})
            elif not isinstance(r, Aff):
                r = Aff({r: 1})
            out = out.add(r.scale(v))
        return out

    def is_const(self):
        return not self.terms

    def __eq__(self, o):
        return isinstance(o, Aff) and self.terms == o.terms and self.const == o.const

    def __hash__(self):
        return hash((tuple(sorted(self.terms.items())), self.const))

    def __repr__(self):
        parts = []
        for k, v in sorted(self.terms.items()):
            if v == 1:
                parts.append(f'+ {k}')
            elif v == -1:
                parts.append(f'- {k}')
            elif v < 0:
                parts.append(f'- {-v}*{k}')
            else:
                parts.append(f'+ {v}*{k}')
        if self.const or not parts:
            parts.append(f'+ {self.const}' if self.const >= 0 else f'- {-self.const}')
        s = ' '.join(parts)
        return s[2:] if s.startswith('+ ') else '-' + s[2:]


def sym(name):
    return Aff({name: 1})


def const(c):
    return Aff(const=c)
