"""E9: both-ways self-test of the checkers on scratch-copy variants of the CURRENT tree.

Each props module may define VARIANTS: a list of V(name, kind, file, old, new, expect=None, count=1)
  kind 'B' = breaking  (check must report a violation, of rule `expect` when given)
  kind 'E' = equivalent / behaviour-preserving (check must be silent: exit 0)
A variant whose anchor text no longer occurs in the current tree is skipped and counted, not failed.
Scratch copies live in a fresh temp dir outside /repo and /verif and are removed immediately.
"""
import importlib
import os
import shutil
import tempfile
from concurrent.futures import ProcessPoolExecutor


class V:
    def __init__(self, name, kind, file, old, new, expect=None, count=1, also=()):
        self.name = name
        self.kind = kind
        self.file = file
        self.old = old
        self.new = new
        self.expect = expect
        self.count = count
        self.also = also   # further (file, old, new) edits applied together


SRC_EXT = ('.py', '.pyx', '.pxd')
EXTRA_FILES = ('setup.cfg', 'docs/source/cli.rst')


def copy_sources(repo, dst):
    src_root = os.path.join(repo, 'src', 'gambit')
    for dirpath, dirnames, filenames in os.walk(src_root):
        dirnames[:] = [d for d in dirnames if d != '__pycache__']
        rel = os.path.relpath(dirpath, repo)
        os.makedirs(os.path.join(dst, rel), exist_ok=True)
        for fn in filenames:
            if fn.endswith(SRC_EXT):
                shutil.copyfile(os.path.join(dirpath, fn), os.path.join(dst, rel, fn))
    for f in EXTRA_FILES:
        p = os.path.join(repo, f)
        if os.path.exists(p):
            os.makedirs(os.path.dirname(os.path.join(dst, f)), exist_ok=True)
            shutil.copyfile(p, os.path.join(dst, f))


def apply_edit(root, file, old, new, count):
    path = os.path.join(root, file)
    if not os.path.exists(path):
        return False
    with open(path, encoding='utf-8') as f:
        s = f.read()
    if s.count(old) != count:
        return False
    with open(path, 'w', encoding='utf-8') as f:
        f.write(s.replace(old, new))
    return True


def _run_one(args):
    prop, repo, idx = args
    from .main import run_property
    mod = importlib.import_module(f'gsa.props.{prop.lower()}')
    v = mod.VARIANTS[idx]
    tmp = tempfile.mkdtemp(prefix='gsa_variant_')
    try:
        copy_sources(repo, tmp)
        edits = [(v.file, v.old, v.new, v.count)] + [(f, o, n, 1) for (f, o, n) in v.also]
        for (f, o, n, c) in edits:
            if not apply_edit(tmp, f, o, n, c):
                return dict(name=v.name, kind=v.kind, status='skipped', detail=f'anchor text not found in {f}')
        rep, undecided = run_property(prop, tmp, 'quick')
        viol = [o for o in rep.obs if not o.ok]
        rules = sorted({o.rule for o in viol})
        if undecided is not None and not (v.kind == 'B' and viol):
            return dict(name=v.name, kind=v.kind, status='undecided', detail=undecided, rules=rules)
        if v.kind == 'B':
            if not viol:
                return dict(name=v.name, kind=v.kind, status='missed', detail='no violation reported', rules=rules)
            if v.expect and not any(r.startswith(f'{prop}-{v.expect}') for r in rules):
                return dict(name=v.name, kind=v.kind, status='wrong-rule', detail=f'expected {v.expect}, got {rules}', rules=rules)
            return dict(name=v.name, kind=v.kind, status='killed', rules=rules)
        if viol:
            return dict(name=v.name, kind=v.kind, status='false-alarm',
                        detail='; '.join(f'{o.rule} {o.desc} found={o.found}' for o in viol[:3]), rules=rules)
        return dict(name=v.name, kind=v.kind, status='silent', rules=rules)
    finally:
        shutil.rmtree(tmp, ignore_errors=True)


def run_corpus(prop, repo, seed=0, jobs=None):
    try:
        mod = importlib.import_module(f'gsa.props.{prop.lower()}')
    except ModuleNotFoundError:
        return dict(coverage={}, broken=[])
    variants = getattr(mod, 'VARIANTS', [])
    if not variants:
        return dict(coverage=dict(variants_breaking=0, variants_equivalent=0, variants_killed=0, equivalents_silent=0), broken=[])
    jobs = jobs or min(16, os.cpu_count() or 4, len(variants))
    order = list(range(len(variants)))
    if seed:
        import random
        random.Random(seed).shuffle(order)
    with ProcessPoolExecutor(max_workers=jobs) as ex:
        results = list(ex.map(_run_one, [(prop, repo, i) for i in order]))
    nb = sum(1 for r in results if r['kind'] == 'B' and r['status'] != 'skipped')
    ne = sum(1 for r in results if r['kind'] == 'E' and r['status'] != 'skipped')
    killed = sum(1 for r in results if r['status'] == 'killed')
    silent = sum(1 for r in results if r['status'] == 'silent')
    skipped = [r['name'] for r in results if r['status'] == 'skipped']
    broken = [f"{r['kind']} variant {r['name']!r}: {r['status']} ({r.get('detail', '')})"
              for r in results if r['status'] in ('missed', 'wrong-rule', 'false-alarm', 'undecided')]
    cov = dict(variants_breaking=nb, variants_equivalent=ne, variants_killed=killed, equivalents_silent=silent,
               variants_skipped=skipped,
               variant_results=[dict(name=r['name'], kind=r['kind'], status=r['status'], rules=r.get('rules', [])) for r in results])
    return dict(coverage=cov, broken=broken)


def main():
    """python -m gsa.variants Cxx [name-substring]  - run and print the corpus verdicts (development aid)."""
    import sys
    prop = sys.argv[1].upper()
    repo = os.environ.get('GSA_REPO', '/repo')
    res = run_corpus(prop, repo)
    for r in res['coverage'].get('variant_results', []):
        print(f"  {r['kind']} {r['status']:12s} {r['name']}  {r['rules']}")
    for b in res['broken']:
        print('BROKEN', b)
    return 1 if res['broken'] else 0


if __name__ == '__main__':
    raise SystemExit(main())
