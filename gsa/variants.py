"""E9: both-ways self-test of the checkers on scratch-copy variants of the CURRENT tree.

Each props module may define VARIANTS: a list of V(name, kind, file, old, new, expect=None, count=1)
  kind 'B' = breaking  (check must report a violation, of rule `expect` when given)
  kind 'E' = equivalent / behaviour-preserving (check must be silent: exit 0)
A variant whose anchor text no longer occurs in the current tree is skipped and counted, not failed.
Scratch copies live in a fresh temp dir outside /repo and /verif and are removed immediately.
"""
import importlib
import os
import shutil
import tempfile
from concurrent.futures import ProcessPoolExecutor


class V:
    def __init__(self, name, kind, file, old, new, expect=None, count=1, also=()):
        self.name = name
        self.kind = kind
        self.file = file
        self.old = old
        self.new = new
        self.expect = expect
        self.count = count
        self.also = also   # further (file, old, new) edits applied together


SRC_EXT = ('.py', '.pyx', '.pxd')
EXTRA_FILES = ('setup.cfg', 'docs/source/cli.rst')


def copy_sources(repo, dst):
    src_root = os.path.join(repo, 'src', 'gambit')
    for dirpath, dirnames, filenames in os.walk(src_root):
        dirnames[:] = [d for d in dirnames if d != '__pycache__']
        rel = os.path.relpath(dirpath, repo)
        os.makedirs(os.path.join(dst, rel), exist_ok=True)
        for fn in filenames:
            if fn.endswith(SRC_EXT):
                shutil.copyfile(os.path.join(dirpath, fn), os.path.join(dst, rel, fn))
    for f in EXTRA_FILES:
        p = os.path.join(repo, f)
        if os.path.exists(p):
            os.makedirs(os.path.dirname(os.path.join(dst, f)), exist_ok=True)
            shutil.copyfile(p, os.path.join(dst, f))


def apply_edit(root, file, old, new, count):
    path = os.path.join(root, file)
    if not os.path.exists(path):
        return False
    with open(path, encoding='utf-8') as f:
        s = f.read()
    if s.count(old) != count:
        return False
    with open(path, 'w', encoding='utf-8') as f:
        f.write(s.replace(old, new))
    return True


def _run_one(args):
    prop, repo, idx = args
    from .main import run_property
    mod = importlib.import_module(f'gsa.props.{prop.lower()}')
    v = mod.VARIANTS[idx]
    tmp = tempfile.mkdtemp(prefix='gsa_variant_')
    try:
        copy_sources(repo, tmp)
        edits = [(v.file, v.old, v.new, v.count)] + [(f, o, n, 1) for (f, o, n) in v.also]
        for (f, o, n, c) in edits:
            if not apply_edit(tmp, f, o, n, c):
                return dict(name=v.name, kind=v.kind, status='skipped', detail=f'anchor text not found in {f}')
        rep, undecided = run_property(prop, tmp, 'quick')
        viol = [o for o in rep.obs if not o.ok]
        rules = sorted({o.rule for o in viol})
        if undecided is not None and not (v.kind == 'B' and viol):
            return dict(name=v.name, kind=v.kind, status='undecided', detail=undecided, rules=rules)
        if v.kind == 'B':
            if not viol:
                return dict(name=v.name, kind=v.kind, status='missed', detail='no violation reported', rules=rules)
            if v.expect and not any(r.startswith(f'{prop}-{v.expect}') for r in rules):
                return dict(name=v.name, kind=v.kind, status='wrong-rule', detail=f'expected {v.expect}, got {rules}', rules=rules)
            return dict(name=v.name, kind=v.kind, status='killed', rules=rules)
        if viol:
            return dict(name=v.name, kind=v.kind, status='false-alarm',
                        detail='; '.join(f'{o.rule} {o.desc} found={o.found}' for o in viol[:3]), rules=rules)
        return dict(name=v.name, kind=v.kind, status='silent', rules=rules)
    finally:
        shutil.rmtree(tmp, ignore_errors=True)


def _seed_items(prop):
    """Seeded changes (from independent sub-agents) whose target is this property."""
    import json
    root = os.path.join(os.path.dirname(os.path.dirname(os.path.abspath(__file__))), 'seeded')
    out = []
    if os.path.isdir(root):
        for d in sorted(os.listdir(root)):
            mp = os.path.join(root, d, 'meta.json')
            pp = os.path.join(root, d, 'patch.diff')
            if os.path.exists(mp) and os.path.exists(pp):
                try:
                    meta = json.load(open(mp))
                    # a seed recorded as "open" (confirmed breaking change that the target check does not yet report; listed in
                    # DESIGN.md) is not replayed as a must-kill variant: the self-test would otherwise fail on the clean tree
                    if meta.get('property') == prop and not meta.get('open'):
                        out.append((d, pp))
                except Exception:
                    continue
    return out


def _run_seed(args):
    prop, repo, name, patch = args
    import subprocess
    from .main import run_property
    tmp = tempfile.mkdtemp(prefix='gsa_seed_')
    try:
        copy_sources(repo, tmp)
        r = subprocess.run(['git', 'apply', '--include', 'src/*', '--include', 'setup.cfg', '--include', 'docs/*', patch], cwd=tmp, capture_output=True, text=True)
        if r.returncode != 0:
            return dict(name=f'seeded:{name}', kind='B', status='skipped', detail='patch no longer applies to the current tree')
        rep, undecided = run_property(prop, tmp, 'quick')
        viol = [o for o in rep.obs if not o.ok]
        rules = sorted({o.rule for o in viol})
        if viol:
            return dict(name=f'seeded:{name}', kind='B', status='killed', rules=rules)
        if undecided is not None:
            return dict(name=f'seeded:{name}', kind='B', status='undecided', detail=undecided, rules=rules)
        return dict(name=f'seeded:{name}', kind='B', status='missed', detail='no violation reported', rules=rules)
    finally:
        shutil.rmtree(tmp, ignore_errors=True)


def _patch_items():
    """Behaviour-preserving refactoring patches written by independent engineers (refactors/<Cxx>/refactorN.diff)."""
    out = []
    for corpus in ('refactors', 'refactors2', 'refactors3'):
        root = os.path.join(os.path.dirname(os.path.dirname(os.path.abspath(__file__))), corpus)
        if os.path.isdir(root):
            for d in sorted(os.listdir(root)):
                dd = os.path.join(root, d)
                if os.path.isdir(dd):
                    out += [(f'{corpus}/{d}/{f}', os.path.join(dd, f)) for f in sorted(os.listdir(dd)) if f.endswith('.diff')]
    return out


def _run_patch(args):
    """The property still holds on these patches: a VIOLATION is a false alarm of the checker; exit 2 is tolerated and counted."""
    prop, repo, name, patch = args
    import subprocess
    from .main import run_property
    tmp = tempfile.mkdtemp(prefix='gsa_rpatch_')
    try:
        copy_sources(repo, tmp)
        r = subprocess.run(['git', 'apply', '--include', 'src/*', patch], cwd=tmp, capture_output=True, text=True)
        name = f'refactor-patch:{name}'
        if r.returncode != 0:
            return dict(name=name, kind='E', status='skipped', detail='patch no longer applies to the current tree')
        rep, undecided = run_property(prop, tmp, 'quick')
        viol = [o for o in rep.obs if not o.ok]
        if viol:
            return dict(name=name, kind='E', status='false-alarm', detail='; '.join(f'{o.rule} {o.desc[:60]} found={str(o.found)[:50]}' for o in viol[:3]), rules=sorted({o.rule for o in viol}))
        if undecided is not None:
            return dict(name=name, kind='E', status='tolerated-undecided', detail=undecided, rules=[])
        return dict(name=name, kind='E', status='silent', rules=[])
    finally:
        shutil.rmtree(tmp, ignore_errors=True)


REFACTORINGS = ('flipcmp', 'ifswap', 'commute', 'kwrev', 'retvar', 'rename', 'notnot', 'augexpand', 'withsplit', 'kwargify',
                'hoistargs', 'comp2loop', 'guardclause', 'retifexp', 'ifexpstmt', 'splitand', 'demorgan')


def _run_refactoring(args):
    """Behaviour-preserving whole-package AST rewrite (tools/refactor_fuzz.py): the check must stay silent."""
    prop, repo, tname = args
    import ast
    import importlib.util
    from .main import run_property
    here = os.path.dirname(os.path.dirname(os.path.abspath(__file__)))
    spec = importlib.util.spec_from_file_location('refactor_fuzz', os.path.join(here, 'tools', 'refactor_fuzz.py'))
    rf = importlib.util.module_from_spec(spec)
    spec.loader.exec_module(rf)
    tmp = tempfile.mkdtemp(prefix='gsa_refac_')
    try:
        copy_sources(repo, tmp)
        changed = 0
        for rel in rf.py_files(tmp):
            pth = os.path.join(tmp, rel)
            src = open(pth, encoding='utf-8').read()
            new = ast.unparse(ast.fix_missing_locations(rf.TRANSFORMS[tname]().visit(ast.parse(src))))
            if ast.dump(ast.parse(new)) != ast.dump(ast.parse(src)):
                changed += 1
                open(pth, 'w', encoding='utf-8').write(new + '\n')
        name = f'refactoring:{tname}'
        if not changed:
            return dict(name=name, kind='E', status='skipped', detail='transform changed nothing')
        rep, undecided = run_property(prop, tmp, 'quick')
        viol = [o for o in rep.obs if not o.ok]
        if viol:
            return dict(name=name, kind='E', status='false-alarm', detail='; '.join(f'{o.rule} {o.desc[:60]} found={str(o.found)[:50]}' for o in viol[:3]), rules=sorted({o.rule for o in viol}))
        if undecided is not None:
            return dict(name=name, kind='E', status='undecided', detail=undecided, rules=[])
        return dict(name=name, kind='E', status='silent', rules=[])
    finally:
        shutil.rmtree(tmp, ignore_errors=True)


def run_corpus(prop, repo, seed=0, jobs=None):
    try:
        mod = importlib.import_module(f'gsa.props.{prop.lower()}')
    except ModuleNotFoundError:
        return dict(coverage={}, broken=[])
    variants = getattr(mod, 'VARIANTS', [])
    jobs = 16
    order = list(range(len(variants)))
    if seed:
        import random
        random.Random(seed).shuffle(order)
    seeds = _seed_items(prop)
    patches = _patch_items()
    with ProcessPoolExecutor(max_workers=16) as ex:
        f1 = ex.map(_run_one, [(prop, repo, i) for i in order])
        f2 = ex.map(_run_seed, [(prop, repo, n, pth) for (n, pth) in seeds])
        f3 = ex.map(_run_refactoring, [(prop, repo, t) for t in REFACTORINGS])
        f4 = ex.map(_run_patch, [(prop, repo, n, pth) for (n, pth) in patches])
        results = list(f1) + list(f2) + list(f3) + list(f4)
    nb = sum(1 for r in results if r['kind'] == 'B' and r['status'] != 'skipped')
    ne = sum(1 for r in results if r['kind'] == 'E' and r['status'] != 'skipped')
    killed = sum(1 for r in results if r['status'] == 'killed')
    silent = sum(1 for r in results if r['status'] == 'silent')
    skipped = [r['name'] for r in results if r['status'] == 'skipped']
    broken = [f"{r['kind']} variant {r['name']!r}: {r['status']} ({r.get('detail', '')})"
              for r in results if r['status'] in ('missed', 'wrong-rule', 'false-alarm', 'undecided')]
    cov = dict(variants_breaking=nb, variants_equivalent=ne, variants_killed=killed, equivalents_silent=silent,
               variants_skipped=skipped, seeded_changes=len(seeds), refactorings=len(REFACTORINGS),
               refactor_patches=len(patches), refactor_patches_undecided=[r['name'] for r in results if r['status'] == 'tolerated-undecided'],
               variant_results=[dict(name=r['name'], kind=r['kind'], status=r['status'], rules=r.get('rules', [])) for r in results])
    return dict(coverage=cov, broken=broken)


def main():
    """python -m gsa.variants Cxx [name-substring]  - run and print the corpus verdicts (development aid)."""
    import sys
    prop = sys.argv[1].upper()
    repo = os.environ.get('GSA_REPO', '/repo')
    res = run_corpus(prop, repo)
    for r in res['coverage'].get('variant_results', []):
        print(f"  {r['kind']} {r['status']:12s} {r['name']}  {r['rules']}")
    for b in res['broken']:
        print('BROKEN', b)
    return 1 if res['broken'] else 0


if __name__ == '__main__':
    raise SystemExit(main())
