"""E1/E3: parse the package afresh, build module / import / class / function tables, resolve names.

Nothing under the repository is imported. `.pyx/.pxd` go through the token front end (pyxfront).
"""
import ast
import os
import warnings

from . import pyxfront
from .normalize import canonicalise
from .inline import inline_new_helpers, scan_method_names
from .report import Undecided


class _Flatten(ast.NodeTransformer):
    """`cdef:` blocks are rewritten by the front end as `if __cdef__:`; splice their declarations inline."""

    def visit_If(self, node):
        self.generic_visit(node)
        if isinstance(node.test, ast.Name) and node.test.id == '__cdef__':
            return node.body
        return node


def _flatten_cdef(tree):
    return ast.fix_missing_locations(_Flatten().visit(tree))


class Module:
    def __init__(self, name, path, relpath, kind, src, tree, side=None, is_pkg=False):
        self.name = name
        self.path = path
        self.relpath = relpath
        self.kind = kind          # py | pyx | pxd
        self.src = src
        self.tree = tree
        self.side = side or {}
        self.is_pkg = is_pkg
        self.imports = {}         # local name -> dotted target
        self.assigns = {}         # module-level name -> value node (last assignment)
        self.functions = {}       # local name -> FuncInfo
        self.classes = {}         # local name -> ClassInfo

    @property
    def package(self):
        return self.name if self.is_pkg else self.name.rsplit('.', 1)[0]


class FuncInfo:
    def __init__(self, qualname, node, module, cls=None):
        self.qualname = qualname
        self.node = node
        self.module = module
        self.cls = cls
        self.name = node.name
        self.decorators = node.decorator_list

    @property
    def file(self):
        return self.module.relpath

    def site(self, node=None):
        n = node if node is not None else self.node
        return (self.module.relpath, getattr(n, 'lineno', self.node.lineno), self.qualname)

    def params(self):
        a = self.node.args
        return [x.arg for x in a.posonlyargs + a.args] + [x.arg for x in a.kwonlyargs]

    def param_default(self, name):
        a = self.node.args
        pos = a.posonlyargs + a.args
        defaults = [None] * (len(pos) - len(a.defaults)) + list(a.defaults)
        for p, d in zip(pos, defaults):
            if p.arg == name:
                return d
        for p, d in zip(a.kwonlyargs, a.kw_defaults):
            if p.arg == name:
                return d
        return None

    def ctype(self, var):
        """Declared C type of a parameter/local (pyx only)."""
        return self.module.side.get('types', {}).get(self.name, {}).get(var)

    def cinfo(self):
        return self.module.side.get('funcs', {}).get(self.name)


class ClassInfo:
    def __init__(self, qualname, node, module):
        self.qualname = qualname
        self.node = node
        self.module = module
        self.name = node.name
        self.methods = {}       # name -> FuncInfo
        self.class_attrs = {}   # name -> value node (Assign / AnnAssign at class level)
        self.annotations = {}   # name -> annotation node
        self.bases = []         # resolved dotted names (or raw text for externals)

    def site(self, node=None):
        n = node if node is not None else self.node
        return (self.module.relpath, getattr(n, 'lineno', self.node.lineno), self.qualname)


class Model:
    def __init__(self, repo):
        self.repo = os.path.abspath(repo)
        self.src_root = os.path.join(self.repo, 'src')
        self.modules = {}
        self.functions = {}
        self.classes = {}
        self.parse_errors = []
        self.inlined = {}
        self.moved = {}
        self._load()

    # ------------------------------------------------------------------ loading
    def _load(self):
        pkg_root = os.path.join(self.src_root, 'gambit')
        if not os.path.isdir(pkg_root):
            raise Undecided(f'package source not found at {pkg_root}')
        scan_method_names(pkg_root)      # overridable (multiply defined) methods are not expanded through self. / cls.
        for dirpath, dirnames, filenames in os.walk(pkg_root):
            dirnames[:] = sorted(d for d in dirnames if d != '__pycache__')
            for fn in sorted(filenames):
                ext = os.path.splitext(fn)[1]
                if ext not in ('.py', '.pyx', '.pxd'):
                    continue
                path = os.path.join(dirpath, fn)
                rel = os.path.relpath(path, self.repo)
                modrel = os.path.relpath(path, self.src_root)
                parts = os.path.splitext(modrel)[0].split(os.sep)
                is_pkg = parts[-1] == '__init__'
                if is_pkg:
                    parts = parts[:-1]
                name = '.'.join(parts)
                kind = ext[1:]
                if kind == 'pxd':
                    name += ':pxd'
                with open(path, encoding='utf-8') as f:
                    src = f.read()
                side = None
                try:
                    with warnings.catch_warnings():
                        warnings.simplefilter('ignore')
                        if kind == 'py':
                            raw = ast.parse(src, filename=rel)
                            try:
                                done = inline_new_helpers(raw, name)
                            except Exception as e:     # the expansion is an optimisation of precision; never let it break the analysis
                                raw, done = ast.parse(src, filename=rel), []
                                self.parse_errors.append(f'{rel}: helper expansion skipped ({type(e).__name__}: {e})')
                            if done:
                                self.inlined[name] = done
                            tree = canonicalise(raw)
                            # second look: the normal form can expose calls of extracted helpers the raw text hid (a callee chosen by a
                            # conditional expression, a call behind a single-use temporary)
                            try:
                                again = inline_new_helpers(tree, name)
                            except Exception as e:
                                again = []
                                self.parse_errors.append(f'{rel}: second helper expansion skipped ({type(e).__name__}: {e})')
                            if again:
                                self.inlined[name] = self.inlined.get(name, []) + again
                                tree = canonicalise(tree)
                        else:
                            py, side = pyxfront.rewrite(src, rel)
                            tree = canonicalise(_flatten_cdef(ast.parse(py, filename=rel)), second_stage=False)
                except (SyntaxError, pyxfront.PyxError, IndexError, ValueError, UnboundLocalError) as e:
                    raise Undecided(f'cannot parse {rel}: {type(e).__name__}: {e}')
                m = Module(name, path, rel, kind, src, tree, side, is_pkg)
                self.modules[name] = m
        for m in self.modules.values():
            self._index(m)
        for c in self.classes.values():
            c.bases = [self.resolve(c.module, b) or ast.unparse(b) for b in c.node.bases]
        self._register_moved()
        self._positionalise_calls()

    def _register_moved(self):
        """N13: a function of the reference symbol table that is gone from its place but whose old name is still bound there to a
        function defined elsewhere (NAME = new_function, `from x import new as NAME`, NAME = Class.method) was MOVED: the rules keep
        addressing it by its reference name."""
        from .inline import known_symbols
        try:
            known = known_symbols()
        except Exception:
            return
        for k in sorted(known):
            if k in self.functions or '<locals>' in k or '.' not in k:
                continue
            c = self.canonical(k)
            if c != k and c in self.functions and c not in known:
                self.functions[k] = self.functions[c]
                self.moved[c] = k

    def _positionalise_calls(self):
        """Canonical argument form (R-2): for calls that resolve to a package function, keyword arguments naming the
        leading positional parameters are moved into positional position, in parameter order."""
        pseudo = []
        for mod in self.modules.values():
            top = ast.FunctionDef(name='<module>', args=ast.arguments(posonlyargs=[], args=[], kwonlyargs=[], kw_defaults=[], defaults=[]),
                                  body=[s for s in mod.tree.body if not isinstance(s, (ast.FunctionDef, ast.AsyncFunctionDef, ast.ClassDef))] or [ast.Pass()],
                                  decorator_list=[], lineno=1)
            pseudo.append(FuncInfo(f'{mod.name}.<module>', top, mod))
        for fi in list(self.functions.values()) + pseudo:
            for call in [n for n in ast.walk(fi.node) if isinstance(n, ast.Call)]:
                if not call.keywords or any(isinstance(a, ast.Starred) for a in call.args):
                    continue
                r = self.resolve_call(fi, call)
                target = self.functions.get(r)
                if target is None and r in self.classes and '__init__' in self.classes[r].methods:
                    target = self.classes[r].methods['__init__']
                if target is None:
                    continue
                a = target.node.args
                if a.posonlyargs:
                    continue
                params = [x.arg for x in a.args]
                if target.cls is not None and params and params[0] in ('self', 'cls') and not any(
                        ast.unparse(d) == 'staticmethod' for d in target.decorators):
                    params = params[1:]
                kws = {k.arg: k for k in call.keywords if k.arg is not None}
                n = len(call.args)
                moved = False
                while n < len(params) and params[n] in kws:
                    call.args.append(kws[params[n]].value)
                    call.keywords.remove(kws[params[n]])
                    n += 1
                    moved = True
                if moved:
                    ast.fix_missing_locations(call)

    def _index(self, m):
        pkg = m.package.replace(':pxd', '')
        for node in ast.walk(m.tree):
            if isinstance(node, ast.Import):
                for a in node.names:
                    if a.asname:
                        m.imports[a.asname] = a.name
                    else:
                        m.imports[a.name.split('.')[0]] = a.name.split('.')[0]
            elif isinstance(node, ast.ImportFrom):
                base = node.module or ''
                if node.level:
                    parts = pkg.split('.')
                    up = node.level - 1
                    if up:
                        parts = parts[:-up]
                    base = '.'.join(parts + ([node.module] if node.module else []))
                for a in node.names:
                    m.imports[a.asname or a.name] = f'{base}.{a.name}'
        for node in m.tree.body:
            if isinstance(node, (ast.FunctionDef, ast.AsyncFunctionDef)):
                fi = FuncInfo(f'{m.name}.{node.name}', node, m)
                # keep the last definition of a name (overloads: the implementation comes last)
                m.functions[node.name] = fi
                self.functions[fi.qualname] = fi
            elif isinstance(node, ast.ClassDef):
                ci = ClassInfo(f'{m.name}.{node.name}', node, m)
                m.classes[node.name] = ci
                self.classes[ci.qualname] = ci
                for sub in node.body:
                    if isinstance(sub, (ast.FunctionDef, ast.AsyncFunctionDef)):
                        fi = FuncInfo(f'{ci.qualname}.{sub.name}', sub, m, ci)
                        ci.methods[sub.name] = fi
                        self.functions[fi.qualname] = fi
                    elif isinstance(sub, ast.Assign):
                        for t in sub.targets:
                            if isinstance(t, ast.Name):
                                ci.class_attrs[t.id] = sub.value
                    elif isinstance(sub, ast.AnnAssign) and isinstance(sub.target, ast.Name):
                        ci.annotations[sub.target.id] = sub.annotation
                        if sub.value is not None:
                            ci.class_attrs[sub.target.id] = sub.value
            elif isinstance(node, ast.Assign):
                for t in node.targets:
                    if isinstance(t, ast.Name):
                        m.assigns[t.id] = node.value
            elif isinstance(node, ast.AnnAssign) and isinstance(node.target, ast.Name) and node.value is not None:
                m.assigns[node.target.id] = node.value

    # ------------------------------------------------------------------ lookup
    def module(self, name):
        if name not in self.modules:
            raise Undecided(f'anchor module {name} not found')
        return self.modules[name]

    def func(self, qualname):
        if qualname not in self.functions:
            raise Undecided(f'anchor function {qualname} not found')
        return self.functions[qualname]

    def cls(self, qualname):
        if qualname not in self.classes:
            raise Undecided(f'anchor class {qualname} not found')
        return self.classes[qualname]

    def has_func(self, qualname):
        return qualname in self.functions

    def canonical(self, dotted, _depth=0):
        """Follow re-exports: gambit.db.ReferenceDatabase -> gambit.db.refdb.ReferenceDatabase."""
        if dotted is None or _depth > 8:
            return dotted
        if dotted in self.functions or dotted in self.classes or dotted in self.modules:
            return dotted
        if '.' not in dotted:
            return dotted
        head, attr = dotted.rsplit('.', 1)
        head_c = self.canonical(head, _depth + 1)
        if head_c in self.modules:
            m = self.modules[head_c]
            cand = f'{head_c}.{attr}'
            if cand in self.functions or cand in self.classes or cand in self.modules:
                return cand
            if attr in m.assigns:
                v = m.assigns[attr]
                if isinstance(v, (ast.Name, ast.Attribute)) and _depth < 8:
                    # NAME = other_function / other.module.function : an alias, follow it
                    tgt = self.resolve(m, v, _depth=_depth + 1)
                    if tgt and tgt != cand and (tgt in self.functions or tgt in self.classes):
                        return tgt
                return cand
            if attr in m.imports:
                return self.canonical(m.imports[attr], _depth + 1)
            return cand
        if head_c in self.classes:
            return f'{head_c}.{attr}'
        if head_c != head:
            return f'{head_c}.{attr}'
        return dotted

    def resolve(self, module, expr, _depth=0):
        """Resolve a Name / Attribute chain in `module` to a canonical dotted name, or None.  A function of the reference tree that
        was moved to another module / class and left behind as an alias keeps its reference name (self.moved)."""
        r = self._resolve(module, expr, _depth)
        return self.moved.get(r, r)

    def _resolve(self, module, expr, _depth=0):
        parts = []
        node = expr
        while isinstance(node, ast.Attribute):
            parts.append(node.attr)
            node = node.value
        if not isinstance(node, ast.Name):
            return None
        parts.append(node.id)
        parts.reverse()
        head = parts[0]
        if head in module.imports:
            base = module.imports[head]
        elif head in module.functions or head in module.classes or head in module.assigns:
            base = f'{module.name}.{head}'
        else:
            return None
        dotted = '.'.join([base] + parts[1:])
        return self.canonical(dotted, _depth)

    def resolve_call(self, fi, call):
        """Dotted callee of a Call node inside function fi (module-level resolution + self/cls through the MRO)."""
        f = call.func
        r = self.resolve(fi.module, f)
        if r is not None:
            return r
        if isinstance(f, ast.Attribute) and isinstance(f.value, ast.Name) and f.value.id in ('self', 'cls') and fi.cls:
            m = self.find_method(fi.cls.qualname, f.attr)
            if m:
                return m.qualname
        if isinstance(f, ast.Attribute) and isinstance(f.value, ast.Call) and isinstance(f.value.func, ast.Name) \
                and f.value.func.id == 'super' and fi.cls:
            mro = self.mro(fi.cls.qualname)
            for c in mro[1:]:
                if c in self.classes and f.attr in self.classes[c].methods:
                    return self.classes[c].methods[f.attr].qualname
            return f'super().{f.attr}'
        return None

    def effective_arg(self, fi, call, pname):
        """The expression a call binds to parameter `pname` of its (resolved, package) callee: the argument written at the call,
        else the default in the callee's signature.  Ellipsis when the call spreads * / ** or the callee is unknown."""
        q = self.resolve_call(fi, call)
        target = self.functions.get(q)
        if target is None or any(isinstance(a, ast.Starred) for a in call.args):
            return Ellipsis
        for k in call.keywords:
            if k.arg == pname:
                return k.value
        a = target.node.args
        pos = [x.arg for x in a.posonlyargs + a.args]
        if target.cls is not None and pos and pos[0] in ('self', 'cls') and not any(ast.unparse(d) == 'staticmethod' for d in target.decorators):
            pos = pos[1:]
        if pname in pos and pos.index(pname) < len(call.args):
            return call.args[pos.index(pname)]
        if any(k.arg is None for k in call.keywords):
            return Ellipsis          # a ** spread may carry it
        return target.param_default(pname)

    def mro(self, qualname, _seen=None):
        """Linearised (depth-first, de-duplicated keeping last) list of known + external base names."""
        _seen = _seen or set()
        if qualname in _seen:
            return []
        _seen.add(qualname)
        out = [qualname]
        if qualname in self.classes:
            for b in self.classes[qualname].bases:
                for x in self.mro(b, _seen):
                    if x not in out:
                        out.append(x)
        return out

    def find_method(self, class_qualname, name):
        for c in self.mro(class_qualname):
            if c in self.classes and name in self.classes[c].methods:
                return self.classes[c].methods[name]
        return None

    def subclasses(self, base_qualname):
        return [c for c in self.classes.values() if base_qualname in self.mro(c.qualname)[1:]]

    def const_value(self, module, expr, _depth=0):
        """Evaluate a literal or a module-level constant reference to a Python literal; else raise Undecided."""
        try:
            return ast.literal_eval(expr)
        except Exception:
            pass
        if _depth < 5:
            r = self.resolve(module, expr)
            if r and '.' in r:
                mod, attr = r.rsplit('.', 1)
                if mod in self.modules and attr in self.modules[mod].assigns:
                    return self.const_value(self.modules[mod], self.modules[mod].assigns[attr], _depth + 1)
        raise Undecided(f'not a constant: {ast.unparse(expr)} in {module.relpath}')

    def snippet_func(self, src, name='control'):
        """FuncInfo for an embedded source fragment (positive controls for rules whose expected count is zero)."""
        tree = canonicalise(ast.parse(src))
        mod = Module('<control>', '<control>', '<control>', 'py', src, tree)
        node = next(n for n in tree.body if isinstance(n, ast.FunctionDef))
        return FuncInfo(f'<control>.{node.name}', node, mod)

    def all_functions(self, kinds=('py',)):
        return [f for f in self.functions.values() if f.module.kind in kinds]

    def iter_calls(self, kinds=('py',)):
        for fi in self.functions.values():
            if fi.module.kind not in kinds:
                continue
            for n in ast.walk(fi.node):
                if isinstance(n, ast.Call):
                    yield fi, n
