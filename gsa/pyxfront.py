"""Spike: rewrite the Cython subset used by gambit/_cython into plain Python source that ast can parse,
keeping a side table of declared C types.  Line numbers are preserved (one output line per logical line start)."""
import tokenize, io, ast, sys, re

class PyxError(Exception):
    pass

SKIP = {tokenize.NL, tokenize.COMMENT}

def logical_lines(src):
    """Yield (indent_col, tokens) per logical line; tokens exclude INDENT/DEDENT/NEWLINE/NL/COMMENT/ENDMARKER."""
    toks = list(tokenize.generate_tokens(io.StringIO(src).readline))
    cur = []
    for t in toks:
        if t.type in (tokenize.INDENT, tokenize.DEDENT, tokenize.ENDMARKER):
            continue
        if t.type in SKIP:
            continue
        if t.type == tokenize.NEWLINE:
            if cur:
                yield cur
            cur = []
            continue
        cur.append(t)
    if cur:
        yield cur

def split_top(tokens, sep=','):
    """Split token list on top-level separator."""
    out, cur, depth = [], [], 0
    for t in tokens:
        if t.type == tokenize.OP and t.string in '([{':
            depth += 1
        elif t.type == tokenize.OP and t.string in ')]}':
            depth -= 1
        if depth == 0 and t.type == tokenize.OP and t.string == sep:
            out.append(cur); cur = []
        else:
            cur.append(t)
    out.append(cur)
    return out

def text(tokens):
    """Re-join tokens with minimal spacing (good enough for ast)."""
    s = ''
    prev = None
    for t in tokens:
        if prev is not None and (prev.end != t.start):
            s += ' '
        s += t.string
        prev = t
    return s

def find_top(tokens, op):
    depth = 0
    for i, t in enumerate(tokens):
        if depth == 0 and t.type == tokenize.OP and t.string == op:
            return i
        if t.type == tokenize.OP and t.string in '([{':
            depth += 1
        elif t.type == tokenize.OP and t.string in ')]}':
            depth -= 1
        elif depth == 0 and t.type == tokenize.OP and t.string == op:
            return i
    return -1

def parse_declarator(tokens):
    """tokens of 'TYPE... name [= expr]' or 'name [= expr]' -> (type_tokens, name, expr_tokens|None)"""
    eq = find_top(tokens, '=')
    lhs = tokens if eq < 0 else tokens[:eq]
    rhs = None if eq < 0 else tokens[eq + 1:]
    # name = last NAME token of lhs
    if not lhs:
        raise PyxError('empty declarator')
    if lhs[-1].type != tokenize.NAME:
        # unnamed parameter (prototype): whole thing is the type
        return lhs, None, rhs
    return lhs[:-1], lhs[-1].string, rhs

C_TYPE_WORDS = {'unsigned', 'signed', 'char', 'short', 'int', 'long', 'float', 'double', 'const', 'bint', 'void', 'object'}


def norm_type(s):
    """Canonical spelling of a C type: single spaces between words, none around * [ ] : ,"""
    s = re.sub(r'\s+', ' ', s.strip())
    s = re.sub(r'\s*([\*\[\]:,])\s*', r'\1', s)
    return s


def rewrite_params(tokens, types, fname, proto=False):
    """Strip C types from a parameter list (tokens between the outer parens)."""
    if not tokens:
        return ''
    out = []
    for n, seg in enumerate(split_top(tokens)):
        if not seg:
            continue
        ty, name, rhs = parse_declarator(seg)
        if name is not None and (name in C_TYPE_WORDS or (proto and not ty)):
            # unnamed parameter in a prototype: the whole segment is the type
            ty, name = (seg if rhs is None else seg[:find_top(seg, '=')]), None
        if name is None:
            name = f'_arg{n}'
        if ty and ty[-1].string == '*' and len(ty) >= 1 and ty[-1].type == tokenize.OP:
            pass
        if ty:
            types.setdefault(fname, {})[name] = norm_type(text(ty))
        out.append(name + ('' if rhs is None else '=' + rewrite_expr(rhs)))
    return ', '.join(out)

OPERAND_PREV = {'=', '(', ',', '+', '-', '*', '/', '//', '%', 'return', '[', ':', '<', '>', '<=', '>=', '==', '!=',
                '+=', '-=', '*=', '/=', 'and', 'or', 'not', 'if', 'else', 'in'}

def rewrite_expr(tokens):
    """Rewrite casts <T>x -> __cast__('T', x) and address-of &x -> __addr__(x)."""
    out = []
    i = 0
    n = len(tokens)
    def operand_pos(k):
        if k == 0:
            return True
        p = tokens[k - 1]
        return p.string in OPERAND_PREV
    def consume_primary(k):
        """return index after the primary expression starting at k"""
        t = tokens[k]
        if t.type == tokenize.OP and t.string == '(':
            depth = 0
            while True:
                if tokens[k].string in '([{' and tokens[k].type == tokenize.OP: depth += 1
                if tokens[k].string in ')]}' and tokens[k].type == tokenize.OP:
                    depth -= 1
                    if depth == 0:
                        k += 1; break
                k += 1
        else:
            k += 1
        # trailers
        while k < n and tokens[k].type == tokenize.OP and tokens[k].string in ('.', '(', '['):
            if tokens[k].string == '.':
                k += 2
            else:
                depth = 0
                while True:
                    if tokens[k].type == tokenize.OP and tokens[k].string in '([{': depth += 1
                    if tokens[k].type == tokenize.OP and tokens[k].string in ')]}':
                        depth -= 1
                        if depth == 0:
                            k += 1; break
                    k += 1
        return k
    while i < n:
        t = tokens[i]
        if t.type == tokenize.OP and t.string == '<' and operand_pos(i):
            # find matching '>' (type has no nested <>)
            j = i + 1
            while j < n and not (tokens[j].type == tokenize.OP and tokens[j].string == '>'):
                j += 1
            if j >= n:
                raise PyxError('unterminated cast')
            ty = text(tokens[i + 1:j])
            k = consume_primary(j + 1)
            inner = rewrite_expr(tokens[j + 1:k])
            out.append(f'__cast__({ty!r}, {inner})')
            i = k
            continue
        if t.type == tokenize.OP and t.string == '&' and operand_pos(i):
            k = consume_primary(i + 1)
            out.append(f'__addr__({rewrite_expr(tokens[i + 1:k])})')
            i = k
            continue
        out.append(t.string)
        i += 1
    # join conservatively with spaces
    return ' '.join(out)


def rewrite(src, modname='<pyx>'):
    types = {}       # func -> {var: ctype}
    funcs = {}       # func -> dict(kind, ret, nogil)
    typedefs = {}    # name -> ctype | ('fused', [members])
    out_lines = {}   # lineno -> text
    stack = []       # (indent_col, kind, name)  kinds: 'func', 'cdefblock', 'fused', 'other'
    for toks in logical_lines(src):
        col = toks[0].start[1]
        lineno = toks[0].start[0]
        ind = toks[0].line[:col]
        while stack and stack[-1][0] >= col:
            stack.pop()
        cur_func = next((s[2] for s in reversed(stack) if s[1] == 'func'), '<module>')
        in_cdef_block = bool(stack) and stack[-1][1] == 'cdefblock'
        in_fused = bool(stack) and stack[-1][1] == 'fused'
        first = toks[0].string
        strs = [t.string for t in toks]

        def emit(s):
            out_lines[lineno] = ind + s

        if in_fused:
            typedefs[stack[-1][2]][1].append(norm_type(text(toks)))
            emit(repr(text(toks)))
            continue
        if in_cdef_block:
            emit_decl(toks, types, cur_func, emit)
            continue
        if first == 'cimport' or (first == 'from' and 'cimport' in strs):
            emit(text(toks).replace('cimport', 'import'))
            continue
        if first == 'ctypedef':
            if toks[1].string == 'fused':
                name = toks[2].string
                typedefs[name] = ('fused', [])
                stack.append((col, 'fused', name))
                emit(f'class {name}(__fused__):')
            else:
                name = toks[-1].string
                typedefs[name] = norm_type(text(toks[1:-1]))
                emit(f'{name} = __ctypedef__({text(toks[1:-1])!r})')
            continue
        if first == 'cdef':
            rest = toks[1:]
            if len(rest) == 1 and rest[0].string == ':':
                stack.append((col, 'cdefblock', None))
                emit('if __cdef__:')
                continue
            # function header or prototype?
            lp = find_top(rest, '(')
            eq = find_top(rest, '=')
            if lp > 0 and (eq < 0 or lp < eq) and rest[lp - 1].type == tokenize.NAME:
                name = rest[lp - 1].string
                # find matching close paren
                depth = 0
                for k in range(lp, len(rest)):
                    if rest[k].type == tokenize.OP and rest[k].string == '(': depth += 1
                    if rest[k].type == tokenize.OP and rest[k].string == ')':
                        depth -= 1
                        if depth == 0:
                            rp = k; break
                tail = [t.string for t in rest[rp + 1:]]
                funcs[name] = dict(kind='cdef', ret=norm_type(text(rest[:lp - 1])), nogil='nogil' in tail, proto=(not tail or tail[-1] != ':'), line=lineno)
                params = rewrite_params(rest[lp + 1:rp], types, name, proto=not (tail and tail[-1] == ':'))
                if tail and tail[-1] == ':':
                    stack.append((col, 'func', name))
                    emit(f'def {name}({params}):')
                else:
                    emit(f'def {name}({params}): ...')
                continue
            emit_decl(rest, types, cur_func, emit)
            continue
        if first == 'def':
            name = toks[1].string
            lp = 2
            depth = 0
            for k in range(lp, len(toks)):
                if toks[k].type == tokenize.OP and toks[k].string == '(': depth += 1
                if toks[k].type == tokenize.OP and toks[k].string == ')':
                    depth -= 1
                    if depth == 0:
                        rp = k; break
            funcs[name] = dict(kind='def', ret=None, nogil=False, proto=False, line=lineno)
            # python-style annotated params "n: int" must be left alone
            segs = split_top(toks[lp + 1:rp])
            params = []
            for nseg, seg in enumerate(segs):
                if not seg: continue
                if find_top(seg, ':') >= 0 and not any(t.string == '[' for t in seg[:find_top(seg, ':')]):
                    params.append(text(seg))   # python annotation
                else:
                    params.append(rewrite_params(seg, types, name))
            stack.append((col, 'func', name))
            emit(f'def {name}({", ".join(params)}):')
            continue
        # ordinary statement: rewrite casts / address-of
        if toks[-1].string == ':' and first in ('for', 'while', 'if', 'elif', 'else', 'with', 'try', 'except', 'finally', 'class'):
            stack.append((col, 'other', None))
        emit(rewrite_expr(toks))
    maxline = max(out_lines) if out_lines else 0
    text_out = '\n'.join(out_lines.get(i, '') for i in range(1, maxline + 1)) + '\n'
    return text_out, dict(types=types, funcs=funcs, typedefs=typedefs)


def emit_decl(toks, types, cur_func, emit):
    segs = split_top(toks)
    ty, name, rhs = parse_declarator(segs[0])
    tytext = norm_type(text(ty))
    stmts = []
    def one(nm, rhs, ptr=False):
        types.setdefault(cur_func, {})[nm] = tytext + ('*' if ptr else '')
        if rhs is None:
            stmts.append(f'{nm}: {tytext!r}')
        else:
            stmts.append(f'{nm}: {tytext!r} = {rewrite_expr(rhs)}')
    one(name, rhs)
    for seg in segs[1:]:
        t2, n2, r2 = parse_declarator(seg)
        one(n2, r2, ptr=bool(t2) and t2[-1].string == '*')
    emit('; '.join(stmts))


if __name__ == '__main__':
    for f in sys.argv[1:]:
        src = open(f).read()
        py, side = rewrite(src)
        try:
            tree = ast.parse(py)
        except SyntaxError as e:
            print(f, 'SYNTAX ERROR', e)
            print(py)
            continue
        print('==', f, 'OK; funcs:', {k: (v['kind'], v['ret'], v['nogil']) for k, v in side['funcs'].items()})
        print('   typedefs:', side['typedefs'])
        print('   types:', side['types'])
        if '-v' in sys.argv:
            print(py)
