"""Rules about the command-line layer shared by the properties whose labels derive from the file names the user typed
(C08 query rows, C16 matrix labels, C17 tree leaves): the option types hand the path over as given."""
import ast

from .astutil import u, calls_in, get_kw

REWRITING_KW = {'resolve_path'}          # click.Path(resolve_path=True) replaces the value by os.path.realpath(value): symlinks -> their targets
FACTORIES = ('gambit.cli.common.filepath', 'gambit.cli.common.dirpath')


def _truthy_const(e):
    return not (isinstance(e, ast.Constant) and not e.value)


def check_path_types(rep, model, rule):
    """Every click.Path type used by the CLI is built without a value-rewriting option (directly, through the package's
    factories and their **kw defaults, or at a factory's call site)."""
    n = 0
    for fi in model.all_functions():
        if not fi.module.name.startswith('gambit.cli'):
            continue
        for c in calls_in(fi.node):
            if u(c.func) in ('click.Path', 'Path') and (u(c.func) == 'click.Path' or fi.module.imports.get('Path', '').startswith('click')):
                n += 1
                bad = [f'{k.arg}={u(k.value)}' for k in c.keywords if k.arg in REWRITING_KW and _truthy_const(k.value)]
                rep.add(rule, fi.site(c), 'a path option hands over the path as typed (no resolve_path: a symlinked genome keeps its own name)', not bad, expected='click.Path without resolve_path', found=bad or u(c)[:80], stmt=c)
                # **kw defaults set in the factory body
                star = [k for k in c.keywords if k.arg is None]
                for k in star:
                    name = u(k.value)
                    sets = []
                    for s in ast.walk(fi.node):
                        if isinstance(s, ast.Call) and isinstance(s.func, ast.Attribute) and u(s.func.value) == name and s.func.attr in ('setdefault', 'update', '__setitem__'):
                            key = s.args[0] if s.args else None
                            if isinstance(key, ast.Constant) and key.value in REWRITING_KW and (len(s.args) < 2 or _truthy_const(s.args[1])):
                                sets.append(u(s))
                            if s.func.attr == 'update':
                                for kk in s.keywords:
                                    if kk.arg in REWRITING_KW and _truthy_const(kk.value):
                                        sets.append(u(s))
                                for a in s.args:
                                    if isinstance(a, ast.Dict):
                                        for dk, dv in zip(a.keys, a.values):
                                            if isinstance(dk, ast.Constant) and dk.value in REWRITING_KW and _truthy_const(dv):
                                                sets.append(u(s))
                        if isinstance(s, ast.Assign) and any(isinstance(t, ast.Subscript) and u(t.value) == name and isinstance(t.slice, ast.Constant) and t.slice.value in REWRITING_KW for t in s.targets) \
                                and _truthy_const(s.value):
                            sets.append(u(s))
                    n += 1
                    rep.add(rule, fi.site(c), f'{fi.name}: the keyword defaults it adds do not rewrite the path', not sets, expected='no resolve_path default', found=sets or 'none', stmt=f'{fi.name} **{name}')
    # call sites of the factories (decorators at module level included)
    for mod in model.modules.values():
        if mod.kind != 'py' or not mod.name.startswith('gambit.cli'):
            continue
        for c in [x for x in ast.walk(mod.tree) if isinstance(x, ast.Call)]:
            r = model.resolve(mod, c.func)
            if r in FACTORIES:
                n += 1
                bad = [f'{k.arg}={u(k.value)}' for k in c.keywords if k.arg in REWRITING_KW and _truthy_const(k.value)]
                rep.add(rule, (mod.relpath, c.lineno, mod.name), 'a path option hands over the path as typed (no resolve_path at the option)', not bad, expected='no resolve_path', found=bad or u(c)[:80], stmt=c)
    rep.floor(rule, 'click.Path constructions / factory uses', n, 6)


def check_query_cli_params(rep, model, rule):
    """`gambit query`: the classification mode the user chose on the command line is the one every row is classified with.  The
    --strict flag (off by default) becomes QueryParams.classify_strict, that parameter object is what query() / query_parse() are
    given, and query_parse() forwards it unchanged.  (query() -> get_result_item -> classify(strict=params.classify_strict) is rule
    D6 of C03.)"""
    from .astutil import reaching_def, def_value, PARAM, stmt_of
    from .report import Undecided
    m = model
    fc = m.func('gambit.cli.query.query_cmd')
    rep.functions.add(fc.qualname)
    # the option
    opts = [d for d in fc.node.decorator_list if isinstance(d, ast.Call) and u(d.func) == 'click.option' and any(isinstance(a, ast.Constant) and isinstance(a.value, str) and a.value.split('/')[0] == '--strict' for a in d.args)]
    rep.require(len(opts) == 1, 'query_cmd: expected one --strict option')
    o = opts[0]
    spec = next(a.value for a in o.args if isinstance(a, ast.Constant) and isinstance(a.value, str) and a.value.startswith('--strict'))
    is_flag = '/' in spec or (get_kw(o, 'is_flag') is not None and _truthy_const(get_kw(o, 'is_flag')) and isinstance(get_kw(o, 'is_flag'), ast.Constant))
    dflt = get_kw(o, 'default')
    rep.add(rule, fc.site(o), 'the command line classifies non-strictly unless --strict is given', is_flag and (dflt is None or (isinstance(dflt, ast.Constant) and dflt.value is False)) and 'strict' in fc.params(),
            expected="click.option('--strict/--no-strict', default=False) bound to the parameter `strict`", found=u(o)[:90], stmt='--strict option')
    # the parameter object
    QP = 'gambit.query.QueryParams'
    cons = [c for c in calls_in(fc.node) if m.resolve_call(fc, c) == QP]
    rep.require(len(cons) >= 1, 'query_cmd: no QueryParams construction')
    fields = [s.target.id for s in m.cls(QP).node.body if isinstance(s, ast.AnnAssign) and isinstance(s.target, ast.Name)]
    for c in cons:
        if any(isinstance(a, ast.Starred) for a in c.args) or any(k.arg is None for k in c.keywords):
            raise Undecided(f'query_cmd: QueryParams built with * / ** arguments: {u(c)[:70]}')
        v = get_kw(c, 'classify_strict')
        if v is None and 'classify_strict' in fields and fields.index('classify_strict') < len(c.args):
            v = c.args[fields.index('classify_strict')]
        ok = isinstance(v, ast.Name) and v.id == 'strict' and reaching_def(fc.node, 'strict', stmt_of(fc.node, c)) is PARAM
        rep.add(rule, fc.site(c), 'the --strict flag becomes the classification mode of the query parameters', ok, expected='QueryParams(classify_strict=strict)', found=u(c)[:80], stmt='QueryParams construction')
    # ... is what the query functions get
    n = 0
    for c in calls_in(fc.node):
        q = m.resolve_call(fc, c)
        if q not in ('gambit.query.query', 'gambit.query.query_parse'):
            continue
        n += 1
        a = m.effective_arg(fc, c, 'params')
        src = a
        if isinstance(a, ast.Name):
            d = reaching_def(fc.node, a.id, stmt_of(fc.node, c))
            src = def_value(d) if d not in (None, PARAM) and not isinstance(d, str) else None
        ok = isinstance(src, ast.Call) and any(src is k for k in cons)
        rep.add(rule, fc.site(c), 'the query runs with the parameters built from the command line', ok, expected='params=<that QueryParams object>', found=(u(c)[:70], u(a) if isinstance(a, ast.AST) else repr(a)), stmt=f'{q.rsplit(".", 1)[1]} params')
    rep.require(n >= 1, 'query_cmd: no call of query() / query_parse()')
    fp = m.func('gambit.query.query_parse')
    rep.functions.add(fp.qualname)
    fw = [c for c in calls_in(fp.node) if m.resolve_call(fp, c) == 'gambit.query.query']
    rep.require(len(fw) >= 1 and 'params' in fp.params(), 'query_parse: no call of query() / no `params` parameter')
    for c in fw:
        a = m.effective_arg(fp, c, 'params')
        ok = isinstance(a, ast.Name) and a.id == 'params' and reaching_def(fp.node, 'params', stmt_of(fp.node, c)) is PARAM
        rep.add(rule, fp.site(c), 'query_parse() forwards the caller\'s parameters unchanged', ok, expected='query(db, sigs, params, ...)', found=u(c)[:80], stmt='query_parse forwards params')
