"""Rules about the command-line layer shared by the properties whose labels derive from the file names the user typed
(C08 query rows, C16 matrix labels, C17 tree leaves): the option types hand the path over as given."""
import ast

from .astutil import u, calls_in, get_kw

REWRITING_KW = {'resolve_path'}          # click.Path(resolve_path=True) replaces the value by os.path.realpath(value): symlinks -> their targets
FACTORIES = ('gambit.cli.common.filepath', 'gambit.cli.common.dirpath')


def _truthy_const(e):
    return not (isinstance(e, ast.Constant) and not e.value)


def check_path_types(rep, model, rule):
    """Every click.Path type used by the CLI is built without a value-rewriting option (directly, through the package's
    factories and their **kw defaults, or at a factory's call site)."""
    n = 0
    for fi in model.all_functions():
        if not fi.module.name.startswith('gambit.cli'):
            continue
        for c in calls_in(fi.node):
            if u(c.func) in ('click.Path', 'Path') and (u(c.func) == 'click.Path' or fi.module.imports.get('Path', '').startswith('click')):
                n += 1
                bad = [f'{k.arg}={u(k.value)}' for k in c.keywords if k.arg in REWRITING_KW and _truthy_const(k.value)]
                rep.add(rule, fi.site(c), 'a path option hands over the path as typed (no resolve_path: a symlinked genome keeps its own name)', not bad, expected='click.Path without resolve_path', found=bad or u(c)[:80], stmt=c)
                # **kw defaults set in the factory body
                star = [k for k in c.keywords if k.arg is None]
                for k in star:
                    name = u(k.value)
                    sets = []
                    for s in ast.walk(fi.node):
                        if isinstance(s, ast.Call) and isinstance(s.func, ast.Attribute) and u(s.func.value) == name and s.func.attr in ('setdefault', 'update', '__setitem__'):
                            key = s.args[0] if s.args else None
                            if isinstance(key, ast.Constant) and key.value in REWRITING_KW and (len(s.args) < 2 or _truthy_const(s.args[1])):
                                sets.append(u(s))
                            if s.func.attr == 'update':
                                for kk in s.keywords:
                                    if kk.arg in REWRITING_KW and _truthy_const(kk.value):
                                        sets.append(u(s))
                                for a in s.args:
                                    if isinstance(a, ast.Dict):
                                        for dk, dv in zip(a.keys, a.values):
                                            if isinstance(dk, ast.Constant) and dk.value in REWRITING_KW and _truthy_const(dv):
                                                sets.append(u(s))
                        if isinstance(s, ast.Assign) and any(isinstance(t, ast.Subscript) and u(t.value) == name and isinstance(t.slice, ast.Constant) and t.slice.value in REWRITING_KW for t in s.targets) \
                                and _truthy_const(s.value):
                            sets.append(u(s))
                    n += 1
                    rep.add(rule, fi.site(c), f'{fi.name}: the keyword defaults it adds do not rewrite the path', not sets, expected='no resolve_path default', found=sets or 'none', stmt=f'{fi.name} **{name}')
    # call sites of the factories (decorators at module level included)
    for mod in model.modules.values():
        if mod.kind != 'py' or not mod.name.startswith('gambit.cli'):
            continue
        for c in [x for x in ast.walk(mod.tree) if isinstance(x, ast.Call)]:
            r = model.resolve(mod, c.func)
            if r in FACTORIES:
                n += 1
                bad = [f'{k.arg}={u(k.value)}' for k in c.keywords if k.arg in REWRITING_KW and _truthy_const(k.value)]
                rep.add(rule, (mod.relpath, c.lineno, mod.name), 'a path option hands over the path as typed (no resolve_path at the option)', not bad, expected='no resolve_path', found=bad or u(c)[:80], stmt=c)
    rep.floor(rule, 'click.Path constructions / factory uses', n, 6)
