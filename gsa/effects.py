"""Call-graph closure and write-effect extraction (used by C08-A6 and C18)."""
import ast

from .astutil import u, stmts_in, calls_in, callee_attr, walk_no_nested

MUTATING_METHODS = {'append', 'extend', 'insert', 'add', 'update', 'setdefault', 'pop', 'popitem', 'clear', 'remove', 'discard', 'sort', 'reverse',
                    '__setitem__', '__delitem__', 'fill', 'put', 'resize'}


def local_names(fi):
    """Names bound inside the function body (not parameters)."""
    out = set()
    for n in ast.walk(fi.node):
        if isinstance(n, ast.Name) and isinstance(n.ctx, ast.Store):
            out.add(n.id)
        elif isinstance(n, (ast.FunctionDef, ast.ClassDef)) and n is not fi.node:
            out.add(n.name)
        elif isinstance(n, ast.ExceptHandler) and n.name:
            out.add(n.name)
        elif isinstance(n, (ast.Import, ast.ImportFrom)):
            for a in n.names:
                out.add((a.asname or a.name).split('.')[0])
    globs = set()
    for n in ast.walk(fi.node):
        if isinstance(n, (ast.Global, ast.Nonlocal)):
            globs |= set(n.names)
    return out - globs, globs


def root_name(e):
    while isinstance(e, (ast.Subscript, ast.Attribute)):
        e = e.value
    if isinstance(e, ast.Call):
        return root_name(e.func)
    return e.id if isinstance(e, ast.Name) else None


FRESH_BUILTINS = {'dict', 'list', 'set', 'tuple', 'bytearray', 'frozenset', 'float', 'int', 'str', 'sorted', 'range'}
# standard-library containers whose constructor returns a new object (resolved through the module's imports, so aliases count)
FRESH_STDLIB = {'collections.defaultdict', 'collections.OrderedDict', 'collections.Counter', 'collections.deque'}


def _fresh_stdlib_call(fi, model, call):
    """collections.defaultdict(<builtin container type>) / OrderedDict(...) / Counter(...) / deque(...): a new container.  A
    defaultdict is only accepted with a builtin factory and no initial content: its values are then new objects as well."""
    r = model.resolve(fi.module, call.func) if model is not None else None
    if r not in FRESH_STDLIB:
        return False
    if r == 'collections.defaultdict':
        return not call.keywords and len(call.args) <= 1 and all(isinstance(a, ast.Name) and a.id in FRESH_BUILTINS or (isinstance(a, ast.Constant) and a.value is None) for a in call.args)
    return True


def fresh_names(fi, model=None):
    """Locals every assignment of which binds a freshly created object (constructor call of a package class, builtin
    container, literal display, comprehension, numpy allocation).  Loop variables, unpacked values and results of other
    calls may be pre-existing objects and are NOT fresh."""
    status = {}
    for s in stmts_in(fi.node.body):
        pairs = []
        if isinstance(s, ast.Assign):
            for t in s.targets:
                if isinstance(t, ast.Name):
                    pairs.append((t.id, s.value))
                elif isinstance(t, (ast.Tuple, ast.List)):
                    for e in t.elts:
                        if isinstance(e, ast.Name):
                            pairs.append((e.id, None))
        elif isinstance(s, ast.AnnAssign) and isinstance(s.target, ast.Name) and s.value is not None:
            pairs.append((s.target.id, s.value))
        elif isinstance(s, (ast.For, ast.AsyncFor)):
            for n in ast.walk(s.target):
                if isinstance(n, ast.Name):
                    pairs.append((n.id, None))
        elif isinstance(s, (ast.With, ast.AsyncWith)):
            for it in s.items:
                if it.optional_vars is not None:
                    for n in ast.walk(it.optional_vars):
                        if isinstance(n, ast.Name):
                            pairs.append((n.id, None))
        for name, v in pairs:
            ok = False
            while isinstance(v, ast.Subscript) and isinstance(v.value, (ast.Call, ast.Subscript)):
                v = v.value       # a slice / element of a freshly created array is still local state
            if isinstance(v, (ast.List, ast.Dict, ast.Set, ast.Tuple, ast.ListComp, ast.DictComp, ast.SetComp, ast.Constant, ast.JoinedStr, ast.BinOp)):
                ok = True
            elif isinstance(v, ast.Call):
                f = u(v.func)
                if f in FRESH_BUILTINS or f.startswith(('np.', 'numpy.')):
                    ok = True
                elif model is not None and (model.resolve_call(fi, v) in model.classes):
                    ok = True
                elif _fresh_stdlib_call(fi, model, v):
                    ok = True
                elif f[:1].isupper() and '.' not in f:
                    ok = True          # constructor-style call of a class imported from elsewhere
            status[name] = status.get(name, True) and ok
    return {n for n, ok in status.items() if ok}


def nonlocal_writes(fi, allow_self_in=('__init__', '__attrs_post_init__', '_init_from_arrays'), model=None, strict=False):
    """[(node, description)] for writes whose target is not a function-local object:
    attribute / subscript stores and mutating method calls rooted at a parameter or a global; global statements."""
    locs, globs = local_names(fi)
    out = []
    params = set(fi.params())
    self_ok = fi.name in allow_self_in
    fresh_locals = set()
    # locals bound to fresh objects (constructor calls / literals / comprehensions) are local state
    for s in stmts_in(fi.node.body):
        if isinstance(s, ast.Assign):
            for t in s.targets:
                if isinstance(t, ast.Name):
                    fresh_locals.add(t.id)

    fresh = fresh_names(fi, model) if strict else None

    def is_local_root(r):
        if r is None:
            return True
        if r in ('self', 'cls'):
            return self_ok
        if r in params:
            return False
        if r in globs:
            return False
        if strict:
            return r in fresh
        return r in locs

    for g in globs:
        out.append((fi.node, f'global {g}'))
    for s in stmts_in(fi.node.body):
        targets = []
        if isinstance(s, ast.Assign):
            targets = s.targets
        elif isinstance(s, (ast.AugAssign, ast.AnnAssign)):
            targets = [s.target]
        elif isinstance(s, ast.Delete):
            targets = s.targets
        for t in targets:
            for x in ([t] if not isinstance(t, (ast.Tuple, ast.List)) else t.elts):
                if isinstance(x, (ast.Attribute, ast.Subscript)) and not is_local_root(root_name(x)):
                    out.append((s, f'store to {u(x)}'))
                elif isinstance(x, ast.Name) and x.id in globs:
                    out.append((s, f'store to global {x.id}'))
    for c in calls_in(fi.node):
        if isinstance(c.func, ast.Attribute) and c.func.attr in MUTATING_METHODS:
            r = root_name(c.func.value)
            if isinstance(c.func.value, ast.Call):
                # x.setdefault(k, []).append(v): the mutated object belongs to root of the inner receiver
                r = root_name(c.func.value.func)
            if not is_local_root(r):
                out.append((c, f'mutating call {u(c.func)}'))
    return out


def method_index(m):
    """method name -> [FuncInfo] over all package classes (for receiver-less resolution of obj.method())."""
    idx = {}
    for c in m.classes.values():
        for name, f in c.methods.items():
            idx.setdefault(name, []).append(f)
    return idx


def callees(m, fi, midx=None, method_modules=None):
    """Resolved package callees of a function: functions, classes (-> their __init__ / attrs default methods), and
    attribute calls whose method name is defined by exactly one... or several package classes (all candidates)."""
    midx = midx or method_index(m)
    out = set()
    for c in calls_in(fi.node):
        r = m.resolve_call(fi, c)
        if r in m.functions:
            out.add(r)
            continue
        if r in m.classes:
            ci = m.classes[r]
            for name, f in ci.methods.items():
                if name in ('__init__', '__attrs_post_init__') or any(u(d).endswith('.default') for d in f.decorators):
                    out.add(f.qualname)
            continue
        if isinstance(c.func, ast.Attribute) and r is None:
            for f in midx.get(c.func.attr, []):
                if f.module.kind == 'py' and (method_modules is None or f.module.name in method_modules):
                    out.add(f.qualname)
    return out


def closure(m, roots, stop=(), method_modules=None):
    midx = method_index(m)
    seen = set()
    work = list(roots)
    while work:
        q = work.pop()
        if q in seen or q in stop or q not in m.functions:
            continue
        seen.add(q)
        work.extend(callees(m, m.functions[q], midx, method_modules))
    return seen
