"""C06 - a genome's signature depends only on its biological content (gambit-side clauses).

F1 per-record isolation: one generator element per record, no concatenation between records and the search; one shared accumulator
F2 strand symmetry = C01-K1..K4 (mirrored windows/slices) + C07-T3/T5/T6 (rc encoder = encoder o complement), re-evaluated
F3 case = C01-K6 + the 0xDF mask in both encoders (C07-T1/T3), re-evaluated
F4 content-based compression: every CLI SequenceFile is 'auto'; auto -> _open_auto; gzip magic; seek(0); universal newlines
F5 parse(): text mode, handed to SeqIO.parse with the file's format; stream closed on error and on exhaustion
"""
import ast

from ..astutil import (u, atoms, guard_map, path_atoms, stmts_in, calls_in, callee, callee_attr, reaching_def, def_value,
                       PARAM, AMBIGUOUS, get_arg, get_kw, is_none, is_const, raised_name, block_path, names_in)
from ..report import Undecided
from . import c01, c07

SEQ_NAMES = {'seq', 'seqs', 'record', 'records', 'haystack', 'kmer'}


def check_isolation(ctx):
    rep, m = ctx.rep, ctx.model
    fi = m.func('gambit.sigs.calc.calc_file_signature')
    rep.functions.add(fi.qualname)
    kp, sf = fi.params()[:2]
    cs = [c for c in calls_in(fi.node) if m.resolve_call(fi, c) == 'gambit.sigs.calc.calc_signature']
    rep.require(len(cs) == 1, 'calc_file_signature: expected one calc_signature call')
    c = cs[0]
    st = next(s for s in stmts_in(fi.node.body) if any(x is c for x in ast.walk(s)) and isinstance(s, (ast.Return, ast.Assign)))
    w = next((o for (_, _, o) in block_path(fi.node, st) if isinstance(o, ast.With)), None)
    okw = w is not None and len(w.items) == 1 and u(w.items[0].context_expr) == f'{sf}.parse()' and w.items[0].optional_vars is not None
    rep.add('F1', fi.site(w), 'records come from the lazy parser of this file, inside a context that closes the stream', okw, expected=f'with {sf}.parse() as records', found=u(w.items[0].context_expr) if w is not None else None, stmt='parse context')
    recs = u(w.items[0].optional_vars) if okw else None
    g = c.args[1] if len(c.args) > 1 else None
    okg = isinstance(g, (ast.GeneratorExp, ast.ListComp)) and len(g.generators) == 1 and not g.generators[0].ifs and u(g.generators[0].iter) == recs and u(g.elt) == f'{u(g.generators[0].target)}.seq'
    rep.add('F1', fi.site(c), 'each record is handed over as its own sequence: one element per record, nothing filtered or merged', okg, expected=f'(record.seq for record in {recs})', found=u(g), stmt='per-record generator')
    rep.account_returns('F1', fi, [st] if isinstance(st, ast.Return) else [], 'file signature')
    rep.add('F1', fi.site(c), 'the file is searched with the given parameters and the optional caller accumulator', u(c.args[0]) == kp and u(get_kw(c, 'accumulator')) == 'accumulator', expected=f'calc_signature({kp}, ..., accumulator=accumulator)',
            found=u(c)[:80], stmt='calc_signature operands')
    # no concatenation anywhere between the records and the search
    n = 0
    for q in ('gambit.sigs.calc.calc_file_signature', 'gambit.sigs.calc.calc_signature', 'gambit.sigs.calc.accumulate_kmers', 'gambit.kmers.find_kmers'):
        f = m.func(q)
        rep.functions.add(q)
        bad = []
        for node in ast.walk(f.node):
            if isinstance(node, ast.Call) and callee_attr(node) in ('join', 'chain', 'from_iterable', 'concatenate', 'sum'):
                if names_in(node) & SEQ_NAMES:
                    bad.append(u(node)[:60])
            if isinstance(node, ast.BinOp) and isinstance(node.op, (ast.Add, ast.Mult)) and (names_in(node.left) | names_in(node.right)) & SEQ_NAMES \
                    and not ({'loc', 'start', 'kmerspec'} & (names_in(node.left) | names_in(node.right))):
                bad.append(u(node)[:60])
            if isinstance(node, ast.AugAssign) and isinstance(node.op, ast.Add) and names_in(node.target) & SEQ_NAMES:
                bad.append(u(node)[:60])
        n += 1
        rep.add('F1', f.site(), f'{f.name}: sequences are never concatenated or joined (no k-mer can span two contigs)', not bad, expected='no join / + / sum on sequences', found=bad, stmt=f'no concat {f.name}', construct=q)
    rep.floor('F1', 'functions scanned for concatenation', n, 4)
    # shared accumulator + per sequence loop: C01-K9 re-evaluated
    c01.analyse_accumulate(ctx)


def check_compression(ctx):
    rep, m = ctx.rep, ctx.model
    # every SequenceFile built in cli/ uses 'auto'
    sites = 0
    for fi, call in m.iter_calls(kinds=('py',)):
        if not fi.module.name.startswith('gambit.cli.'):
            continue
        tgt = m.resolve_call(fi, call)
        if tgt == 'gambit.seq.SequenceFile.from_paths':
            comp = get_arg(call, 2, 'compression')
            fmt = get_arg(call, 1, 'format')
        elif tgt == 'gambit.seq.SequenceFile':
            comp = get_arg(call, 2, 'compression')
            fmt = get_arg(call, 1, 'format')
        else:
            continue
        sites += 1
        rep.call_sites += 1
        rep.functions.add(fi.qualname)
        rep.add('F4', fi.site(call), 'genome files given on the command line are opened with content-based compression detection', comp not in (None, Ellipsis) and is_const(comp, 'auto') and is_const(fmt, 'fasta'),
                expected="(..., 'fasta', 'auto')", found=u(call)[:80], stmt=call, construct=fi.qualname)
    rep.floor('F4', 'SequenceFile construction sites in cli/', sites, 4)
    fo = m.func('gambit.seq.SequenceFile.open')
    rep.functions.add(fo.qualname)
    rets = [s for s in fo.node.body if isinstance(s, ast.Return)]
    oko = len(rets) == 1 and isinstance(rets[0].value, ast.Call) and m.resolve_call(fo, rets[0].value) == 'gambit.util.io.open_compressed' and [u(a) for a in rets[0].value.args[:2]] == ['self.path', fo.params()[1]] \
        and len(rets[0].value.args) >= 3
    cname = u(rets[0].value.args[2]) if oko else None
    cdef = [s for s in fo.node.body if isinstance(s, ast.Assign) and u(s.targets[0]) == cname]
    oko = oko and len(cdef) == 1 and isinstance(cdef[0].value, ast.IfExp) and atoms(cdef[0].value.test) == {('is', 'None', 'self.compression')} and is_const(cdef[0].value.body, 'none') and u(cdef[0].value.orelse) == 'self.compression'
    rep.add('F4', fo.site(), "SequenceFile.open forwards its own path and compression ('none' when unset)", oko, expected="open_compressed(self.path, mode, 'none' if self.compression is None else self.compression)", found=[u(s) for s in cdef + rets],
            stmt='SequenceFile.open')
    foc = m.func('gambit.util.io.open_compressed')
    rep.functions.add(foc.qualname)
    gm = guard_map(foc.node)
    rets = [s for s in stmts_in(foc.node.body) if isinstance(s, ast.Return)]
    auto = [r for r in rets if ('eq', "'auto'", foc.params()[2]) in path_atoms(gm[r])]
    oka = len(auto) == 1 and isinstance(auto[0].value, ast.Call) and m.resolve_call(foc, auto[0].value) == 'gambit.util.io._open_auto' and [u(a) for a in auto[0].value.args] == foc.params()[:2]
    rep.add('F4', foc.site(auto[0] if auto else None), "'auto' dispatches to the content sniffer with the same path and mode", oka, expected='_open_auto(path, mode, **kwargs)', found=[u(r.value) for r in auto], stmt='auto dispatch')
    fa = m.func('gambit.util.io._open_auto')
    rep.functions.add(fa.qualname)
    gma = guard_map(fa.node)
    pa, md = fa.params()[:2]
    op = [s for s in stmts_in(fa.node.body) if isinstance(s, ast.Assign) and isinstance(s.value, ast.Call) and u(s.value.func) == 'open']
    okop = len(op) == 1 and [u(a) for a in op[0].value.args] == [pa, "'rb'"]
    fv = u(op[0].targets[0]) if op else None
    rep.add('F4', fa.site(op[0] if op else None), 'the file is first opened in binary mode', okop, expected=f"open({pa}, 'rb')", found=[u(o.value) for o in op], stmt='binary open')
    gs = [s for s in stmts_in(fa.node.body) if isinstance(s, ast.Assign) and isinstance(s.value, ast.Call) and m.resolve_call(fa, s.value) == 'gambit.util.io.guess_compression']
    sk = [s for s in stmts_in(fa.node.body) if isinstance(s, ast.Expr) and isinstance(s.value, ast.Call) and u(s.value.func) == f'{fv}.seek']
    oks = len(gs) == 1 and [u(a) for a in gs[0].value.args] == [fv] and len(sk) == 1 and [u(a) for a in sk[0].value.args] == ['0'] and gs[0].lineno < sk[0].lineno \
        and block_path(fa.node, sk[0])[-1][0] is block_path(fa.node, gs[0])[-1][0]
    rep.add('F4', fa.site(sk[0] if sk else (gs[0] if gs else None)), 'the stream is rewound to the start after sniffing (the magic bytes are part of the data)', oks, expected=f'compression = guess_compression({fv}); {fv}.seek(0)',
            found=[u(s) for s in gs + sk], stmt='rewind')
    cv = u(gs[0].targets[0]) if gs else None
    rets_a = [s for s in stmts_in(fa.node.body) if isinstance(s, ast.Return)]
    bname = None
    if len(rets_a) == 1 and isinstance(rets_a[0].value, ast.IfExp):
        for arm in (rets_a[0].value.body, rets_a[0].value.orelse):
            if isinstance(arm, ast.Name):
                bname = arm.id
    bins = [s for s in stmts_in(fa.node.body) if isinstance(s, ast.Assign) and u(s.targets[0]) == bname]
    table = {}
    for s in bins:
        for a in path_atoms(gma[s]):
            if a[0] == 'eq' and cv in a:
                table[(a[1] if a[2] == cv else a[2]).strip("'")] = u(s.value)
    okb = table.get('none') == fv and table.get('gzip', '').replace(' ', '') in (f"gzip.GzipFile(fileobj={fv},mode='rb')",)
    rep.add('F4', fa.site(bins[0] if bins else None), 'plain content is read as is, gzip content through GzipFile over the same stream', okb, expected=f"none -> {fv}; gzip -> gzip.GzipFile(fileobj={fv}, mode='rb')", found=table, stmt='decompression table')
    rets = [s for s in stmts_in(fa.node.body) if isinstance(s, ast.Return)]
    okt = False
    if len(rets) == 1 and isinstance(rets[0].value, ast.IfExp):
        ie = rets[0].value
        tw = ie.body
        okt = isinstance(tw, ast.Call) and u(tw.func) == 'TextIOWrapper' and [u(a) for a in tw.args] == [bname] and get_kw(tw, 'newline') is None and u(ie.orelse) == bname \
            and atoms(ie.test) == {('eq', "'t'", f'{md}[1]')}
    rep.add('F4', fa.site(rets[0] if rets else None), 'text mode wraps the (decompressed) stream in a TextIOWrapper with universal newlines (LF and CRLF equivalent)', okt, expected="TextIOWrapper(<binary stream>, **kwargs) if mode[1] == 't' else <binary stream>",
            found=[u(r.value) for r in rets], stmt='text wrapper')
    rep.account_returns('F4', fa, rets[:1], 'opened stream')
    rs = [s for s in stmts_in(fa.node.body) if isinstance(s, ast.Raise)]
    rep.add('F4', fa.site(rs[0] if rs else None), 'auto detection is for reading only', any(('ne', "'r'", f'{md}[0]') in path_atoms(gma[r]) for r in rs), expected="raise when mode[0] != 'r'", found=[sorted(path_atoms(gma[r])) for r in rs], stmt='read only')
    fg = m.func('gambit.util.io.guess_compression')
    rep.functions.add(fg.qualname)
    gmg = guard_map(fg.node)
    rd = [s for s in fg.node.body if isinstance(s, ast.Assign) and isinstance(s.value, ast.Call) and callee_attr(s.value) == 'read']
    okr = len(rd) == 1 and [u(a) for a in rd[0].value.args] == ['2'] and u(rd[0].value.func.value) == fg.params()[0]
    mg = u(rd[0].targets[0]) if rd else None
    rets = [s for s in stmts_in(fg.node.body) if isinstance(s, ast.Return)]
    tbl = {}
    for r in rets:
        at = path_atoms(gmg[r])
        key = 'gzip-magic' if ('eq', "b'\\x1f\\x8b'", mg) in at or ('eq', mg, "b'\\x1f\\x8b'") in at else 'other' if any(a[0] == 'ne' and mg in a for a in at) else '?'
        tbl[key] = u(r.value)
    rep.add('F4', fg.site(), "compression is recognised from the first two bytes: 1f 8b -> gzip, anything else -> none", okr and tbl == {'gzip-magic': "'gzip'", 'other': "'none'"}, expected="read(2) == b'\\x1f\\x8b' -> 'gzip' else 'none'", found=tbl,
            stmt='gzip magic')


def check_parse(ctx):
    rep, m = ctx.rep, ctx.model
    fp = m.func('gambit.seq.SequenceFile.parse')
    rep.functions.add(fp.qualname)
    op = [s for s in stmts_in(fp.node.body) if isinstance(s, ast.Assign) and isinstance(s.value, ast.Call) and u(s.value.func) == 'self.open']
    oko = len(op) == 1 and [u(a) for a in op[0].value.args] == ["'rt'"]
    fv = u(op[0].targets[0]) if op else None
    rep.add('F5', fp.site(op[0] if op else None), 'the file is opened in text mode through SequenceFile.open (so compression handling applies)', oko, expected="self.open('rt', **kwargs)", found=[u(o.value) for o in op], stmt='parse open')
    sp = [c for c in calls_in(fp.node) if m.resolve_call(fp, c) == 'Bio.SeqIO.parse']
    okp = len(sp) == 1 and [u(a) for a in sp[0].args] == [fv, 'self.format']
    rep.add('F5', fp.site(sp[0] if sp else None), "records are produced by Biopython's parser for the file's declared format", okp, expected=f'SeqIO.parse({fv}, self.format)', found=[u(c) for c in sp], stmt='SeqIO.parse')
    rets = [s for s in stmts_in(fp.node.body) if isinstance(s, ast.Return)]
    okr = len(rets) == 1 and isinstance(rets[0].value, ast.Call) and u(rets[0].value.func) == 'ClosingIterator' and len(rets[0].value.args) == 2 and u(rets[0].value.args[1]) == fv
    rep.account_returns('F5', fp, rets[:1], 'record iterator')
    rep.add('F5', fp.site(rets[0] if rets else None), 'the record iterator owns the stream (closes it on exhaustion / context exit)', okr, expected=f'ClosingIterator(records, {fv})', found=[u(r.value) for r in rets], stmt='closing iterator')
    tr = [s for s in stmts_in(fp.node.body) if isinstance(s, ast.Try)]
    okt = len(tr) == 1 and any(any(isinstance(x, ast.Expr) and u(x.value) == f'{fv}.close()' for x in h.body) and isinstance(h.body[-1], ast.Raise) and h.body[-1].exc is None for h in tr[0].handlers)
    rep.add('F5', fp.site(tr[0] if tr else None), 'the stream is closed and the error re-raised if the parser cannot be set up', okt, expected=f'except: {fv}.close(); raise', found=[u(h)[:60] for t in tr for h in t.handlers], stmt='error path')
    ci = m.cls('gambit.util.io.ClosingIterator')
    nx = ci.methods.get('__next__')
    rep.functions.add(nx.qualname)
    rr = [s for s in stmts_in(nx.node.body) if isinstance(s, ast.Return)]
    okn = len(rr) == 1 and u(rr[0].value) == 'next(self.iterator)'
    hs = [h for s in stmts_in(nx.node.body) if isinstance(s, ast.Try) for h in s.handlers]
    okn = okn and len(hs) == 1 and u(hs[0].type) == 'StopIteration' and isinstance(hs[0].body[-1], ast.Raise) and hs[0].body[-1].exc is None
    rep.add('F5', nx.site(), 'the closing iterator yields exactly the parsed records, one per call, and only intercepts exhaustion', okn, expected='return next(self.iterator); except StopIteration: self.close(); raise', found=[u(r.value) for r in rr],
            stmt='closing iterator next')


def check(ctx):
    rep = ctx.rep
    rep.rule('F1', 'per-record isolation (generator of record.seq; no concatenation in the search chain) + K5/K9 shared accumulator')
    rep.rule('F4', "content-based compression at every CLI site; 'auto' -> sniffer; gzip magic 1f8b; seek(0); TextIOWrapper without newline override")
    rep.rule('F5', 'parse(): rt mode, SeqIO.parse(fobj, self.format), stream ownership and error path')
    rep.rule('K1', 'C01-K1 (search loops) re-evaluated: mirrored windows'); rep.rule('K2', 'C01-K2 slices'); rep.rule('K3', 'C01-K3 composition'); rep.rule('K4', 'C01-K4 strand dispatch')
    rep.rule('K5', 'C01-K5 skip discipline'); rep.rule('K6', 'C01-K6 case folding'); rep.rule('K9', 'C01-K9 one shared accumulator')
    rep.rule('T1', 'C07-T1 encoder (incl. case mask)'); rep.rule('T2', 'C07-T2'); rep.rule('T3', 'C07-T3 rc encoder'); rep.rule('T5', 'C07-T5 complement'); rep.rule('T6', 'C07-T6 rc encoder = encoder o complement'); rep.rule('T9', 'C07-T9 bindings')
    rep.rule('K2.0', 'KmerSpec attribute harvest')
    rep.trusted += ["Biopython's FASTA parser handles line wrapping, CRLF inside records and a missing final newline", 'gzip member handling of GzipFile', 'io.TextIOWrapper universal newlines']
    rep.assumptions += ['Re-wrapping, final newline and CRLF inside the FASTA parser are Biopython behaviour, not decided here (gambit-side clauses only).']
    check_isolation(ctx)
    # F2 / F3: re-evaluate the strand and case premises
    c01.harvest_kmerspec(ctx)
    loops = c01.analyse_search_loops(ctx)
    c01.analyse_slices(ctx, loops)
    m = ctx.model
    nuc = m.const_value(m.module('gambit.seq'), m.module('gambit.seq').assigns['NUCLEOTIDES'])
    enc = c07.analyse_encoder(ctx, m.func('gambit._cython.kmers.c_kmer_to_index'), nuc, rc=False)
    encrc = c07.analyse_encoder(ctx, m.func('gambit._cython.kmers.c_kmer_to_index_rc'), nuc, rc=True)
    comp = c07.analyse_revcomp(ctx, m.func('gambit._cython.kmers.c_revcomp'))
    fi_rc = m.func('gambit._cython.kmers.c_kmer_to_index_rc')
    for ch in b'ACGTacgt':
        c = comp.get(ch)
        rep.add('T6', fi_rc.site(), f'rc digit of {chr(ch)!r} == forward digit of its complement (strand symmetry of the index)', ch in encrc and c in enc and encrc[ch] == enc[c], expected=enc.get(c), found=encrc.get(ch),
                stmt=f'cross[{chr(ch)}]')
    check_compression(ctx)
    check_parse(ctx)


from ..variants import V  # noqa: E402

_S = 'src/gambit/sigs/calc.py'
_IO = 'src/gambit/util/io.py'
_SQ = 'src/gambit/seq.py'
VARIANTS = [
    V('records concatenated', 'B', _S, "return calc_signature(kspec, (record.seq for record in records), accumulator=accumulator)",
      "return calc_signature(kspec, [b''.join(bytes(record.seq) for record in records)], accumulator=accumulator)", 'F1'),
    V('records joined with a separator', 'B', _S, "return calc_signature(kspec, (record.seq for record in records), accumulator=accumulator)",
      "return calc_signature(kspec, 'N'.join(str(record.seq) for record in records), accumulator=accumulator)", 'F1'),
    V('one CLI site uses extension-less None compression', 'B', 'src/gambit/cli/tree.py', "sigfiles = SequenceFile.from_paths(genome_files, 'fasta', 'auto')", "sigfiles = SequenceFile.from_paths(genome_files, 'fasta', None)", 'F4'),
    V('wrong gzip magic', 'B', _IO, "if magic == b'\\x1f\\x8b':", "if magic == b'\\x1f\\x8c':", 'F4'),
    V('no rewind after sniffing', 'B', _IO, "\t\tfile.seek(0)\n", "", 'F4'),
    V('newline translation disabled', 'B', _IO, "return TextIOWrapper(binary, **kwargs) if mode[1] == 't' else binary", "return TextIOWrapper(binary, newline='', **kwargs) if mode[1] == 't' else binary", 'F4'),
    V('first record skipped', 'B', _S, "(record.seq for record in records)", "(record.seq for i, record in enumerate(records) if i > 0)", 'F1'),
    V('fresh accumulator per record', 'B', _S, "\tfor seq in seqs:\n\t\taccumulate_kmers(accumulator, kmerspec, seq)\n", "\tfor seq in seqs:\n\t\taccumulator = default_accumulator(kmerspec.k)\n\t\taccumulate_kmers(accumulator, kmerspec, seq)\n", 'K9'),
    V('reverse strand window not mirrored', 'B', 'src/gambit/kmers.py', "\tstart = kmerspec.k\n", "\tstart = 0\n", 'K'),
    V('format hard-coded to genbank in parse', 'B', _SQ, "records = SeqIO.parse(fobj, self.format)", "records = SeqIO.parse(fobj, 'genbank')", 'F5'),
    V('gzip branch reads the raw stream', 'B', _IO, "binary = gzip.GzipFile(fileobj=file, mode='rb')", "binary = file", 'F4'),
    V('E: list of record sequences instead of a generator', 'E', _S, "(record.seq for record in records)", "[record.seq for record in records]"),
]
