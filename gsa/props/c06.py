"""C06 - a genome's signature depends only on its biological content (gambit-side clauses).

F1 per-record isolation: one generator element per record (or one accumulate_kmers call per record in a loop written out in
   calc_file_signature itself), no concatenation between records and the search; one shared accumulator
F2 strand symmetry = C01-K1..K4 (mirrored windows/slices) + C07-T3/T5/T6 (rc encoder = encoder o complement), re-evaluated
F3 case = C01-K6 + the 0xDF mask in both encoders (C07-T1/T3), re-evaluated
F4 content-based compression: every CLI SequenceFile is 'auto' (a site inside a newly extracted helper counts once per caller); auto -> _open_auto; gzip magic; seek(0); universal newlines
F5 parse(): text mode, handed to SeqIO.parse with the file's format; stream closed on error and on exhaustion

F1, F4 and F5 are decided by value flow over the paths of the anchor functions (`sym_paths` below): which value reaches which call
or return under which condition.  They do not depend on whether a value is bound to a local first, on `if` statement vs
conditional expression, on guard clauses with early return vs if/elif/else, on the order of mutually exclusive branches, or on
a literal being named by a module constant, on gzip.open(<file>, 'rb') vs gzip.GzipFile(fileobj=<file>), on map(attrgetter('seq'), records) vs
a generator expression, or on try/except-close-raise vs an ExitStack that holds closing(<stream>) until pop_all().  A construct the rules cannot evaluate (a dispatch table, a truthiness test, a
test on the whole mode string) is reported as undecided, naming it; a located value that is wrong is a violation.
"""
import ast
import copy
import re

from ..astutil import (always_exits, assigned_targets, u, atoms, path_atoms, stmts_in, calls_in, callee, callee_attr, get_arg, get_kw, is_none, is_const, names_in)
from ..report import Undecided
from ..inline import known_symbols
from . import c01, c07

SEQ_NAMES = {'seq', 'seqs', 'record', 'records', 'haystack', 'kmer'}


# ====================================================================== path-sensitive value flow
# The F rules (and the C13 rules, which import this) do not match statement shapes: they enumerate the acyclic paths of the
# anchor function and look at WHAT VALUE reaches a call / return UNDER WHICH CONDITION.  A local that only names a
# side-effect free expression is replaced by that expression (so `x = E; f(x)`, `f(E)`, an `if` statement and a conditional
# expression, a guard clause with early return and an if/elif chain all give the same paths); a local bound to the result of a
# call or to a freshly allocated object becomes a *symbol* (single assignment per path) whose definition is kept in
# `Path.defs`.  Loops are not unrolled: they are recorded as one event with the environment at loop entry.

PURE_CALLS = {'len', 'isinstance'}          # builtins that may be re-evaluated where the local is used
_ALLOC = (ast.List, ast.Dict, ast.Set, ast.ListComp, ast.SetComp, ast.DictComp, ast.GeneratorExp, ast.Lambda, ast.Await, ast.Yield,
          ast.YieldFrom, ast.NamedExpr, ast.Starred)
MAX_PATHS = 512


def _is_simple(e):
    """Side-effect free, allocation free expression: its value may be substituted for the local that names it."""
    for n in ast.walk(e):
        if isinstance(n, _ALLOC):
            return False
        if isinstance(n, ast.Call) and not (isinstance(n.func, ast.Name) and n.func.id in PURE_CALLS and not n.keywords):
            return False
    return True


def is_unknown(e):
    """Does the expression depend on a value the path enumeration could not follow (assigned in a loop, tuple target ...)?"""
    return e is not None and any(isinstance(n, ast.Name) and n.id.startswith('?') for n in ast.walk(e))


class _Sub(ast.NodeTransformer):
    def __init__(self, env):
        self.env = env
        self.shadow = []

    def visit_Name(self, node):
        if isinstance(node.ctx, ast.Load) and node.id in self.env and not any(node.id in s for s in self.shadow):
            return copy.deepcopy(self.env[node.id])
        return node

    def _scoped(self, node, bound):
        self.shadow.append(bound)
        self.generic_visit(node)
        self.shadow.pop()
        return node

    def _comp(self, node):
        return self._scoped(node, {n.id for g in node.generators for n in ast.walk(g.target) if isinstance(n, ast.Name)})

    visit_ListComp = visit_SetComp = visit_GeneratorExp = visit_DictComp = _comp

    def visit_Lambda(self, node):
        a = node.args
        return self._scoped(node, {x.arg for x in a.posonlyargs + a.args + a.kwonlyargs} | ({a.vararg.arg} if a.vararg else set()) | ({a.kwarg.arg} if a.kwarg else set()))


def subst(expr, env):
    """`expr` with every local replaced by the value it names in `env` (a copy; the original tree is never touched)."""
    return None if expr is None else _Sub(env).visit(copy.deepcopy(expr))


def _first_ifexp(e):
    stack = [e]
    while stack:
        n = stack.pop(0)
        if isinstance(n, ast.IfExp):
            return n
        if isinstance(n, (ast.Lambda, ast.ListComp, ast.SetComp, ast.DictComp, ast.GeneratorExp)):
            continue
        stack = list(ast.iter_child_nodes(n)) + stack
    return None


def split_ifexp(e, _depth=0):
    """[(expression without conditional expressions, [(test, polarity), ...])]: one entry per way the conditionals can go."""
    t = _first_ifexp(e) if e is not None else None
    if t is None or _depth > 4:
        return [(e, [])]
    out = []
    for pol in (True, False):
        memo = {}
        e2 = copy.deepcopy(e, memo)
        t2 = memo[id(t)]
        arm = t2.body if pol else t2.orelse
        if e2 is t2:
            e2 = arm
        else:
            for parent in ast.walk(e2):
                for f, v in ast.iter_fields(parent):
                    if v is t2:
                        setattr(parent, f, arm)
                    elif isinstance(v, list) and any(x is t2 for x in v):
                        setattr(parent, f, [arm if x is t2 else x for x in v])
        for (e3, cs) in split_ifexp(e2, _depth + 1):
            out.append((e3, [(t2.test, pol)] + cs))
    return out


_LIT = re.compile(r"""^(?:[rbuRBU]{0,2}['"]|-?\d|None$|True$|False$)""")


def _lit_value(text):
    """(True, value) when the operand text is a Python literal"""
    if _LIT.match(text):
        try:
            return True, ast.literal_eval(text)
        except Exception:
            pass
    return False, None


def atoms_feasible(at):
    """False only when the facts certainly contradict each other (x == 'a' and x == 'b'; x is None and x is not None; e and
    not e).  Literals are compared by value (1 == 1.0 == True), so a path is never dropped because of spelling."""
    eqs = {}
    for a in at:
        if a[0] == 'eq' and ('ne', a[1], a[2]) in at or a[0] == 'is' and ('isnot', a[1], a[2]) in at:
            return False
        if a[0] == 'true' and ('false', a[1]) in at or a[0] == 'in' and ('notin', a[1], a[2]) in at:
            return False
        if a[0] in ('ne', 'isnot') and a[1] == a[2]:
            return False
        if a[0] in ('eq', 'is'):
            (l1, v1), (l2, v2) = _lit_value(a[1]), _lit_value(a[2])
            if l1 and l2 and v1 != v2:
                return False
            for x, ly, vy in ((a[1], l2, v2), (a[2], l1, v1)):
                if ly:
                    eqs.setdefault(x, []).append(vy)
    for vals in eqs.values():
        if any(v != vals[0] for v in vals[1:]):
            return False
    return True


class Ev:
    """One event of a path. kind: def (sym := expr) | call (expr) | store (target, expr) | enter / exit (with statement, item
    expressions) | loop (statement not unrolled) | opaque (statement outside the vocabulary)."""
    __slots__ = ('kind', 'expr', 'stmt', 'sym', 'target', 'env', 'withs')

    def __init__(self, kind, expr=None, stmt=None, sym=None, target=None, env=None, withs=()):
        self.kind, self.expr, self.stmt, self.sym, self.target, self.env, self.withs = kind, expr, stmt, sym, target, env, withs

    def exprs(self):
        out = [x for x in ([self.target] + (self.expr if isinstance(self.expr, list) else [self.expr])) if x is not None]
        return out


class Path:
    def __init__(self, params):
        self.env = {}
        self.conds = []
        self.events = []
        self.defs = {}
        self.count = {p: 1 for p in params}
        self.withs = []
        self.end = None          # ('return', stmt, expr) | ('raise', stmt, None) | ('fall', None, None)

    def fork(self):
        p = Path(())
        p.env, p.conds, p.events, p.defs, p.count, p.withs, p.end = dict(self.env), list(self.conds), list(self.events), dict(self.defs), dict(self.count), list(self.withs), self.end
        return p

    def atoms(self):
        return path_atoms(self.conds)

    def feasible_with(self, *extra):
        return atoms_feasible(self.atoms() | set(extra))

    def new_sym(self, name, expr, stmt):
        k = self.count.get(name, 0)
        self.count[name] = k + 1
        sym = name if k == 0 else f'{name}~{k}'
        self.defs[sym] = expr
        self.events.append(Ev('def', expr, stmt, sym=sym, env=dict(self.env), withs=tuple(self.withs)))
        return ast.Name(id=sym, ctx=ast.Load())

    def resolve(self, e):
        """Follow symbols to the expression that defined them."""
        seen = 0
        while isinstance(e, ast.Name) and e.id in self.defs and seen < 10:
            e = self.defs[e.id]
            seen += 1
        return e

    def uses(self, sym):
        """How many times the symbol is read on this path (events, conditions, definitions of other symbols, the result)."""
        n = 0
        exprs = [x for ev in self.events for x in ev.exprs()] + [t for (t, _) in self.conds] + ([self.end[2]] if self.end and self.end[2] is not None else [])
        for e in exprs:
            n += sum(1 for x in ast.walk(e) if isinstance(x, ast.Name) and x.id == sym and isinstance(x.ctx, ast.Load))
        return n

    def event_of(self, stmt, kind=None):
        return next((ev for ev in self.events if ev.stmt is stmt and (kind is None or ev.kind == kind)), None)


def _unknown(name):
    return ast.Name(id=f'?{name}', ctx=ast.Load())


def sym_paths(fn, block=None, env=None):
    """All acyclic paths of a function (ast.FunctionDef), each with its conditions, events and end.
    With `block` (a statement list of fn, e.g. a loop body) and `env` (the environment on entry) the paths of one pass through
    that block are enumerated instead; such a path may also end in ('continue' | 'break', stmt, None)."""
    a = fn.args
    params = [x.arg for x in a.posonlyargs + a.args + a.kwonlyargs] + ([a.vararg.arg] if a.vararg else []) + ([a.kwarg.arg] if a.kwarg else [])
    done = []

    def bind(p, target, value, stmt):
        if isinstance(target, ast.Name):
            p.env[target.id] = value
        elif isinstance(target, (ast.Tuple, ast.List)):
            for n in ast.walk(target):
                if isinstance(n, ast.Name):
                    p.env[n.id] = _unknown(n.id)
        else:
            p.events.append(Ev('store', value, stmt, target=subst(target, p.env), withs=tuple(p.withs)))

    def value_of(p, names, v, stmt):
        """simple expressions are substituted; calls / allocations become a symbol"""
        if _is_simple(v):
            return v
        return p.new_sym(names[0] if names else '_', v, stmt)

    def finish(p, kind, stmt, expr):
        p.end = (kind, stmt, expr)
        done.append(p)
        if len(done) > MAX_PATHS:
            raise Undecided(f'{fn.name}: more than {MAX_PATHS} paths')

    def add_cond(p, test, pol):
        if isinstance(test, ast.Constant):          # a flag that was substituted: the branch is decided
            return bool(test.value) == pol
        if isinstance(test, ast.UnaryOp) and isinstance(test.op, ast.Not) and isinstance(test.operand, ast.Constant):
            return (not test.operand.value) == pol
        p.conds.append((test, pol))
        return atoms_feasible(p.atoms())

    def run(stmts, live):
        for s in stmts:
            if not live:
                return live
            nxt = []
            for p in live:
                nxt += step(s, p)
            live = nxt
        return live

    def step(s, p):
        if isinstance(s, (ast.Pass, ast.Import, ast.ImportFrom, ast.Global, ast.Nonlocal)) or isinstance(s, ast.Expr) and isinstance(s.value, ast.Constant):
            return [p]
        if isinstance(s, (ast.Assign, ast.AnnAssign)):
            if s.value is None:
                return [p]
            targets = s.targets if isinstance(s, ast.Assign) else [s.target]
            names = [t.id for t in targets if isinstance(t, ast.Name)]
            out = []
            for v, cs in split_ifexp(subst(s.value, p.env)):
                q = p.fork() if cs else p
                if all(add_cond(q, t, pol) for (t, pol) in cs):
                    val = value_of(q, names, v, s)
                    for t in targets:
                        bind(q, t, val, s)
                    out.append(q)
            return out
        if isinstance(s, ast.AugAssign):
            if isinstance(s.target, ast.Name):
                cur = p.env.get(s.target.id, ast.Name(id=s.target.id, ctx=ast.Load()))
                v = ast.BinOp(left=copy.deepcopy(cur), op=s.op, right=subst(s.value, p.env))
                p.env[s.target.id] = value_of(p, [s.target.id], v, s)
            else:
                p.events.append(Ev('store', subst(s.value, p.env), s, target=subst(s.target, p.env), withs=tuple(p.withs)))
            return [p]
        if isinstance(s, ast.Expr):
            p.events.append(Ev('call', subst(s.value, p.env), s, withs=tuple(p.withs)))
            return [p]
        if isinstance(s, ast.If):
            test = subst(s.test, p.env)
            out = []
            for pol, body in ((True, s.body), (False, s.orelse)):
                q = p.fork()
                if add_cond(q, test, pol):
                    out += run(body, [q])
            return out
        if isinstance(s, ast.Return):
            for v, cs in split_ifexp(subst(s.value, p.env)):
                q = p.fork()
                if all(add_cond(q, t, pol) for (t, pol) in cs):
                    finish(q, 'return', s, v)
            return []
        if isinstance(s, ast.Raise):
            finish(p, 'raise', s, None)
            return []
        if isinstance(s, (ast.Break, ast.Continue)) and block is not None:
            finish(p, 'break' if isinstance(s, ast.Break) else 'continue', s, None)
            return []
        if isinstance(s, ast.Assert):
            if isinstance(s.test, ast.Constant) and not s.test.value:
                finish(p, 'raise', s, None)
                return []
            return [p] if add_cond(p, subst(s.test, p.env), True) else []
        if isinstance(s, ast.Try):
            # the protected block runs in line; handlers only run after an exception and are looked at by the rules that care
            p.events.append(Ev('try', None, s, withs=tuple(p.withs)))
            live = run(s.orelse, run(s.body, [p]))
            # a handler that falls through rejoins the normal flow: what it binds is unknown from here on
            rebound = {n.id for h in s.handlers if not always_exits(h.body) for x in stmts_in(h.body) for t in assigned_targets(x) for n in ast.walk(t)
                       if isinstance(n, ast.Name) and isinstance(n.ctx, ast.Store)}
            for q in live:
                for name in rebound:
                    q.env[name] = _unknown(name)
            return run(s.finalbody, live)
        if isinstance(s, (ast.With, ast.AsyncWith)):
            out = []
            for tup, cs in split_ifexp(ast.Tuple(elts=[subst(i.context_expr, p.env) for i in s.items], ctx=ast.Load())):
                q = p.fork() if cs else p
                if not all(add_cond(q, t, pol) for (t, pol) in cs):
                    continue
                items = list(tup.elts)
                q.events.append(Ev('enter', items, s, env=dict(q.env), withs=tuple(q.withs)))
                for i, ce in zip(s.items, items):
                    if isinstance(i.optional_vars, ast.Name):
                        entered = ast.Call(func=ast.Name(id='__enter__', ctx=ast.Load()), args=[ce], keywords=[])
                        q.env[i.optional_vars.id] = q.new_sym(i.optional_vars.id, entered, s)
                    elif i.optional_vars is not None:
                        bind(q, i.optional_vars, _unknown('with'), s)
                q.withs.append(s)
                for r in run(s.body, [q]):
                    r.withs.pop()
                    r.events.append(Ev('exit', None, s, withs=tuple(r.withs)))
                    out.append(r)
            return out
        if isinstance(s, (ast.For, ast.AsyncFor, ast.While)):
            p.events.append(Ev('loop', subst(s.iter, p.env) if not isinstance(s, ast.While) else subst(s.test, p.env), s, env=dict(p.env), withs=tuple(p.withs)))
            for x in [s] + list(stmts_in(s.body)) + list(stmts_in(s.orelse)):
                for t in assigned_targets(x):
                    for n in ast.walk(t):
                        if isinstance(n, ast.Name) and isinstance(n.ctx, ast.Store):      # rebound (a mutated object keeps its identity)
                            p.env[n.id] = _unknown(n.id)
            return [p]
        if isinstance(s, (ast.FunctionDef, ast.AsyncFunctionDef, ast.ClassDef)):
            p.env[s.name] = _unknown(s.name)
            return [p]
        # a statement outside the vocabulary (match, del, ...): whatever it binds is unknown afterwards
        p.events.append(Ev('opaque', None, s, withs=tuple(p.withs)))
        for n in ast.walk(s):
            if isinstance(n, ast.Name) and isinstance(n.ctx, (ast.Store, ast.Del)):
                p.env[n.id] = _unknown(n.id)
        return [p]

    start = Path(params)
    if env is not None:
        start.env = dict(env)
        for v in env.values():          # symbols of the enclosing path stay taken
            for n in ast.walk(v):
                if isinstance(n, ast.Name):
                    base = n.id.split('~')[0]
                    start.count[base] = max(start.count.get(base, 0), int(n.id.split('~')[1]) + 1 if '~' in n.id else 1)
    for p in run(fn.body if block is None else block, [start]):
        finish(p, 'fall', None, None)
    return done


def expand_foreign_helpers(m, fi):
    """N8 expands helpers of the SAME module.  A helper that is not part of the reference tree but lives in ANOTHER module (a
    loop moved into a utility module and imported back) is followed here: its body is expanded at the call with the arguments
    bound (same machinery as N8, gsa.inline.Inliner), free names of the helper keep the meaning they have in its own module.
    Returns a FuncInfo for the expanded copy (the model is not modified), or fi itself when there is nothing to expand."""
    from ..inline import Inliner
    from ..model import FuncInfo
    from ..normalize import canonicalise
    if fi.cls is not None or fi.module.kind != 'py':
        return fi
    known = known_symbols()
    host = copy.deepcopy(fi.node)
    helpers, extra = {}, {}
    hostns = set(fi.module.imports) | set(fi.module.functions) | set(fi.module.classes) | set(fi.module.assigns)
    for c in calls_in(host):
        q = m.resolve_call(fi, c)
        h = m.functions.get(q) if q else None
        if h is None or q in known or h.module is fi.module or h.cls is not None or h.module.kind != 'py' or h.decorators:
            continue
        local = f'_x_{h.name}'
        if local not in helpers:
            hd = copy.deepcopy(h.node)
            hd.name = local
            a = hd.args
            bound = {x.arg for x in a.posonlyargs + a.args + a.kwonlyargs} | {n.id for n in ast.walk(hd) if isinstance(n, ast.Name) and isinstance(n.ctx, ast.Store)}
            clash = False
            for n in ast.walk(hd):
                if isinstance(n, ast.Name) and isinstance(n.ctx, ast.Load) and n.id not in bound:
                    r = m.resolve(h.module, n)
                    if r is None:
                        continue                      # builtin
                    if n.id in hostns and m.resolve(fi.module, n) != r or extra.get(n.id, r) != r:
                        clash = True
                    extra[n.id] = r
            if clash:
                continue
            helpers[local] = hd
        c.func = ast.copy_location(ast.Name(id=local, ctx=ast.Load()), c.func)
    if not helpers:
        return fi
    tree = ast.Module(body=list(helpers.values()) + [host], type_ignores=[])
    ast.fix_missing_locations(tree)
    inl = Inliner(tree, fi.module.name, known | {fi.qualname})
    inl.run()
    if not inl.log:
        return fi
    mod = copy.copy(fi.module)
    mod.imports = {**{k: v for k, v in extra.items() if k not in hostns}, **fi.module.imports}
    node = canonicalise(ast.Module(body=[host], type_ignores=[])).body[0]
    return FuncInfo(fi.qualname, node, mod, None)


def expand_state_objects(m, fi):
    """Scalar replacement of a small state object.  `t = C(a)` where C is a class that is not part of the reference tree (plain
    class: no bases, methods without decorators other than @property, attributes only reached through self) and `t` is used in
    this function only as `t.method(...)`, `t.attr`, `t.prop`: the constructor and method bodies are expanded at the calls
    (self := t, gsa.inline.Inliner) and every `t.attr` becomes the local `t__attr`, so the rules see the lists / dicts the
    object wraps and what the methods do with them by ordinary value flow.
    Returns (FuncInfo, notes): notes name the objects that could NOT be replaced (the caller reports them if it gets stuck)."""
    from ..inline import Inliner
    from ..model import FuncInfo
    from ..normalize import canonicalise
    notes = []
    if fi.module.kind != 'py':
        return fi, notes
    known = known_symbols()
    host = copy.deepcopy(fi.node)
    pm = {c: p for p in ast.walk(host) for c in ast.iter_child_nodes(p)}
    cands = {}
    for st in stmts_in(host.body):
        if isinstance(st, ast.Assign) and len(st.targets) == 1 and isinstance(st.targets[0], ast.Name) and isinstance(st.value, ast.Call):
            q = m.resolve_call(fi, st.value)
            ci = m.classes.get(q) if q else None
            if ci is not None and f'{q}.__init__' not in known and not any(k.startswith(q + '.') for k in known):
                cands.setdefault(st.targets[0].id, []).append((st, ci))
    if not cands:
        return fi, notes
    helpers, done = {}, []
    for t, defs in cands.items():
        st, ci = defs[0]
        cname = ci.name
        why = None
        body = [x for x in ci.node.body if not (isinstance(x, ast.Expr) and isinstance(x.value, ast.Constant))]
        meths = {x.name: x for x in body if isinstance(x, ast.FunctionDef)}
        props = {n for n, x in meths.items() if [u(d) for d in x.decorator_list] == ['property']}
        if len(defs) != 1 or sum(1 for x in ast.walk(host) if isinstance(x, ast.Name) and x.id == t and isinstance(x.ctx, ast.Store)) != 1:
            why = f'{t} is bound more than once'
        elif ci.module is not fi.module:
            why = f'class {cname} is defined in another module'
        elif ci.node.bases or ci.node.keywords or ci.node.decorator_list:
            why = f'class {cname} has bases / decorators'
        elif any(not isinstance(x, ast.FunctionDef) and not (isinstance(x, ast.AnnAssign) and x.value is None) for x in body):
            why = f'class {cname} has class-level state'
        elif any(x.decorator_list and n not in props for n, x in meths.items()) or any(x.args.vararg or x.args.kwarg or not x.args.args for x in meths.values()):
            why = f'class {cname} has decorated / variadic methods'
        elif '__init__' not in meths or any(n.startswith('__') and n != '__init__' for n in meths):
            why = f'class {cname} defines special methods'
        else:
            for mt in meths.values():
                me = mt.args.args[0].arg
                for n in ast.walk(mt):
                    if isinstance(n, ast.Name) and n.id == me and not (isinstance(pm_get(mt, n), ast.Attribute)):
                        why = f'{cname}.{mt.name} lets self escape'
                    if isinstance(n, ast.Attribute) and isinstance(n.value, ast.Name) and n.value.id == me and n.attr in meths:
                        why = f'{cname}.{mt.name} uses another method / property of the object ({n.attr})'
        uses = [x for x in ast.walk(host) if isinstance(x, ast.Name) and x.id == t and isinstance(x.ctx, ast.Load)]
        if why is None:
            for x in uses:
                par = pm.get(x)
                if not (isinstance(par, ast.Attribute) and par.value is x):
                    why = f'{t} (a {cname}) is used as a whole: {u(pm.get(x))[:60]}'
                    break
                if par.attr in meths and par.attr not in props and not (isinstance(pm.get(par), ast.Call) and pm.get(par).func is par):
                    why = f'bound method {t}.{par.attr} is used as a value'
                    break
        if why is not None:
            notes.append(why)
            continue
        # rewrite the uses into calls of module-level copies of the methods
        for n, mt in meths.items():
            hd = copy.deepcopy(mt)
            hd.name, hd.decorator_list, hd.returns = f'_s_{cname}_{n}', [], None
            helpers[hd.name] = hd
        for x in uses:
            par = pm[x]
            if par.attr in props:
                new = ast.Call(func=ast.Name(id=f'_s_{cname}_{par.attr}', ctx=ast.Load()), args=[ast.Name(id=t, ctx=ast.Load())], keywords=[])
                _replace_child(pm[par], par, ast.copy_location(new, par))
            elif par.attr in meths:
                call = pm[par]
                call.func = ast.copy_location(ast.Name(id=f'_s_{cname}_{par.attr}', ctx=ast.Load()), par)
                call.args = [ast.Name(id=t, ctx=ast.Load())] + call.args
        init = st.value
        init.func = ast.copy_location(ast.Name(id=f'_s_{cname}___init__', ctx=ast.Load()), init.func)
        init.args = [ast.Name(id=t, ctx=ast.Load())] + init.args
        _replace_child(pm[st], st, ast.copy_location(ast.Expr(value=init), st))
        done.append((t, cname))
    if not done:
        return fi, notes
    wrap = host
    if fi.cls is not None:
        wrap = ast.ClassDef(name=fi.cls.name, bases=[], keywords=[], body=[host], decorator_list=[])
    tree = ast.Module(body=list(helpers.values()) + [wrap], type_ignores=[])
    ast.fix_missing_locations(tree)
    inl = Inliner(tree, fi.module.name, known | {fi.qualname})
    inl.run()
    left = [c for c in ast.walk(host) if isinstance(c, ast.Call) and isinstance(c.func, ast.Name) and c.func.id in helpers]
    if left:
        return fi, notes + [f'method {left[0].func.id[3:]} of the state object could not be expanded in place']
    for t, cname in done:
        for n in ast.walk(host):
            if isinstance(n, ast.Attribute) and isinstance(n.value, ast.Name) and n.value.id == t:
                pass
        host = _AttrToLocal(t).visit(host)
        if any(isinstance(n, ast.Name) and n.id == t for n in ast.walk(host)):
            return fi, notes + [f'{t} (a {cname}) is still used as a whole after expansion']
    ast.fix_missing_locations(host)
    node = canonicalise(ast.Module(body=[host], type_ignores=[])).body[0]
    return FuncInfo(fi.qualname, node, fi.module, fi.cls), notes


def pm_get(root, node):
    for p in ast.walk(root):
        for c in ast.iter_child_nodes(p):
            if c is node:
                return p
    return None


def _replace_child(parent, old, new):
    for f, v in ast.iter_fields(parent):
        if v is old:
            setattr(parent, f, new)
        elif isinstance(v, list):
            for i, x in enumerate(v):
                if x is old:
                    v[i] = new


class _AttrToLocal(ast.NodeTransformer):
    def __init__(self, t):
        self.t = t

    def visit_Attribute(self, node):
        if isinstance(node.value, ast.Name) and node.value.id == self.t:
            return ast.copy_location(ast.Name(id=f'{self.t}__{node.attr}', ctx=node.ctx), node)
        self.generic_visit(node)
        return node


def _structure_returns(stmts):
    """Generator body with bare `return`s made structured: `if c: A; return` followed by R  ->  `if c: A else: R`.
    None when a return sits anywhere else."""
    out = []
    for i, s in enumerate(stmts):
        if isinstance(s, ast.Return):
            return out if s.value is None and i == len(stmts) - 1 else None
        if isinstance(s, ast.If) and any(isinstance(x, ast.Return) for x in ast.walk(s)):
            body, orelse = _structure_returns(s.body), _structure_returns(s.orelse) if s.orelse else []
            if body is None or orelse is None:
                return None
            b_ret = bool(s.body) and isinstance(s.body[-1], ast.Return)
            e_ret = bool(s.orelse) and isinstance(s.orelse[-1], ast.Return)
            rest = _structure_returns(stmts[i + 1:])
            if rest is None:
                return None
            if b_ret and not e_ret:
                orelse = orelse + rest
            elif e_ret and not b_ret:
                body = body + rest
            elif b_ret and e_ret:
                pass
            else:
                return None
            out.append(ast.copy_location(ast.If(test=s.test, body=body or [ast.Pass()], orelse=orelse), s))
            return out
        if any(isinstance(x, ast.Return) for x in ast.walk(s) if not isinstance(s, (ast.FunctionDef, ast.ClassDef))):
            return None
        out.append(s)
    return out


def expand_generator_loops(m, fi):
    """`for X in g(args): B` where g is a generator that is not part of the reference tree and has SEVERAL yield sites (one loop
    for the sequential case, one for the concurrent case ...; N8 only handles a single site): every `yield e` of g becomes
    `X = e; B` in place, g's early `return` becomes if/else.  Sound because B neither breaks nor continues and the consumer
    runs exactly once per yielded value, in yield order.  Returns (FuncInfo, notes)."""
    from ..inline import Inliner, NotInlinable
    from ..model import FuncInfo
    from ..normalize import canonicalise
    notes = []
    if fi.cls is not None or fi.module.kind != 'py':
        return fi, notes
    known = known_symbols()
    host = copy.deepcopy(fi.node)
    helpers, extra, done = {}, {}, 0
    hostns = set(fi.module.imports) | set(fi.module.functions) | set(fi.module.classes) | set(fi.module.assigns)
    pm = {c: p for p in ast.walk(host) for c in ast.iter_child_nodes(p)}
    todo = []
    for loop in [x for x in ast.walk(host) if isinstance(x, ast.For) and isinstance(x.iter, ast.Call)]:
        q = m.resolve_call(fi, loop.iter)
        h = m.functions.get(q) if q else None
        if h is None or q in known or h.cls is not None or h.module.kind != 'py' or h.decorators:
            continue
        if not any(isinstance(n, ast.Yield) for n in ast.walk(h.node)):
            continue
        why = None
        if any(isinstance(n, ast.YieldFrom) for n in ast.walk(h.node)) or any(isinstance(n, ast.Yield) and not isinstance(pm_get(h.node, n), ast.Expr) for n in ast.walk(h.node)):
            why = f'generator {h.name} uses yield from / the value of a yield expression'
        elif loop.orelse or any(isinstance(n, (ast.Break, ast.Continue, ast.Return, ast.Yield, ast.YieldFrom)) for b in loop.body for n in ast.walk(b)):
            why = f'the loop over generator {h.name} breaks / continues / returns'
        elif h.module is not fi.module:
            bound = {x.arg for x in h.node.args.posonlyargs + h.node.args.args + h.node.args.kwonlyargs} | {n.id for n in ast.walk(h.node) if isinstance(n, ast.Name) and isinstance(n.ctx, ast.Store)}
            for n in ast.walk(h.node):
                if isinstance(n, ast.Name) and isinstance(n.ctx, ast.Load) and n.id not in bound:
                    r = m.resolve(h.module, n)
                    if r is not None and (n.id in hostns and m.resolve(fi.module, n) != r or extra.get(n.id, r) != r):
                        why = f'generator {h.name} of another module uses the name {n.id} with another meaning'
                    elif r is not None:
                        extra[n.id] = r
        if why is not None:
            notes.append(why)
            continue
        todo.append((loop, h))
    if not todo:
        return fi, notes
    tree = ast.Module(body=[copy.deepcopy(h.node) for _, h in todo] + [host], type_ignores=[])
    inl = Inliner(tree, fi.module.name, known | {fi.qualname})
    inl._host_locals = set()
    inl._host_load_counts = {}
    host_names = {n.id for n in ast.walk(host) if isinstance(n, ast.Name)} | {a.arg for a in host.args.posonlyargs + host.args.args + host.args.kwonlyargs}
    for (loop, h), hd in zip(todo, tree.body):
        helper = next((x for x in inl.helpers.values() if x.node is hd), None)
        if helper is None:
            notes.append(f'generator {h.name} cannot be expanded (decorated / variadic)')
            continue
        try:
            pre, body = inl.instantiate(helper, loop.iter, None, host_names)
        except NotInlinable as e:
            notes.append(f'generator {h.name} cannot be expanded ({e})')
            continue
        body = _structure_returns(body)
        if body is None:
            notes.append(f'generator {h.name} returns from inside a loop / try')
            continue

        class Y(ast.NodeTransformer):
            def visit_Expr(self, node):
                if isinstance(node.value, ast.Yield):
                    v = node.value.value if node.value.value is not None else ast.Constant(value=None)
                    return [ast.copy_location(ast.Assign(targets=[copy.deepcopy(loop.target)], value=v), node)] + copy.deepcopy(loop.body)
                return node

            def visit_FunctionDef(self, node):
                return node

            visit_Lambda = visit_ClassDef = visit_FunctionDef
        new = []
        for s in pre + body:
            r = Y().visit(s)
            new += r if isinstance(r, list) else [r]
        _replace_child_list(pm[loop], loop, new)
        done += 1
    if not done:
        return fi, notes
    ast.fix_missing_locations(host)
    mod = fi.module
    if extra:
        mod = copy.copy(fi.module)
        mod.imports = {**{k: v for k, v in extra.items() if k not in hostns}, **fi.module.imports}
    node = canonicalise(ast.Module(body=[host], type_ignores=[])).body[0]
    return FuncInfo(fi.qualname, node, mod, None), notes


def _replace_child_list(parent, old, new):
    for f, v in ast.iter_fields(parent):
        if isinstance(v, list) and any(x is old for x in v):
            i = next(k for k, x in enumerate(v) if x is old)
            v[i:i + 1] = new


def returning(paths):
    return [p for p in paths if p.end[0] == 'return']


def _direct_accumulation(rep, m, fi, p, v, kp, sf):
    """F1 for a path of calc_file_signature that does the accumulation itself: `for record in records: accumulate_kmers(A, kspec,
    record.seq)` inside the parse context, result A.signature().  Same semantic conditions as the delegated form: one pass over
    the records of this file, every record searched on its own, nothing filtered or skipped, one accumulator (the caller's when
    given, else one fresh default accumulator) that receives every record and whose signature is the result."""
    QA, QD = 'gambit.sigs.calc.accumulate_kmers', 'gambit.sigs.calc.default_accumulator'
    site = fi.site(p.end[1])
    if not isinstance(v.func.value, ast.Name):
        rep.add('F1', site, 'the file is searched with the given parameters and the optional caller accumulator', False, expected='the signature() of the accumulator that received the records',
                found=u(v), stmt='calc_signature operands')
        return
    acc = v.func.value.id                                  # the accumulator as a value: parameter or symbol
    if acc.startswith('?'):
        inloop = [e.stmt for e in p.events if e.kind == 'loop' and any(isinstance(n, ast.Name) and isinstance(n.ctx, ast.Store) and n.id == acc[1:] for n in ast.walk(e.stmt))]
        rep.require(inloop, f'calc_file_signature: cannot follow the accumulator whose signature() is returned ({u(v)})')
        rep.add('F1', fi.site(inloop[0]), 'the file is searched with the given parameters and the optional caller accumulator', False, expected='one accumulator for all records of the file',
                found=f'{acc[1:]} is rebound inside the loop', stmt='calc_signature operands')
        return
    recs, w = None, None
    for d in [e for e in p.events if e.kind == 'def' and isinstance(e.stmt, ast.With)]:
        if u(d.expr) == f'__enter__({sf}.parse())':
            recs, w = d.sym, d.stmt
    loops = [e for e in p.events if e.kind == 'loop']
    feeding = [e for e in loops if isinstance(e.stmt, ast.For) and recs is not None and u(e.expr) == recs]
    other = [e for e in loops if e not in feeding]
    rep.require(not other, f'calc_file_signature: a loop other than the pass over the records: {u(other[0].stmt)[:80] if other else ""}')
    rep.add('F1', fi.site(w if w is not None else p.end[1]), 'records come from the lazy parser of this file, and the search consumes them inside the context that closes the stream',
            recs is not None and len(feeding) == 1 and any(w is x for x in feeding[0].withs), expected=f'with {sf}.parse() as records: for record in records: ...',
            found=[u(e.stmt).split('\n')[0] for e in loops] or 'no loop over the records', stmt='parse context')
    if len(feeding) != 1:
        return
    lp = feeding[0]
    loop = lp.stmt
    rep.require(isinstance(loop.target, ast.Name), f'calc_file_signature: structured loop target {u(loop.target)}')
    var = loop.target.id
    okb, found = not loop.orelse, []
    body = sym_paths(fi.node, block=loop.body, env=lp.env)
    for b in body:
        calls = [e for e in b.events if e.kind == 'call' and isinstance(e.expr, ast.Call) and m.resolve_call(fi, e.expr) == QA]
        rest = [e for e in b.events if e not in calls and e.kind != 'def']
        rep.require(not rest, f'calc_file_signature: the loop over the records does something outside the vocabulary: {u(rest[0].stmt)[:80] if rest else ""}')
        # every record reaches the accumulator: no filter, no early exit, exactly one search per record
        good = b.end[0] == 'fall' and not b.conds and len(calls) == 1
        if good:
            c = calls[0].expr
            a0, a1, a2 = get_arg(c, 0, 'accumulator'), get_arg(c, 1, 'kmerspec'), get_arg(c, 2, 'seq')
            rep.require(not (isinstance(a2, ast.Name) and a2.id in b.defs), f'calc_file_signature: the sequence handed to accumulate_kmers is computed by a construct outside the vocabulary: {u(b.defs.get(a2.id)) if isinstance(a2, ast.Name) else ""}')
            rep.require(u(a2) == f'{var}.seq' or a2 is None or not any(isinstance(x, ast.Call) for x in ast.walk(a2)),
                        f'calc_file_signature: the sequence handed to accumulate_kmers is transformed by a construct outside the vocabulary: {u(a2)}')
            good = u(a0) == acc and u(a1) == kp and u(a2) == f'{var}.seq' and len(c.args) + len(c.keywords) == 3
        okb = okb and good
        found.append(f"{[u(e.expr) for e in calls]} {'under ' + str(sorted(b.atoms())) if b.conds else ''} -> {b.end[0]}")
    rep.add('F1', fi.site(loop), 'each record is handed over as its own sequence: one element per record, nothing filtered or merged', okb and bool(body),
            expected=f'for record in {recs}: accumulate_kmers({acc}, {kp}, record.seq)', found=found, stmt='per-record generator')
    rep.add('F1', fi.site(loop), 'nothing else draws from the record stream (no record is consumed before the search sees it)', p.uses(recs) == 1,
            expected='records read only by the loop that searches them', found={recs: p.uses(recs)}, stmt='single consumer')
    # which accumulator: the caller's when given, otherwise one fresh default accumulator - the same object before, in and after the loop
    at = p.atoms()
    ap = 'accumulator'
    if acc in p.defs:
        d = p.defs[acc]
        fresh = isinstance(d, ast.Call) and m.resolve_call(fi, d) == QD and [u(a) for a in d.args] == [f'{kp}.k'] and not d.keywords
        rep.require(fresh or (isinstance(d, ast.Call) and isinstance(d.func, (ast.Name, ast.Attribute))), f'calc_file_signature: the accumulator is built by a construct outside the vocabulary: {u(d)[:80]}')
        oka = fresh and not p.feasible_with(('isnot', 'None', ap)) and next(e for e in p.events if e.kind == 'def' and e.sym == acc) in p.events[:p.events.index(lp)]
        want = f'default_accumulator({kp}.k) only when {ap} is None'
    else:
        oka = acc == ap and not p.feasible_with(('is', 'None', ap))
        want = f'the caller\'s {ap} when it is not None'
    touched = [u(e.stmt)[:60] for e in p.events if e is not lp and e.kind in ('call', 'store') and any(isinstance(x, ast.Name) and x.id == acc for y in e.exprs() for x in ast.walk(y))]
    rep.require(not touched, f'calc_file_signature: the accumulator is also used outside the loop by a construct that is not interpreted: {touched}')
    rep.add('F1', site, 'the file is searched with the given parameters and the optional caller accumulator', oka,
            expected=f'{want}; filled only by the loop; result = its signature()', found=f'{acc} := {u(p.defs.get(acc)) if acc in p.defs else "parameter"} under {sorted(at)}' + (f'; also {touched}' if touched else ''),
            stmt='calc_signature operands')


def _map_as_generator(m, fi, g):
    """map(F, it) with F = operator.attrgetter('a') or lambda x: x.a is the lazy elementwise (x.a for x in it): rewritten to
    that generator expression so that the per-record conditions are evaluated on one form.  Anything else is returned as is."""
    if not (isinstance(g, ast.Call) and isinstance(g.func, ast.Name) and g.func.id == 'map' and len(g.args) == 2 and not g.keywords and 'map' not in fi.module.imports
            and 'map' not in fi.module.functions):
        return g
    f, it = g.args
    attr = None
    if isinstance(f, ast.Call) and m.resolve_call(fi, f) == 'operator.attrgetter' and len(f.args) == 1 and not f.keywords and isinstance(f.args[0], ast.Constant) \
            and isinstance(f.args[0].value, str) and f.args[0].value.isidentifier():
        attr = f.args[0].value
    elif isinstance(f, ast.Lambda) and len(f.args.args) == 1 and not (f.args.posonlyargs or f.args.kwonlyargs or f.args.vararg or f.args.kwarg or f.args.defaults) \
            and isinstance(f.body, ast.Attribute) and isinstance(f.body.value, ast.Name) and f.body.value.id == f.args.args[0].arg:
        attr = f.body.attr
    if attr is None:
        return g
    var = ast.Name(id='record', ctx=ast.Load())
    return ast.GeneratorExp(elt=ast.Attribute(value=var, attr=attr, ctx=ast.Load()),
                            generators=[ast.comprehension(target=ast.Name(id='record', ctx=ast.Store()), iter=it, ifs=[], is_async=0)])


def check_isolation(ctx):
    rep, m = ctx.rep, ctx.model
    fi = expand_foreign_helpers(m, m.func('gambit.sigs.calc.calc_file_signature'))
    rep.functions.add(fi.qualname)
    kp, sf = fi.params()[:2]
    QS = 'gambit.sigs.calc.calc_signature'
    rets = returning(sym_paths(fi.node))
    hits, direct = [], []
    for p in rets:
        v = p.resolve(p.end[2])
        if isinstance(v, ast.Call) and m.resolve_call(fi, v) == QS:
            # the search runs where the call is evaluated: at the return itself, or where the local holding its value was bound
            d = next((ev for ev in p.events if ev.kind == 'def' and isinstance(p.end[2], ast.Name) and ev.sym == p.end[2].id), None)
            hits.append((p, v, tuple(p.withs) if d is None else d.withs))
        elif isinstance(v, ast.Call) and isinstance(v.func, ast.Attribute) and v.func.attr == 'signature' and not v.args and not v.keywords:
            direct.append((p, v))         # the accumulation is written out here instead of being delegated to calc_signature
        else:
            post = [x.id for x in ast.walk(v) if isinstance(x, ast.Name) and isinstance(p.defs.get(x.id), ast.Call) and m.resolve_call(fi, p.defs[x.id]) == QS] if v is not None else []
            rep.require(not post, f'calc_file_signature: the result of calc_signature is post-processed before it is returned: {u(v)}')
    rep.require(hits or direct, 'calc_file_signature: no path returns the result of a calc_signature call or the signature() of an accumulator filled here')
    for p, v in direct:
        _direct_accumulation(rep, m, fi, p, v, kp, sf)
    unknown_forms = []
    for p, c, withs in hits:
        g0 = c.args[1] if len(c.args) > 1 else get_kw(c, 'seqs')
        g = p.resolve(g0)
        if isinstance(g, ast.ListComp) and isinstance(g0, ast.Name):
            # an eagerly built list reads the records where it is built; the search may then run anywhere
            withs = next(ev.withs for ev in p.events if ev.kind == 'def' and ev.sym == g0.id)
        g = _map_as_generator(m, fi, g)
        if not isinstance(g, (ast.GeneratorExp, ast.ListComp)):
            unknown_forms.append(u(g))
            continue
        # the parse context that is open while the (lazy) records are consumed by the search
        recs, w = None, None
        for d in [e for e in p.events if e.kind == 'def' and isinstance(e.stmt, ast.With)]:
            if u(d.expr) == f'__enter__({sf}.parse())':
                recs, w = d.sym, d.stmt
        found_w = [u(x) for cand in withs for x in p.event_of(cand, 'enter').expr]
        rep.add('F1', fi.site(w if w is not None else c), 'records come from the lazy parser of this file, and the search consumes them inside the context that closes the stream', recs is not None and any(w is x for x in withs),
                expected=f'with {sf}.parse() as records: ... calc_signature(...)', found=found_w or 'calc_signature is evaluated outside any `with`', stmt='parse context')
        okg = isinstance(g, (ast.GeneratorExp, ast.ListComp)) and len(g.generators) == 1 and not g.generators[0].ifs and not g.generators[0].is_async and isinstance(g.generators[0].target, ast.Name) \
            and recs is not None and u(g.generators[0].iter) == recs and u(g.elt) == f'{g.generators[0].target.id}.seq'
        # the record stream and a lazily evaluated generator are single use: nothing else may draw from them
        once = recs is None or p.uses(recs) == 1
        if okg and isinstance(g0, ast.Name) and isinstance(g, ast.GeneratorExp):
            once = once and p.uses(g0.id) == 1
        rep.add('F1', fi.site(c), 'each record is handed over as its own sequence: one element per record, nothing filtered or merged', okg, expected=f'(record.seq for record in {recs or "records"})', found=u(g), stmt='per-record generator')
        rep.add('F1', fi.site(c), 'nothing else draws from the record stream (no record is consumed before the search sees it)', once, expected='records read only by the per-record generator, generator consumed only by calc_signature',
                found={x: p.uses(x) for x in ([recs] if recs else []) + ([g0.id] if isinstance(g0, ast.Name) else [])}, stmt='single consumer')
        rep.add('F1', fi.site(c), 'the file is searched with the given parameters and the optional caller accumulator', c.args and u(c.args[0]) == kp and u(get_kw(c, 'accumulator')) == 'accumulator', expected=f'calc_signature({kp}, ..., accumulator=accumulator)',
                found=u(c)[:80], stmt='calc_signature operands')
    okret = {id(p.end[1]) for p, _, _ in hits} | {id(p.end[1]) for p, _ in direct}
    bad = {id(p.end[1]) for p in rets} - okret
    rep.account_returns('F1', fi, [p.end[1] for p in rets if id(p.end[1]) in okret and id(p.end[1]) not in bad], 'file signature')
    # no concatenation anywhere between the records and the search
    n = 0
    for q in ('gambit.sigs.calc.calc_file_signature', 'gambit.sigs.calc.calc_signature', 'gambit.sigs.calc.accumulate_kmers', 'gambit.kmers.find_kmers'):
        f = m.func(q)
        rep.functions.add(q)
        bad = []
        for node in ast.walk(f.node):
            if isinstance(node, ast.Call) and callee_attr(node) in ('join', 'chain', 'from_iterable', 'concatenate', 'sum'):
                if names_in(node) & SEQ_NAMES:
                    bad.append(u(node)[:60])
            if isinstance(node, ast.BinOp) and isinstance(node.op, (ast.Add, ast.Mult)) and (names_in(node.left) | names_in(node.right)) & SEQ_NAMES \
                    and not ({'loc', 'start', 'kmerspec'} & (names_in(node.left) | names_in(node.right))):
                bad.append(u(node)[:60])
            if isinstance(node, ast.AugAssign) and isinstance(node.op, ast.Add) and names_in(node.target) & SEQ_NAMES:
                bad.append(u(node)[:60])
        n += 1
        rep.add('F1', f.site(), f'{f.name}: sequences are never concatenated or joined (no k-mer can span two contigs)', not bad, expected='no join / + / sum on sequences', found=bad, stmt=f'no concat {f.name}', construct=q)
    rep.floor('F1', 'functions scanned for concatenation', n, 4)
    rep.require(not unknown_forms, f'calc_file_signature: the records are handed to calc_signature through a construct outside the vocabulary (a generator expression or list comprehension over the records is interpreted): {unknown_forms}')
    # shared accumulator + per sequence loop: C01-K9 re-evaluated
    c01.analyse_accumulate(ctx)


def check_compression(ctx):
    rep, m = ctx.rep, ctx.model
    # every SequenceFile built in cli/ uses 'auto'
    sites = 0
    for fi, call in m.iter_calls(kinds=('py',)):
        if not fi.module.name.startswith('gambit.cli.'):
            continue
        tgt = m.resolve_call(fi, call)
        if tgt == 'gambit.seq.SequenceFile.from_paths':
            comp = get_arg(call, 2, 'compression')
            fmt = get_arg(call, 1, 'format')
        elif tgt == 'gambit.seq.SequenceFile':
            comp = get_arg(call, 2, 'compression')
            fmt = get_arg(call, 1, 'format')
        else:
            continue
        # a site inside a helper that is not part of the reference tree (duplicated stanzas extracted into one function) stands
        # for every place in cli/ that calls the helper; a helper nobody calls opens no file
        # Likewise a site inside a function of cli/ that other cli/ code calls to obtain its files (get_sequence_files) feeds every
        # one of those callers: the floor counts the places that receive checked SequenceFile objects, so dropping a redundant
        # re-wrap of already constructed files does not look like a vanished site, while losing the shared site does.
        callers = sum(1 for g, c2 in m.iter_calls(kinds=('py',)) if g.module.name.startswith('gambit.cli.') and m.resolve_call(g, c2) == fi.qualname)
        sites += callers if fi.qualname not in known_symbols() else max(1, callers)
        rep.call_sites += 1
        rep.functions.add(fi.qualname)
        rep.add('F4', fi.site(call), 'genome files given on the command line are opened with content-based compression detection', comp not in (None, Ellipsis) and is_const(comp, 'auto') and is_const(fmt, 'fasta'),
                expected="(..., 'fasta', 'auto')", found=u(call)[:80], stmt=call, construct=fi.qualname)
    rep.floor('F4', 'SequenceFile construction sites in cli/', sites, 4)
    check_open(ctx)
    check_open_compressed(ctx)
    check_open_auto(ctx)
    check_guess(ctx)


_NOCONST = object()


def const_of(m, module, e):
    """Python value of a literal, a module-level constant or len() of one; _NOCONST otherwise."""
    if isinstance(e, ast.Call) and isinstance(e.func, ast.Name) and e.func.id == 'len' and len(e.args) == 1 and not e.keywords:
        v = const_of(m, module, e.args[0])
        return len(v) if isinstance(v, (bytes, str, tuple, list)) else _NOCONST
    try:
        return m.const_value(module, e)
    except Undecided:
        return _NOCONST


def check_open(ctx):
    """SequenceFile.open: whatever way it is written, the value that reaches open_compressed as compression is 'none' when the
    attribute is None and the attribute itself otherwise."""
    rep, m = ctx.rep, ctx.model
    fo = m.func('gambit.seq.SequenceFile.open')
    rep.functions.add(fo.qualname)
    md = fo.params()[1]
    sc = 'self.compression'
    rets = returning(sym_paths(fo.node))
    rep.require(rets, 'SequenceFile.open: no returning path')
    cases = {'unset': 0, 'set': 0}
    accounted = []
    for p in rets:
        c = p.resolve(p.end[2])
        if not (isinstance(c, ast.Call) and m.resolve_call(fo, c) == 'gambit.util.io.open_compressed'):
            continue            # reported by the return accounting below
        accounted.append(p.end[1])
        comp = get_arg(c, 2, 'compression')
        at = p.atoms()
        other = sorted(a for a in at if sc in a[1:] and a not in (('is', 'None', sc), ('isnot', 'None', sc)))
        rep.require(not other, f'SequenceFile.open: the compression default is decided by a test outside the vocabulary (only `is None` is interpreted): {other}')
        rep.require(comp is not Ellipsis and not is_unknown(comp), f'SequenceFile.open: cannot follow the compression argument of {u(c)}')
        undecided_path = p.feasible_with(('is', 'None', sc)) and p.feasible_with(('isnot', 'None', sc))
        rep.require(not undecided_path or comp is None or u(comp) == sc or const_of(m, fo.module, comp) is not _NOCONST,
                    f'SequenceFile.open: the compression argument is computed by a construct outside the vocabulary: {u(comp)}')
        ok = True
        want = []
        if p.feasible_with(('is', 'None', sc)):
            cases['unset'] += 1
            want.append("'none'")
            ok = ok and comp is not None and const_of(m, fo.module, comp) == 'none'
        if p.feasible_with(('isnot', 'None', sc)):
            cases['set'] += 1
            want.append(sc)
            ok = ok and u(comp) == sc
        ok = ok and [u(a) for a in c.args[:2]] == ['self.path', md]
        rep.add('F4', fo.site(p.end[1]), "SequenceFile.open forwards its own path and compression ('none' when unset)", ok, expected=f"open_compressed(self.path, {md}, {' / '.join(want)}) under {sorted(at)}",
                found=u(c), stmt='SequenceFile.open')
    rep.add('F4', fo.site(), 'SequenceFile.open opens the file both when the compression is set and when it is unset', cases['unset'] > 0 and cases['set'] > 0, expected='a path for compression None and one for a given compression',
            found=cases, stmt='SequenceFile.open cases')
    rep.account_returns('F4', fo, accounted, 'opened stream')


def check_open_compressed(ctx):
    rep, m = ctx.rep, ctx.model
    foc = expand_foreign_helpers(m, m.func('gambit.util.io.open_compressed'))
    rep.functions.add(foc.qualname)
    pa, md, cp = foc.params()[:3]
    auto = [p for p in returning(sym_paths(foc.node)) if p.feasible_with(('eq', "'auto'", cp))]
    found = []
    oka = bool(auto)
    for p in auto:
        c = p.resolve(p.end[2])
        found.append(f'{u(c)} under {sorted(p.atoms())}')
        rep.require(not is_unknown(c) and not (isinstance(c, ast.Call) and not isinstance(c.func, (ast.Name, ast.Attribute))),
                    f"open_compressed: the opener for compression 'auto' is selected by a construct outside the vocabulary: {u(c)[:80]}")
        good = isinstance(c, ast.Call) and m.resolve_call(foc, c) == 'gambit.util.io._open_auto' and len(c.args) >= 2 and u(c.args[1]) == md
        if good:
            pth = c.args[0]
            dv = p.defs.get(pth.id) if isinstance(pth, ast.Name) else None
            # the path itself, or its str form
            good = u(pth) == pa or (isinstance(dv, ast.Call) and u(dv.func) in ('os.fsdecode', 'os.fspath', 'str') and [u(a) for a in dv.args] == [pa])
        oka = oka and good
    rep.add('F4', foc.site(auto[0].end[1] if auto else None), "'auto' dispatches to the content sniffer with the same path and mode", oka, expected=f'_open_auto({pa}, {md}, **kwargs) whenever {cp} == \'auto\'', found=found, stmt='auto dispatch')


def _text_wrapper(m, fi, p, v):
    """(binary stream expression, has a newline override) when v is TextIOWrapper(<stream>, ...), else None"""
    v = p.resolve(v)
    if isinstance(v, ast.Call) and (m.resolve_call(fi, v) or callee(v) or '').split('.')[-1] == 'TextIOWrapper' and v.args and not isinstance(v.args[0], ast.Starred):
        return v.args[0], get_kw(v, 'newline') is not None
    return None


def _gzip_over(m, fi, c):
    """Name of the stream a binary gzip reader is built over, for gzip.GzipFile(fileobj=F, mode 'rb'/'r'/default) and for
    gzip.open(F, 'rb'/'r'/default) (which, given an open file object, returns GzipFile(fileobj=F)); '?' when the call is one of
    the two but with other arguments (text mode, a file name ...); None when it is neither."""
    r = (m.resolve_call(fi, c) or '') if isinstance(c, ast.Call) else ''
    if r == 'gzip.GzipFile':
        f, name, mode, extra = get_arg(c, 3, 'fileobj'), get_arg(c, 0, 'filename'), get_arg(c, 1, 'mode'), [k.arg for k in c.keywords if k.arg not in ('fileobj', 'filename', 'mode')]
        plain = (name is None or is_none(name)) and len(c.args) <= 2
    elif r == 'gzip.open':
        f, mode, extra = get_arg(c, 0, 'filename'), get_arg(c, 1, 'mode'), [k.arg for k in c.keywords if k.arg not in ('filename', 'mode')]
        plain = len(c.args) <= 2
    else:
        return None
    ok = plain and not extra and isinstance(f, ast.Name) and (mode is None or (isinstance(mode, ast.Constant) and mode.value in ('rb', 'r')))
    return f.id if ok else '?'


def check_open_auto(ctx):
    """_open_auto, decided per path: which stream object is returned for which detected compression and which mode."""
    rep, m = ctx.rep, ctx.model
    fa = expand_foreign_helpers(m, m.func('gambit.util.io._open_auto'))
    rep.functions.add(fa.qualname)
    pa, md = fa.params()[:2]
    paths = sym_paths(fa.node)
    rets = returning(paths)
    rep.require(rets, '_open_auto: no returning path')

    def defs_of(p, pred):
        return [ev for ev in p.events if ev.kind == 'def' and isinstance(ev.expr, ast.Call) and pred(ev.expr)]

    # binary open
    opens = {id(ev.stmt): ev for p in rets for ev in defs_of(p, lambda c: u(c.func) == 'open')}
    per_path = [defs_of(p, lambda c: u(c.func) == 'open') for p in rets]
    okop = all(len(o) == 1 and u(get_arg(o[0].expr, 0, 'file')) == pa and is_const(get_arg(o[0].expr, 1, 'mode'), 'rb') for o in per_path)
    op0 = next(iter(opens.values()), None)
    rep.add('F4', fa.site(op0.stmt if op0 else None), 'the file is first opened in binary mode', okop, expected=f"open({pa}, 'rb')", found=[u(o.expr) for o in opens.values()], stmt='binary open')
    rep.require(okop or opens, '_open_auto: the statement that opens the file was not found')
    # rewind
    oks, found_s, site_s = True, [], None
    info = []
    for p, o in zip(rets, per_path):
        fv = o[0].sym if len(o) == 1 else None
        gs = defs_of(p, lambda c: m.resolve_call(fa, c) == 'gambit.util.io.guess_compression')
        sk = [ev for ev in p.events if ev.kind == 'call' and isinstance(ev.expr, ast.Call) and u(ev.expr.func) == f'{fv}.seek']
        good = fv is not None and len(gs) == 1 and [u(a) for a in gs[0].expr.args] == [fv] and len(sk) == 1 and [u(a) for a in sk[0].expr.args] == ['0'] and not sk[0].expr.keywords \
            and p.events.index(gs[0]) < p.events.index(sk[0])
        if good:
            # nothing is built on the stream before it is rewound
            early = [ev for ev in p.events[:p.events.index(sk[0])] if ev.kind == 'def' and ev is not gs[0] and ev.sym != fv and any(isinstance(x, ast.Name) and x.id == fv for x in ast.walk(ev.expr))]
            good = not early
        oks = oks and good
        found_s = found_s or [u(x) for ev in gs + sk for x in ev.exprs()]
        site_s = site_s or (sk[0].stmt if sk else gs[0].stmt if gs else None)
        info.append((p, fv, gs[0].sym if len(gs) == 1 else None))
    rep.add('F4', fa.site(site_s), 'the stream is rewound to the start after sniffing (the magic bytes are part of the data)', oks, expected='compression = guess_compression(<file>); <file>.seek(0) on every path that returns a stream',
            found=found_s, stmt='rewind')
    # which stream for which detected compression / mode
    tkey = f'{md}[1]'
    table, okb, okt = {}, True, True
    seen_mode = {'text': 0, 'binary': 0}
    for p, fv, cv in info:
        for mode_name, fact in (('text', ('eq', "'t'", tkey)), ('binary', ('ne', "'t'", tkey))):
            if not p.feasible_with(fact):
                continue
            seen_mode[mode_name] += 1
            v = p.end[2]
            rep.require(not is_unknown(v), f'_open_auto: cannot follow the returned stream {u(v)}')
            if p.feasible_with(('eq', "'t'", tkey)) and p.feasible_with(('ne', "'t'", tkey)):
                # text / binary not decided on this path: fine to judge when the mode is not looked at at all, not when it is
                # looked at through a test this rule cannot interpret
                for t, pol in p.conds:
                    if md in names_in(t):
                        a = atoms(t, pol)
                        rep.require(a is not None and all(tkey in x[1:] or f'{md}[0]' in x[1:] for x in a),
                                    f'_open_auto: text / binary mode is decided by a test outside the vocabulary (only comparisons of {tkey} are interpreted): {u(t)}')
            if mode_name == 'text':
                tw = _text_wrapper(m, fa, p, v)
                good = tw is not None and not tw[1]
                b = tw[0] if tw is not None else None
            else:
                good = _text_wrapper(m, fa, p, v) is None
                b = v if good else None
            if not good:
                okt = False
            for comp in ('none', 'gzip'):
                if cv is None or not p.feasible_with(('eq', repr(comp), cv)) or b is None:
                    continue
                bd = p.defs.get(b.id) if isinstance(b, ast.Name) else None
                is_gz = _gzip_over(m, fa, bd) is not None
                comp_open = p.feasible_with(('eq', "'none'", cv)) and p.feasible_with(('eq', "'gzip'", cv))
                rep.require(not comp_open or is_gz or isinstance(b, ast.Name) and b.id == fv,
                            f'_open_auto: the stream is not selected by a test on the detected compression but by a construct outside the vocabulary: {u(bd) if bd is not None else u(b)}')
                if comp == 'none':
                    good_b = isinstance(b, ast.Name) and b.id == fv
                else:
                    good_b = _gzip_over(m, fa, bd) == fv
                table.setdefault(comp, set()).add(u(bd) if bd is not None and comp == 'gzip' else u(b))
                okb = okb and good_b
    okb = okb and set(table) == {'none', 'gzip'}
    okt = okt and seen_mode['text'] > 0 and seen_mode['binary'] > 0
    fv0 = next((fv for _, fv, _ in info if fv), '<file>')
    rep.add('F4', fa.site(rets[0].end[1]), 'plain content is read as is, gzip content through GzipFile over the same stream', okb, expected=f"none -> {fv0}; gzip -> gzip.GzipFile(fileobj={fv0}, mode='rb') (or gzip.open({fv0}, 'rb'))",
            found={k: sorted(v) for k, v in table.items()}, stmt='decompression table')
    rep.add('F4', fa.site(rets[0].end[1]), 'text mode wraps the (decompressed) stream in a TextIOWrapper with universal newlines (LF and CRLF equivalent)', okt, expected=f"TextIOWrapper(<binary stream>, **kwargs) if {tkey} == 't' else <binary stream>",
            found=sorted({f'{u(p.end[2])} under {sorted(a for a in p.atoms() if tkey in a)}' for p in rets}), stmt='text wrapper')
    seen = []
    for p in rets:
        if not any(p.end[1] is x for x in seen):
            seen.append(p.end[1])
    # the failure path: a handler that closes the file and returns nothing (falls off the end, `return`, `return None`)
    for t in [x for x in stmts_in(fa.node.body) if isinstance(x, ast.Try)]:
        for h in t.handlers:
            closes = any(isinstance(x, ast.Expr) and isinstance(x.value, ast.Call) and u(x.value.func) == f'{fv0}.close' for x in h.body)
            seen += [x for x in stmts_in(h.body) if isinstance(x, ast.Return) and closes and (x.value is None or is_none(x.value))]
    rep.account_returns('F4', fa, seen, 'opened stream')
    # reading only
    rkey = f'{md}[0]'
    wr = [p for p in paths if p.feasible_with(('ne', "'r'", rkey))]
    rep.add('F4', fa.site(wr[0].end[1] if wr and wr[0].end[1] is not None else None), 'auto detection is for reading only', bool(wr) and all(p.end[0] == 'raise' and isinstance(p.end[1], ast.Raise) for p in wr),
            expected=f"raise when {rkey} != 'r'", found=[(p.end[0], sorted(p.atoms())) for p in wr], stmt='read only')


def check_guess(ctx):
    """guess_compression: 'gzip' exactly when the first two bytes are 1f 8b."""
    rep, m = ctx.rep, ctx.model
    fg = expand_foreign_helpers(m, m.func('gambit.util.io.guess_compression'))
    rep.functions.add(fg.qualname)
    fobj = fg.params()[0]
    MAGIC = b'\x1f\x8b'
    rets = returning(sym_paths(fg.node))
    rep.require(rets, 'guess_compression: no returning path')

    def is_read(e):
        return isinstance(e, ast.Call) and isinstance(e.func, ast.Attribute) and e.func.attr == 'read' and u(e.func.value) == fobj

    tbl, okr, reads, foreign = {}, True, set(), []
    for p in rets:
        nread = sum(1 for e in [x for ev in p.events for x in ev.exprs()] + [t for t, _ in p.conds] + [p.end[2]] for x in ast.walk(e) if is_read(x))
        facts = []
        for t, pol in p.conds:
            fact = None
            if isinstance(t, ast.Compare) and len(t.ops) == 1 and isinstance(t.ops[0], (ast.Eq, ast.NotEq)):
                for a, b in ((t.left, t.comparators[0]), (t.comparators[0], t.left)):
                    ra = p.resolve(a)
                    if is_read(ra) and len(ra.args) == 1 and not ra.keywords:
                        n, c = const_of(m, fg.module, ra.args[0]), const_of(m, fg.module, b)
                        rep.require(n is not _NOCONST and c is not _NOCONST, f'guess_compression: cannot evaluate the magic comparison {u(t)}')
                        fact = (n, c, isinstance(t.ops[0], ast.Eq) == pol)
                        reads.add(u(ra))
            if fact is None and not any(is_read(x) or (isinstance(x, ast.Name) and is_read(p.resolve(x))) for x in ast.walk(t)):
                # a test that does not look at the bytes read from the stream decides the result: the compression is then not
                # recognised from the content (a located deviation, not an unknown construct)
                foreign.append((u(t), pol, u(p.end[2])))
                continue
            rep.require(fact is not None, f'guess_compression: the result depends on a test outside the vocabulary (only == / != between read(n) and a constant is interpreted): {u(t)}')
            facts.append(fact)
        if len(facts) == 0 and foreign:
            continue
        rep.require(len(facts) == 1, f'guess_compression: a returning path with {len(facts)} magic comparisons')
        n, c, eq = facts[0]
        okr = okr and nread == 1 and n == 2
        key = ('gzip-magic' if c == MAGIC and n == 2 else f'read({n}) == {c!r}') if eq else ('other' if c == MAGIC and n == 2 else f'read({n}) != {c!r}')
        tbl.setdefault(key, set()).add(u(p.end[2]))
    tbl = {k: sorted(v) for k, v in tbl.items()}
    rep.add('F4', fg.site(), 'the compression is recognised from the content only: no test on the file name, a parameter or any other state decides the result', not foreign,
            expected='every test on a returning path compares bytes read from the stream', found=sorted(set(foreign)) or 'content tests only', stmt='content only')
    rep.add('F4', fg.site(), "compression is recognised from the first two bytes: 1f 8b -> gzip, anything else -> none", okr and tbl == {'gzip-magic': ["'gzip'"], 'other': ["'none'"]}, expected="read(2) == b'\\x1f\\x8b' -> 'gzip' else 'none'",
            found=(tbl, sorted(reads)), stmt='gzip magic')


def check_parse(ctx):
    """parse(), decided per returning path: the stream opened in text mode through self.open is the one SeqIO.parse reads with the
    file's own format, and the iterator returned owns exactly that stream; the error path closes it and re-raises."""
    rep, m = ctx.rep, ctx.model
    fp = m.func('gambit.seq.SequenceFile.parse')
    rep.functions.add(fp.qualname)
    rets = returning(sym_paths(fp.node))
    rep.require(rets, 'SequenceFile.parse: no returning path')
    oko = okp = okr = stack_ok = True
    f_open, f_parse, f_ret, sites, guards = [], [], [], {}, []
    fv = None
    for p in rets:
        v = p.resolve(p.end[2])
        f_ret.append(u(v))
        good_r = isinstance(v, ast.Call) and (m.resolve_call(fp, v) or '') == 'gambit.util.io.ClosingIterator' and not any(isinstance(a, ast.Starred) for a in v.args)
        it, fo = (get_arg(v, 0, 'iterable'), get_arg(v, 1, 'fobj')) if good_r else (None, None)
        good_r = good_r and isinstance(fo, ast.Name) and fo.id in p.defs
        okr = okr and good_r
        sites.setdefault('ret', p.end[1])
        if not good_r:
            continue
        fv = fo.id
        # the stream
        od = p.defs[fo.id]
        f_open.append(u(od))
        # stream = <ExitStack>.enter_context(closing(E)): the value is E itself (closing.__enter__ returns its argument), and
        # the stack - while it is an open with-context and until pop_all() - closes E when an exception leaves the block
        guard = None
        if isinstance(od, ast.Call) and isinstance(od.func, ast.Attribute) and od.func.attr == 'enter_context' and isinstance(od.func.value, ast.Name) and len(od.args) == 1 and not od.keywords:
            sd = p.defs.get(od.func.value.id)
            inner = od.args[0]
            if isinstance(sd, ast.Call) and u(sd.func) == '__enter__' and isinstance(sd.args[0], ast.Call) and m.resolve_call(fp, sd.args[0]) == 'contextlib.ExitStack' \
                    and isinstance(inner, ast.Call) and m.resolve_call(fp, inner) == 'contextlib.closing' and len(inner.args) == 1 and not inner.keywords:
                guard = (od.func.value.id, next(e.stmt for e in p.events if e.kind == 'def' and e.sym == od.func.value.id))
                od = p.resolve(inner.args[0])
        guards.append(guard)
        if guard is not None:
            S, wstmt = guard
            evs = p.events
            i_enter = next(i for i, e in enumerate(evs) if e.kind == 'def' and e.sym == fo.id)
            made = [i for i, e in enumerate(evs) if e.kind == 'def' and isinstance(e.expr, ast.Call) and m.resolve_call(fp, e.expr) in ('Bio.SeqIO.parse', 'gambit.util.io.ClosingIterator')]
            inline = [c for c in ast.walk(p.end[2]) if isinstance(c, ast.Call) and m.resolve_call(fp, c) in ('Bio.SeqIO.parse', 'gambit.util.io.ClosingIterator')]
            pops = [i for i, e in enumerate(evs) if e.kind == 'call' and u(e.expr) == f'{S}.pop_all()']
            other = [u(e.expr) for e in evs if e.kind in ('call', 'def') and isinstance(e.expr, ast.Call) and isinstance(e.expr.func, ast.Attribute) and u(e.expr.func.value) == S
                     and e.expr.func.attr not in ('pop_all', 'enter_context')]
            rep.require(not other, f'SequenceFile.parse: the exit stack is used by a construct outside the vocabulary: {other}')
            # released exactly once, after everything that can fail was set up inside the stack's with block, and before the return
            released = len(pops) == 1 and not inline and made and pops[0] > max(made)
            protected = bool(made) and all(i > i_enter and any(w is wstmt for w in evs[i].withs) for i in made) and (not pops or pops[0] > max(made))
            okr = okr and released
            stack_ok = stack_ok and protected
            if not released:
                f_ret[-1] += f' with {len(pops)} x {S}.pop_all()' + (' before the iterator exists' if pops and made and pops[0] < max(made) else '')
        sites.setdefault('open', next(e.stmt for e in p.events if e.kind == 'def' and e.sym == fo.id))
        oko = oko and isinstance(od, ast.Call) and m.resolve_call(fp, od) == 'gambit.seq.SequenceFile.open' and u(od.func) == 'self.open' and is_const(get_arg(od, 0, 'mode'), 'rt')
        # the records
        sp = p.resolve(it)
        f_parse.append(u(sp))
        okp = okp and isinstance(sp, ast.Call) and m.resolve_call(fp, sp) == 'Bio.SeqIO.parse' and u(get_arg(sp, 0, 'handle')) == fo.id and u(get_arg(sp, 1, 'format')) == 'self.format'
        if isinstance(it, ast.Name):
            sites.setdefault('parse', next((e.stmt for e in p.events if e.kind == 'def' and e.sym == it.id), None))
    rep.add('F5', fp.site(sites.get('open')), 'the file is opened in text mode through SequenceFile.open (so compression handling applies)', oko and bool(f_open), expected="self.open('rt', **kwargs)", found=sorted(set(f_open)), stmt='parse open')
    rep.add('F5', fp.site(sites.get('parse') or sites.get('ret')), "records are produced by Biopython's parser for the file's declared format", okp and bool(f_parse), expected=f'SeqIO.parse({fv}, self.format)', found=sorted(set(f_parse)), stmt='SeqIO.parse')
    seen = []
    for p in rets:
        if not any(p.end[1] is x for x in seen):
            seen.append(p.end[1])
    rep.account_returns('F5', fp, seen, 'record iterator')
    rep.add('F5', fp.site(sites.get('ret')), 'the record iterator owns the stream (closes it on exhaustion / context exit)', okr, expected=f'ClosingIterator(records, {fv})', found=sorted(set(f_ret)), stmt='closing iterator')
    # error path: every call that can fail after the stream was opened runs inside a try whose handler closes the stream and re-raises
    tr = [s for s in stmts_in(fp.node.body) if isinstance(s, ast.Try)]

    def closes(h):
        return any(isinstance(x, ast.Expr) and u(x.value) == f'{fv}.close()' for x in h.body) and isinstance(h.body[-1], ast.Raise) and h.body[-1].exc is None \
            and (h.type is None or u(h.type) in ('BaseException', 'Exception'))
    pcalls = [c for c in calls_in(fp.node) if m.resolve_call(fp, c) in ('Bio.SeqIO.parse', 'gambit.util.io.ClosingIterator')]
    covered = [c for c in pcalls if any(any(x is c for b in t.body for x in ast.walk(b)) and any(closes(h) for h in t.handlers) for t in tr)]
    okt = bool(pcalls) and len(covered) == len(pcalls)
    by_stack = bool(guards) and all(g is not None for g in guards)
    if by_stack and not okt:
        okt = stack_ok and bool(pcalls)
    rep.add('F5', fp.site(tr[0] if tr else (guards[0][1] if by_stack else None)), 'the stream is closed and the error re-raised if the parser cannot be set up', okt,
            expected=f'except: {fv}.close(); raise  (or the stream registered with closing() on an ExitStack that is released only after the iterator exists)',
            found=[u(h)[:60] for t in tr for h in t.handlers] or ([f'{g[0]}.enter_context(closing(..)) protects the set-up: {stack_ok}' for g in guards if g] if by_stack else []), stmt='error path')
    ci = m.cls('gambit.util.io.ClosingIterator')
    nx = ci.methods.get('__next__')
    rep.functions.add(nx.qualname)
    rr = [s for s in stmts_in(nx.node.body) if isinstance(s, ast.Return)]
    okn = len(rr) == 1 and u(rr[0].value) == 'next(self.iterator)'
    hs = [h for s in stmts_in(nx.node.body) if isinstance(s, ast.Try) for h in s.handlers]
    okn = okn and len(hs) == 1 and u(hs[0].type) == 'StopIteration' and isinstance(hs[0].body[-1], ast.Raise) and hs[0].body[-1].exc is None
    rep.add('F5', nx.site(), 'the closing iterator yields exactly the parsed records, one per call, and only intercepts exhaustion', okn, expected='return next(self.iterator); except StopIteration: self.close(); raise', found=[u(r.value) for r in rr],
            stmt='closing iterator next')


def check(ctx):
    rep = ctx.rep
    rep.rule('F1', 'per-record isolation (generator of record.seq; no concatenation in the search chain) + K5/K9 shared accumulator')
    rep.rule('F4', "content-based compression at every CLI site; 'auto' -> sniffer; gzip magic 1f8b; seek(0); TextIOWrapper without newline override")
    rep.rule('F5', 'parse(): rt mode, SeqIO.parse(fobj, self.format), stream ownership and error path')
    rep.rule('K1', 'C01-K1 (search loops) re-evaluated: mirrored windows'); rep.rule('K2', 'C01-K2 slices'); rep.rule('K3', 'C01-K3 composition'); rep.rule('K4', 'C01-K4 strand dispatch')
    rep.rule('K5', 'C01-K5 skip discipline'); rep.rule('K6', 'C01-K6 case folding'); rep.rule('K9', 'C01-K9 one shared accumulator')
    rep.rule('T1', 'C07-T1 encoder (incl. case mask)'); rep.rule('T2', 'C07-T2'); rep.rule('T3', 'C07-T3 rc encoder'); rep.rule('T5', 'C07-T5 complement'); rep.rule('T6', 'C07-T6 rc encoder = encoder o complement'); rep.rule('T9', 'C07-T9 bindings')
    rep.rule('K2.0', 'KmerSpec attribute harvest')
    rep.trusted += ["Biopython's FASTA parser handles line wrapping, CRLF inside records and a missing final newline", 'gzip member handling of GzipFile', 'io.TextIOWrapper universal newlines']
    rep.assumptions += ['Re-wrapping, final newline and CRLF inside the FASTA parser are Biopython behaviour, not decided here (gambit-side clauses only).']
    check_isolation(ctx)
    # F2 / F3: re-evaluate the strand and case premises
    c01.harvest_kmerspec(ctx)
    loops = c01.analyse_search_loops(ctx)
    c01.analyse_slices(ctx, loops)
    m = ctx.model
    nuc = m.const_value(m.module('gambit.seq'), m.module('gambit.seq').assigns['NUCLEOTIDES'])
    enc = c07.analyse_encoder(ctx, m.func('gambit._cython.kmers.c_kmer_to_index'), nuc, rc=False)
    encrc = c07.analyse_encoder(ctx, m.func('gambit._cython.kmers.c_kmer_to_index_rc'), nuc, rc=True)
    comp = c07.analyse_revcomp(ctx, m.func('gambit._cython.kmers.c_revcomp'))
    fi_rc = m.func('gambit._cython.kmers.c_kmer_to_index_rc')
    for ch in b'ACGTacgt':
        c = comp.get(ch)
        rep.add('T6', fi_rc.site(), f'rc digit of {chr(ch)!r} == forward digit of its complement (strand symmetry of the index)', ch in encrc and c in enc and encrc[ch] == enc[c], expected=enc.get(c), found=encrc.get(ch),
                stmt=f'cross[{chr(ch)}]')
    check_compression(ctx)
    check_parse(ctx)
    # "depends only on its biological content": the accumulator a file is searched into holds nothing but that file's k-mers -
    # its state belongs to the instance, starts empty, records exactly what is added and is reported sorted and duplicate-free
    # (C01-K7 re-evaluated under this property; last, so that an accumulator K7 cannot read does not hide the rules above)
    rep.rule('K7', 'C01-K7 re-evaluated: accumulator state is per instance and starts empty; add records its argument; signature sorted, duplicate-free, index_dtype(k); default_accumulator returns one of them')
    c01.analyse_accumulators(ctx)


from ..variants import V  # noqa: E402

_S = 'src/gambit/sigs/calc.py'
_IO = 'src/gambit/util/io.py'
_SQ = 'src/gambit/seq.py'
_OPEN_OLD = "\t\tcompression = 'none' if self.compression is None else self.compression\n"
_WRAP_OLD = "\t\treturn TextIOWrapper(binary, **kwargs) if mode[1] == 't' else binary\n"
_DET_OLD = "\t\tif compression == 'none':\n\t\t\tbinary = file\n\t\telif compression == 'gzip':\n\t\t\timport gzip\n\t\t\tbinary = gzip.GzipFile(fileobj=file, mode='rb')\n"
_DISP_OLD = ("\tif compression == 'none':\n\t\treturn open(path, mode, **kwargs)\n\n\telif compression == 'gzip':\n\t\timport gzip\n\t\treturn gzip.open(path, mode, **kwargs)\n\n"
             "\telif compression == 'auto':\n\t\treturn _open_auto(path, mode, **kwargs)\n\n\telse:\n\t\traise ValueError(f'Unknown compression type {compression!r}') from None\n")
_GUESS_OLD = "\tmagic = fobj.read(2)\n\n\tif magic == b'\\x1f\\x8b':\n\t\treturn 'gzip'\n\telse:\n\t\treturn 'none'\n"
_T = "T = TypeVar('T')\n"
_D = 'src/gambit/cli/dist.py'
_PARSE_FULL = "\t\tfobj = self.open('rt', **kwargs)\n\n\t\ttry:\n\t\t\trecords = SeqIO.parse(fobj, self.format)\n\t\t\treturn ClosingIterator(records, fobj)\n\n\t\texcept:\n\t\t\tfobj.close()\n\t\t\traise\n"
_PARSE_STACK = "\t\twith ExitStack() as cleanup:\n\t\t\tfobj = cleanup.enter_context(closing(self.open('rt', **kwargs)))\n\t\t\trecords = SeqIO.parse(fobj, self.format)\n%s"
_STACK_IMPORT = [('src/gambit/seq.py', "from os import PathLike\n", "from os import PathLike\nfrom contextlib import ExitStack, closing\n")]
_HELPER = ("def _sigs_of(kspec, paths, meter, label, **kw):\n\tseqfiles = SequenceFile.from_paths(paths, 'fasta', %s)\n\tpconf = progress_config(meter, desc=label) if len(paths) > 1 else None\n"
           "\treturn calc_file_signatures(kspec, seqfiles, progress=pconf, **kw)\n\n\n")
_HELPER_CALLS = (
    (_D, "\t\tquery_sigfiles = SequenceFile.from_paths(query_files, 'fasta', 'auto')\n\t\tquery_pconf = progress_config(prog, desc='Calculating query genome signatures') if len(query_files) > 1 else None\n"
         "\t\tquery_sigs = calc_file_signatures(kspec, query_sigfiles, progress=query_pconf, max_workers=cores)\n",
     "\t\tquery_sigs = _sigs_of(kspec, query_files, prog, 'Calculating query genome signatures', max_workers=cores)\n"),
    (_D, "\t\t\tref_sigfiles = SequenceFile.from_paths(ref_files, 'fasta', 'auto')\n\t\t\tref_pconf = progress_config('click', desc='Calculating reference genome signatures') if len(ref_files) > 1 else None\n"
         "\t\t\tref_sigs = calc_file_signatures(kspec, ref_sigfiles, progress=ref_pconf)\n",
     "\t\t\tref_sigs = _sigs_of(kspec, ref_files, 'click', 'Calculating reference genome signatures')\n"),
)
_DIRECT = ("\twith seqfile.parse() as records:\n\t\tif accumulator is None:\n\t\t\taccumulator = default_accumulator(kspec.k)\n\n"
           "\t\tfor record in records:\n\t\t\taccumulate_kmers(accumulator, kspec, record.seq)\n\n\t\treturn accumulator.signature()\n")
_PARSE_OLD = "\t\t\trecords = SeqIO.parse(fobj, self.format)\n\t\t\treturn ClosingIterator(records, fobj)\n\n\t\texcept:\n"
_FILE_OLD = "\twith seqfile.parse() as records:\n\t\treturn calc_signature(kspec, (record.seq for record in records), accumulator=accumulator)\n"
VARIANTS = [
    V('records concatenated', 'B', _S, "return calc_signature(kspec, (record.seq for record in records), accumulator=accumulator)",
      "return calc_signature(kspec, [b''.join(bytes(record.seq) for record in records)], accumulator=accumulator)", 'F1'),
    V('records joined with a separator', 'B', _S, "return calc_signature(kspec, (record.seq for record in records), accumulator=accumulator)",
      "return calc_signature(kspec, 'N'.join(str(record.seq) for record in records), accumulator=accumulator)", 'F1'),
    V('one CLI site uses extension-less None compression', 'B', 'src/gambit/cli/tree.py', "sigfiles = SequenceFile.from_paths(genome_files, 'fasta', 'auto')", "sigfiles = SequenceFile.from_paths(genome_files, 'fasta', None)", 'F4'),
    V('wrong gzip magic', 'B', _IO, "if magic == b'\\x1f\\x8b':", "if magic == b'\\x1f\\x8c':", 'F4'),
    V('no rewind after sniffing', 'B', _IO, "\t\tfile.seek(0)\n", "", 'F4'),
    V('newline translation disabled', 'B', _IO, "return TextIOWrapper(binary, **kwargs) if mode[1] == 't' else binary", "return TextIOWrapper(binary, newline='', **kwargs) if mode[1] == 't' else binary", 'F4'),
    V('first record skipped', 'B', _S, "(record.seq for record in records)", "(record.seq for i, record in enumerate(records) if i > 0)", 'F1'),
    V('fresh accumulator per record', 'B', _S, "\tfor seq in seqs:\n\t\taccumulate_kmers(accumulator, kmerspec, seq)\n", "\tfor seq in seqs:\n\t\taccumulator = default_accumulator(kmerspec.k)\n\t\taccumulate_kmers(accumulator, kmerspec, seq)\n", 'K9'),
    V('reverse strand window not mirrored', 'B', 'src/gambit/kmers.py', "\tstart = kmerspec.k\n", "\tstart = 0\n", 'K'),
    V('format hard-coded to genbank in parse', 'B', _SQ, "records = SeqIO.parse(fobj, self.format)", "records = SeqIO.parse(fobj, 'genbank')", 'F5'),
    V('gzip branch reads the raw stream', 'B', _IO, "binary = gzip.GzipFile(fileobj=file, mode='rb')", "binary = file", 'F4'),
    V('E: list of record sequences instead of a generator', 'E', _S, "(record.seq for record in records)", "[record.seq for record in records]"),
    # ---- idioms accepted by meaning (path-sensitive value flow), each with its broken twin
    # a value bound to a local first / if statement instead of a conditional expression
    V('E: open(): None default written as an if statement on a local', 'E', _SQ, _OPEN_OLD, "\t\tcompression = self.compression\n\t\tif compression is None:\n\t\t\tcompression = 'none'\n"),
    V('twin: if statement with the None test inverted', 'B', _SQ, _OPEN_OLD, "\t\tcompression = self.compression\n\t\tif compression is not None:\n\t\t\tcompression = 'none'\n", 'F4'),
    V('twin: local bound but the None default forgotten', 'B', _SQ, _OPEN_OLD, "\t\tcompression = self.compression\n", 'F4'),
    V('twin: default applied on a second return path only for the wrong case', 'B', _SQ, _OPEN_OLD + "\t\treturn open_compressed(self.path, mode, compression, **kwargs)\n",
      "\t\tif self.compression is None:\n\t\t\treturn open_compressed(self.path, mode, 'auto', **kwargs)\n\t\treturn open_compressed(self.path, mode, self.compression, **kwargs)\n", 'F4'),
    # guard clause with early return instead of a conditional expression
    V('E: text wrapper as a guard clause with early return', 'E', _IO, _WRAP_OLD, "\t\tif mode[1] == 't':\n\t\t\treturn TextIOWrapper(binary, **kwargs)\n\n\t\treturn binary\n"),
    V('E: text wrapper bound to a local first', 'E', _IO, _WRAP_OLD, "\t\tif mode[1] == 't':\n\t\t\tstream = TextIOWrapper(binary, **kwargs)\n\t\telse:\n\t\t\tstream = binary\n\t\treturn stream\n"),
    V('twin: guard clause wraps in binary mode instead of text mode', 'B', _IO, _WRAP_OLD, "\t\tif mode[1] == 'b':\n\t\t\treturn TextIOWrapper(binary, **kwargs)\n\n\t\treturn binary\n", 'F4'),
    V('twin: guard clause with newline translation disabled', 'B', _IO, _WRAP_OLD, "\t\tif mode[1] == 't':\n\t\t\treturn TextIOWrapper(binary, newline='', **kwargs)\n\n\t\treturn binary\n", 'F4'),
    V('twin: guard clause wraps the raw file instead of the decompressed stream', 'B', _IO, _WRAP_OLD, "\t\tif mode[1] == 't':\n\t\t\treturn TextIOWrapper(file, **kwargs)\n\n\t\treturn binary\n", 'F4'),
    # branch order of a dispatch on mutually exclusive values
    V('E: detection branches in the other order', 'E', _IO, _DET_OLD, "\t\tif compression == 'gzip':\n\t\t\timport gzip\n\t\t\tbinary = gzip.GzipFile(fileobj=file, mode='rb')\n\t\telif compression == 'none':\n\t\t\tbinary = file\n"),
    V('twin: reordered branches with the streams exchanged', 'B', _IO, _DET_OLD, "\t\tif compression == 'gzip':\n\t\t\tbinary = file\n\t\telif compression == 'none':\n\t\t\timport gzip\n\t\t\tbinary = gzip.GzipFile(fileobj=file, mode='rb')\n", 'F4'),
    V('twin: gzip stream built before the rewind', 'B', _IO, "\t\tcompression = guess_compression(file)\n\t\tfile.seek(0)\n\n\t\tif compression == 'none':\n\t\t\tbinary = file\n\t\telif compression == 'gzip':\n\t\t\timport gzip\n\t\t\tbinary = gzip.GzipFile(fileobj=file, mode='rb')\n",
      "\t\tcompression = guess_compression(file)\n\n\t\tif compression == 'none':\n\t\t\tbinary = file\n\t\t\tfile.seek(0)\n\t\telif compression == 'gzip':\n\t\t\timport gzip\n\t\t\tbinary = gzip.GzipFile(fileobj=file, mode='rb')\n", 'F4'),
    V('E: dispatch of open_compressed as guard clauses in another order', 'E', _IO, _DISP_OLD,
      "\tif compression == 'auto':\n\t\treturn _open_auto(path, mode, **kwargs)\n\n\tif compression == 'gzip':\n\t\timport gzip\n\t\treturn gzip.open(path, mode, **kwargs)\n\n\tif compression != 'none':\n\t\traise ValueError(f'Unknown compression type {compression!r}') from None\n\n\treturn open(path, mode, **kwargs)\n"),
    V("twin: guard clauses that let 'auto' fall through to a plain open", 'B', _IO, _DISP_OLD,
      "\tif compression == 'gzip':\n\t\timport gzip\n\t\treturn gzip.open(path, mode, **kwargs)\n\n\tif compression not in ('none', 'auto'):\n\t\traise ValueError(f'Unknown compression type {compression!r}') from None\n\n\treturn open(path, mode, **kwargs)\n", 'F4'),
    V("twin: 'auto' guard clause sniffs a different path", 'B', _IO, _DISP_OLD,
      "\tif compression == 'auto':\n\t\treturn _open_auto(path + '.gz', mode, **kwargs)\n\n\tif compression == 'gzip':\n\t\timport gzip\n\t\treturn gzip.open(path, mode, **kwargs)\n\n\tif compression != 'none':\n\t\traise ValueError(f'Unknown compression type {compression!r}') from None\n\n\treturn open(path, mode, **kwargs)\n", 'F4'),
    # one conditional expression, the literal named by a module constant, the read inlined into the comparison
    V('E: magic test as one conditional expression over a named constant', 'E', _IO, _GUESS_OLD, "\treturn 'gzip' if fobj.read(len(_GZIP_MAGIC)) == _GZIP_MAGIC else 'none'\n", also=[(_IO, _T, _T + "\n_GZIP_MAGIC = b'\\x1f\\x8b'\n")]),
    V('twin: conditional expression with the results exchanged', 'B', _IO, _GUESS_OLD, "\treturn 'none' if fobj.read(len(_GZIP_MAGIC)) == _GZIP_MAGIC else 'gzip'\n", 'F4', also=[(_IO, _T, _T + "\n_GZIP_MAGIC = b'\\x1f\\x8b'\n")]),
    V('twin: named constant with the wrong bytes', 'B', _IO, _GUESS_OLD, "\treturn 'gzip' if fobj.read(len(_GZIP_MAGIC)) == _GZIP_MAGIC else 'none'\n", 'F4', also=[(_IO, _T, _T + "\n_GZIP_MAGIC = b'\\x8b\\x1f'\n")]),
    V('twin: one byte read but compared with the two magic bytes', 'B', _IO, _GUESS_OLD, "\treturn 'gzip' if fobj.read(1) == _GZIP_MAGIC else 'none'\n", 'F4', also=[(_IO, _T, _T + "\n_GZIP_MAGIC = b'\\x1f\\x8b'\n")]),
    # an inlined temporary
    V('E: parser call inlined into the iterator construction, handler spelled BaseException', 'E', _SQ, _PARSE_OLD, "\t\t\treturn ClosingIterator(SeqIO.parse(fobj, self.format), fobj)\n\n\t\texcept BaseException:\n"),
    V('E: parser called with keyword arguments', 'E', _SQ, "records = SeqIO.parse(fobj, self.format)", "records = SeqIO.parse(format=self.format, handle=fobj)"),
    V('twin: inlined parser call with a hard-coded format', 'B', _SQ, _PARSE_OLD, "\t\t\treturn ClosingIterator(SeqIO.parse(fobj, 'fasta'), fobj)\n\n\t\texcept BaseException:\n", 'F5'),
    V('twin: iterator does not wrap the parsed records', 'B', _SQ, _PARSE_OLD, "\t\t\trecords = SeqIO.parse(fobj, self.format)\n\t\t\treturn ClosingIterator(iter(list(records)[1:]), fobj)\n\n\t\texcept BaseException:\n", 'F5'),
    V('twin: parser set up outside the protected block (stream leaks on failure)', 'B', _SQ, "\t\ttry:\n\t\t\trecords = SeqIO.parse(fobj, self.format)\n", "\t\trecords = SeqIO.parse(fobj, self.format)\n\t\ttry:\n", 'F5'),
    # library-call swaps and context-manager forms
    V('E: gzip.open over the open file instead of GzipFile(fileobj=...)', 'E', _IO, "binary = gzip.GzipFile(fileobj=file, mode='rb')", "binary = gzip.open(file, 'rb')"),
    V('twin: gzip.open over the open file in text mode (wrapped twice)', 'B', _IO, "binary = gzip.GzipFile(fileobj=file, mode='rb')", "binary = gzip.open(file, 'rt')", 'F4'),
    V('twin: gzip.open over a different stream', 'B', _IO, "binary = gzip.GzipFile(fileobj=file, mode='rb')", "binary = gzip.open(open(path + '.gz', 'rb'), 'rb')", 'F4'),
    V('E: failure handler returns None explicitly after closing', 'E', _IO, "\texcept Exception:\n\t\tfile.close()\n", "\texcept Exception:\n\t\tfile.close()\n\t\treturn None\n"),
    V('twin: failure handler hands back the raw file', 'B', _IO, "\texcept Exception:\n\t\tfile.close()\n", "\texcept Exception:\n\t\tfile.seek(0)\n\t\treturn file\n", 'F4'),
    V('E: records handed over through map(attrgetter)', 'E', _S, "(record.seq for record in records)", "map(attrgetter('seq'), records)", also=[(_S, "from contextlib import nullcontext\n", "from contextlib import nullcontext\nfrom operator import attrgetter\n")]),
    V('E: records handed over through map(lambda)', 'E', _S, "(record.seq for record in records)", "map(lambda rec: rec.seq, records)"),
    V('twin: map(attrgetter) of the wrong attribute', 'B', _S, "(record.seq for record in records)", "map(attrgetter('id'), records)", 'F1', also=[(_S, "from contextlib import nullcontext\n", "from contextlib import nullcontext\nfrom operator import attrgetter\n")]),
    V('twin: map(attrgetter) over all but the first record', 'B', _S, "(record.seq for record in records)", "map(attrgetter('seq'), list(records)[1:])", 'F1', also=[(_S, "from contextlib import nullcontext\n", "from contextlib import nullcontext\nfrom operator import attrgetter\n")]),
    V('E: parse() protects the stream with ExitStack + closing, released by pop_all', 'E', _SQ, _PARSE_FULL, _PARSE_STACK % ("\t\t\titerator = ClosingIterator(records, fobj)\n\t\t\tcleanup.pop_all()\n\t\t\treturn iterator\n"), also=_STACK_IMPORT),
    V('twin: ExitStack never released (stream closed when parse() returns)', 'B', _SQ, _PARSE_FULL, _PARSE_STACK % ("\t\t\titerator = ClosingIterator(records, fobj)\n\t\t\treturn iterator\n"), 'F5', also=_STACK_IMPORT),
    V('twin: ExitStack released before the parser is set up (stream leaks on failure)', 'B', _SQ, _PARSE_FULL,
      "\t\twith ExitStack() as cleanup:\n\t\t\tfobj = cleanup.enter_context(closing(self.open('rt', **kwargs)))\n\t\t\tcleanup.pop_all()\n\t\t\trecords = SeqIO.parse(fobj, self.format)\n\t\t\titerator = ClosingIterator(records, fobj)\n\t\t\treturn iterator\n", 'F5', also=_STACK_IMPORT),
    V('twin: parser set up after the ExitStack block (unprotected)', 'B', _SQ, _PARSE_FULL,
      "\t\twith ExitStack() as cleanup:\n\t\t\tfobj = cleanup.enter_context(closing(self.open('rt', **kwargs)))\n\t\t\tcleanup.pop_all()\n\t\trecords = SeqIO.parse(fobj, self.format)\n\t\titerator = ClosingIterator(records, fobj)\n\t\treturn iterator\n", 'F5', also=_STACK_IMPORT),
    V('E: dist_cmd uses the files of get_sequence_files without wrapping them again', 'E', _D, "query_sigfiles = SequenceFile.from_paths(query_files, 'fasta', 'auto')", "query_sigfiles = query_files",
      also=[(_D, "ref_sigfiles = SequenceFile.from_paths(ref_files, 'fasta', 'auto')", "ref_sigfiles = ref_files")]),
    V('twin: re-wrap dropped and the shared construction site uses extension-based compression', 'B', _D, "query_sigfiles = SequenceFile.from_paths(query_files, 'fasta', 'auto')", "query_sigfiles = query_files", 'F4',
      also=[(_D, "ref_sigfiles = SequenceFile.from_paths(ref_files, 'fasta', 'auto')", "ref_sigfiles = ref_files"), ('src/gambit/cli/common.py', "files = SequenceFile.from_paths(paths, 'fasta', 'auto')", "files = SequenceFile.from_paths(paths, 'fasta')")]),
    # duplicated stanzas extracted into a helper (the construction site moves into a function that is called twice)
    V('E: the two file-opening stanzas of dist_cmd extracted into one helper', 'E', _D, "def fmt_kspec(kspec):", _HELPER % "'auto'" + "def fmt_kspec(kspec):", also=_HELPER_CALLS),
    V('twin: extracted helper opens the files with extension-based compression', 'B', _D, "def fmt_kspec(kspec):", _HELPER % "None" + "def fmt_kspec(kspec):", 'F4', also=_HELPER_CALLS),
    V('twin: extracted helper opens the files as uncompressed', 'B', _D, "def fmt_kspec(kspec):", _HELPER % "'none'" + "def fmt_kspec(kspec):", 'F4', also=_HELPER_CALLS),
    # the delegated search written out in place: a loop that accumulates instead of a generator handed to calc_signature
    V('E: records accumulated by a loop in calc_file_signature itself', 'E', _S, _FILE_OLD, _DIRECT),
    V('E: direct accumulation with the accumulator chosen by a conditional expression into another local', 'E', _S, _FILE_OLD,
      _DIRECT.replace("\t\tif accumulator is None:\n\t\t\taccumulator = default_accumulator(kspec.k)\n", "\t\tacc = default_accumulator(kspec.k) if accumulator is None else accumulator\n").replace("accumulate_kmers(accumulator,", "accumulate_kmers(acc,").replace("accumulator.signature()", "acc.signature()")),
    V('twin: direct loop with a fresh accumulator per record', 'B', _S, _FILE_OLD,
      "\twith seqfile.parse() as records:\n\t\tfor record in records:\n\t\t\tacc = default_accumulator(kspec.k) if accumulator is None else accumulator\n\t\t\taccumulate_kmers(acc, kspec, record.seq)\n\n\t\treturn acc.signature()\n", 'F1'),
    V('twin: direct loop that skips short records', 'B', _S, _FILE_OLD, _DIRECT.replace("\t\t\taccumulate_kmers(", "\t\t\tif len(record.seq) < 1000:\n\t\t\t\tcontinue\n\t\t\taccumulate_kmers("), 'F1'),
    V('twin: direct loop that stops after the first record', 'B', _S, _FILE_OLD, _DIRECT.replace("record.seq)\n", "record.seq)\n\t\t\tbreak\n"), 'F1'),
    V('twin: direct loop ignores the accumulator given by the caller', 'B', _S, _FILE_OLD, _DIRECT.replace("\t\tif accumulator is None:\n\t\t\taccumulator =", "\t\taccumulator ="), 'F1'),
    V('twin: direct loop searches into one accumulator but returns another', 'B', _S, _FILE_OLD, _DIRECT.replace("return accumulator.signature()", "return default_accumulator(kspec.k).signature()"), 'F1'),
    V('twin: direct loop runs after the parse context closed the stream', 'B', _S, _FILE_OLD,
      "\twith seqfile.parse() as records:\n\t\tif accumulator is None:\n\t\t\taccumulator = default_accumulator(kspec.k)\n\n\tfor record in records:\n\t\taccumulate_kmers(accumulator, kspec, record.seq)\n\n\treturn accumulator.signature()\n", 'F1'),
    V('twin: direct loop draws a record before the loop', 'B', _S, _FILE_OLD, _DIRECT.replace("\t\tfor record in records:", "\t\tnext(records, None)\n\t\tfor record in records:"), 'F1'),
    # named generator, result bound to a local inside the with and returned after it
    V('E: named record generator, signature returned after the with block', 'E', _S, _FILE_OLD,
      "\twith seqfile.parse() as records:\n\t\tseqs = (record.seq for record in records)\n\t\tsig = calc_signature(kspec, seqs, accumulator=accumulator)\n\n\treturn sig\n"),
    V('E: records read into a list inside the with, searched after it', 'E', _S, _FILE_OLD,
      "\twith seqfile.parse() as records:\n\t\tseqs = [record.seq for record in records]\n\n\treturn calc_signature(kspec, seqs, accumulator=accumulator)\n"),
    V('twin: lazy generator consumed after the parse context closed the stream', 'B', _S, _FILE_OLD,
      "\twith seqfile.parse() as records:\n\t\tseqs = (record.seq for record in records)\n\n\treturn calc_signature(kspec, seqs, accumulator=accumulator)\n", 'F1'),
    V('twin: a record drawn from the stream before the named generator sees it', 'B', _S, _FILE_OLD,
      "\twith seqfile.parse() as records:\n\t\tnext(records, None)\n\t\tseqs = (record.seq for record in records)\n\t\tsig = calc_signature(kspec, seqs, accumulator=accumulator)\n\n\treturn sig\n", 'F1'),
    V('twin: named generator drained by a count before the search', 'B', _S, _FILE_OLD,
      "\twith seqfile.parse() as records:\n\t\tseqs = (record.seq for record in records)\n\t\tn = sum(1 for _ in seqs)\n\t\tsig = calc_signature(kspec, seqs, accumulator=accumulator)\n\n\treturn sig\n", 'F1'),
    V('twin: named generator that filters records', 'B', _S, _FILE_OLD,
      "\twith seqfile.parse() as records:\n\t\tseqs = (record.seq for record in records if len(record.seq) > 1000)\n\t\tsig = calc_signature(kspec, seqs, accumulator=accumulator)\n\n\treturn sig\n", 'F1'),
]
