"""C05 - bulk and parallel distance computations agree bit-for-bit with the pairwise one.

B1 every output cell comes from the one kernel or is a copy / zero (closed list of store kinds, no arithmetic on cells)
B2 prange body race-free: only store is out[<induction var>], other assigned names are function-local scalars, callee nogil and pure
B3 fast path operands   B4 slow path pairing   B5 matrix: one slice selects reference chunk and output columns; chunk_slices tiles [0, n)
B6 pairwise: cols slice, mirror store, flat offsets, num_pairs   B7 thread-count setters touch no data

B1/B3..B6 are decided on VALUES, not spellings (class Vals): the operand / index / stored value of an anchor statement is
resolved through the locals it went through, one case per path (if/else arms, conditional expressions, guard clauses), every
case carrying its path condition; index expressions are compared as affine forms and per-axis view normal forms
(out[:, s][i] == out[i, s]); closed-form condensed offsets are decided by exhaustive evaluation of the quasi-polynomial on a
grid that determines it; a loop over a package generator that yields once per item of one parameter is read as a loop over
that argument.  A value case that is wrong for the path it occurs on is a violation; a construct outside this vocabulary
(unknown loop header, index composition that is not evident, guarded fill statement, rebound selector) is Undecided.
"""
import ast

from ..affine import Aff, sym
from ..astutil import (u, atoms, guard_map, path_atoms, stmts_in, calls_in, callee, callee_attr, reaching_def, def_value,
                       PARAM, AMBIGUOUS, get_arg, get_kw, is_none, is_const, raised_name, block_path, assigns_to, assigned_targets,
                       always_exits, walk_no_nested)
from ..report import Undecided

MET = 'gambit.metric'
PYX = 'gambit._cython.metric'
KERNELS = {f'{PYX}.jaccarddist'}


def _root(e):
    while isinstance(e, (ast.Subscript, ast.Attribute)):
        e = e.value
    return e.id if isinstance(e, ast.Name) else None


# ---------------------------------------------------------------------- path-sensitive values
# The rules below do not look at the spelling of a statement but at the VALUE that reaches a use: a local name is replaced
# by its definition(s), one case per path (if/else arms, conditional expressions), each case carrying the path condition
# under which it holds.  Parameters, loop variables and names without a unique definition stay as (tagged) terminals.

def binds(stmt, name):
    """Does this statement itself (not its nested blocks) bind the plain name `name`?  (a name that only occurs inside a
    subscript / attribute target, e.g. the n of `out[i:n] = ..`, is read there, not bound)"""
    todo = list(assigned_targets(stmt))
    while todo:
        t = todo.pop()
        if isinstance(t, ast.Starred):
            t = t.value
        if isinstance(t, (ast.Tuple, ast.List)):
            todo.extend(t.elts)
        elif isinstance(t, ast.Name) and t.id == name:
            return True
    if isinstance(stmt, (ast.Import, ast.ImportFrom)):
        return any((a.asname or a.name.split('.')[0]) == name for a in stmt.names)
    if isinstance(stmt, (ast.FunctionDef, ast.AsyncFunctionDef, ast.ClassDef)):
        return stmt.name == name
    return any(isinstance(n, ast.NamedExpr) and n.target.id == name for n in ast.walk(stmt)) if not isinstance(stmt, (ast.If, ast.For, ast.While, ast.With, ast.Try)) else False


def binds_deep(stmt, name):
    if binds(stmt, name):
        return True
    for f in ('body', 'orelse', 'finalbody', 'handlers'):
        for x in getattr(stmt, f, None) or []:
            if isinstance(x, ast.ExceptHandler):
                if x.name == name or any(binds_deep(y, name) for y in x.body):
                    return True
            elif isinstance(x, ast.stmt) and binds_deep(x, name):
                return True
    if isinstance(stmt, (ast.If, ast.While)) and any(isinstance(n, ast.NamedExpr) and n.target.id == name for n in ast.walk(stmt.test)):
        return True
    return False


def _tag(name, bind):
    n = ast.Name(id=name, ctx=ast.Load())
    n.bind = bind
    return n


def _clone(e, fn):
    """Copy of expression e in which every node for which fn(node) is not None is replaced by that value (not descended)."""
    if isinstance(e, list):
        return [_clone(x, fn) for x in e]
    if not isinstance(e, ast.AST):
        return e
    r = fn(e)
    if r is not None:
        return r
    n = type(e)(**{f: _clone(v, fn) for f, v in ast.iter_fields(e)})
    for k, v in e.__dict__.items():
        if k not in e._fields:
            setattr(n, k, v)
    return n


def _free_names(e):
    bound = set()
    for n in ast.walk(e):
        if isinstance(n, ast.comprehension):
            bound |= {x.id for x in ast.walk(n.target) if isinstance(x, ast.Name)}
        elif isinstance(n, ast.Lambda):
            a = n.args
            bound |= {x.arg for x in a.posonlyargs + a.args + a.kwonlyargs}
    return {n.id for n in ast.walk(e) if isinstance(n, ast.Name) and isinstance(n.ctx, ast.Load) and not hasattr(n, 'bind')} - bound


_NEG = {'is': 'isnot', 'isnot': 'is', 'true': 'false', 'false': 'true', 'eq': 'ne', 'ne': 'eq', 'in': 'notin', 'notin': 'in'}


def _contradicts(a, cond):
    if a[0] in _NEG and (_NEG[a[0]],) + a[1:] in cond:
        return True
    if a[0] == 'lt' and (('le', a[2], a[1]) in cond or ('lt', a[2], a[1]) in cond):
        return True
    if a[0] == 'le' and ('lt', a[2], a[1]) in cond:
        return True
    return False


def term(e, name=None, bind=Ellipsis):
    """Is e a terminal (unsubstituted) name - optionally with this identifier / this binding?"""
    return isinstance(e, ast.Name) and hasattr(e, 'bind') and (name is None or e.id == name) and (bind is Ellipsis or e.bind is bind)


def has_ambiguous(e):
    return any(isinstance(n, ast.Name) and getattr(n, 'bind', None) is AMBIGUOUS for n in ast.walk(e))


class Vals:
    """Values reaching a use, per path.  cases(expr, at) -> [(condition atoms, expression over terminals)]."""
    LIMIT = 64

    def __init__(self, fi):
        self.fi = fi
        self.fn = fi.node
        a = fi.node.args
        self.params = {x.arg for x in a.posonlyargs + a.args + a.kwonlyargs} | ({a.vararg.arg} if a.vararg else set()) | ({a.kwarg.arg} if a.kwarg else set())
        self.gm = guard_map(self.fn)
        self.stmts = list(stmts_in(self.fn.body))
        self.order = {id(s): k for k, s in enumerate(self.stmts)}
        self.test_owner = {id(s.test): s for s in self.stmts if isinstance(s, (ast.If, ast.While, ast.Assert))}
        self._memo = {}
        self._pm = None
        self.overrides = {}     # (name, id(binding loop)) -> [(atoms, expression)]: per-item value of a loop variable, when known
        # conditions are compared as text: an atom over a name that is (re)bound somewhere in the function may be stale at a
        # later statement, so it never makes a path infeasible - unless the rebinding was shown not to change it (selector_stable)
        self.assigned = {n.id for n in ast.walk(self.fn) if isinstance(n, ast.Name) and isinstance(n.ctx, ast.Store)}
        self.stable = set()

    def conj(self, c1, c2):
        """Conjunction of two atom sets; None when they contradict each other on names whose value cannot have changed."""
        vol = self.assigned - self.stable
        for a in c2:
            if _contradicts(a, c1) and not any(w in vol for x in a[1:] if isinstance(x, str) for w in _words(x)):
                return None
        return frozenset(c1) | frozenset(c2)

    # -- locations
    def stmt_of(self, node):
        if self._pm is None:
            self._pm = {}
            for n in ast.walk(self.fn):
                for c in ast.iter_child_nodes(n):
                    self._pm[c] = n
        while node is not None and not isinstance(node, ast.stmt):
            node = self._pm.get(node)
        return node

    def before(self, a, b):
        return self.order[id(a)] < self.order[id(b)]

    def loops_around(self, stmt):
        bp = block_path(self.fn, stmt) or []
        return [o for (_, _, o) in bp if isinstance(o, (ast.For, ast.While))]

    # -- conditions
    def cond(self, test, pol, at):
        """Atoms of `test` having truth value pol at statement `at`; names that are locals are resolved first."""
        t = test
        if at is not None and not _free_names(test) <= self.params:
            cs = self.cases(test, at, path=False)
            if len(cs) == 1 and not cs[0][0]:
                t = cs[0][1]
            else:
                return frozenset({('true' if pol else 'false', f'{u(test)}@{getattr(test, "lineno", 0)}')})
        a = atoms(t, pol)
        if a is None:
            return frozenset({('true' if pol else 'false', u(t))})
        return frozenset(a)

    def path(self, at):
        """Path condition of a statement (structured guards incl. early exits), as atoms."""
        key = ('path', id(at))
        if key not in self._memo:
            c = frozenset()
            for t, p in self.gm.get(at, ()):
                c = c | self.cond(t, p, self.test_owner.get(id(t)))
            self._memo[key] = c
        return self._memo[key]

    # -- reaching definitions, per path
    def _scan(self, block, upto, name):
        found, open_ = [], [()]
        for s in reversed(block[:upto]):
            if binds(s, name):
                d = s if not isinstance(s, (ast.For, ast.AsyncFor)) else AMBIGUOUS
                return found + [(g, d) for g in open_], []
            if not binds_deep(s, name):
                continue
            if isinstance(s, ast.If):
                nf, no = [], []
                for branch, pol in ((s.body, True), (s.orelse, False)):
                    if always_exits(branch):
                        continue
                    f, o = self._scan(branch, len(branch), name)
                    nf += [(((s.test, pol, s),) + g, d) for g, d in f]
                    no += [((s.test, pol, s),) + g for g in o]
            elif isinstance(s, (ast.With, ast.AsyncWith)):
                nf, no = self._scan(s.body, len(s.body), name)
            else:
                return found + [(g, AMBIGUOUS) for g in open_], []
            found += [(g0 + g, d) for g0 in open_ for g, d in nf]
            open_ = [g0 + g for g0 in open_ for g in no]
            if not open_:
                break
        return found, open_

    def rdefs(self, name, stmt):
        """[(guards, definition)]: definition = statement node / PARAM / AMBIGUOUS / None (global or builtin)."""
        path = block_path(self.fn, stmt)
        if path is None:
            return [((), AMBIGUOUS)]
        found, open_ = [], [()]
        for block, idx, owner in reversed(path):
            f, o = self._scan(block, idx, name)
            found += [(g0 + g, d) for g0 in open_ for g, d in f]
            open_ = [g0 + g for g0 in open_ for g in o]
            if not open_:
                break
            d = None
            if isinstance(owner, (ast.For, ast.AsyncFor)) and binds(owner, name):
                d = owner
            elif isinstance(owner, (ast.For, ast.AsyncFor, ast.While)) and any(binds_deep(s, name) for s in block):
                d = AMBIGUOUS
            elif isinstance(owner, (ast.With, ast.AsyncWith)) and binds(owner, name):
                d = owner
            elif isinstance(owner, ast.Try) and binds_deep(owner, name):
                d = AMBIGUOUS
            if d is not None:
                found += [(g, d) for g in open_]
                open_ = []
                break
        if open_:
            found += [(g, PARAM if name in self.params else None) for g in open_]
        return found

    def options(self, name, at):
        key = ('opt', name, id(at))
        if key in self._memo:
            return self._memo[key]
        if name in self.params:
            out = [(frozenset(), _tag(name, PARAM))]
        else:
            out = []
            for guards, d in self.rdefs(name, at):
                c = frozenset()
                for t, p, owner in guards:
                    c = self.conj(c, self.cond(t, p, owner)) if c is not None else None
                if c is None:
                    continue
                v = self._def_value(d, name) if isinstance(d, ast.AST) else None
                if isinstance(d, ast.AST) and (name, id(d)) in self.overrides:
                    for c2, e2 in self.overrides[(name, id(d))]:
                        # per-item value of a loop target, as an expression of the function: resolved where the loop stands
                        for c3, e3 in self.cases(e2, d, path=False):
                            cc = self.conj(c, self.conj(c2, c3) or frozenset()) if self.conj(c2, c3) is not None else None
                            if cc is not None:
                                out.append((cc, e3))
                elif v is not None:
                    for c2, e2 in self.cases(v, d, path=False):
                        cc = self.conj(c, c2)
                        if cc is not None:
                            out.append((cc, e2))
                else:
                    out.append((c, _tag(name, d)))
        self._memo[key] = out
        return out

    @staticmethod
    def _def_value(d, name):
        """The expression whose value `name` gets from definition statement d (evaluated where d stands), else None:
        x = e;  x: T = e;  x op= e (== x op e);  a, x, b = ea, ex, eb (parallel assignment: all right sides are evaluated first)."""
        v = def_value(d)
        if v is not None:
            return v
        if isinstance(d, ast.AugAssign) and isinstance(d.target, ast.Name) and d.target.id == name:
            return ast.copy_location(ast.BinOp(left=ast.Name(id=name, ctx=ast.Load()), op=d.op, right=d.value), d)
        if isinstance(d, ast.Assign) and len(d.targets) == 1 and isinstance(d.targets[0], (ast.Tuple, ast.List)) and isinstance(d.value, (ast.Tuple, ast.List)) \
                and len(d.targets[0].elts) == len(d.value.elts) and not any(isinstance(x, ast.Starred) for x in d.targets[0].elts + d.value.elts):
            hits = [k for k, t in enumerate(d.targets[0].elts) if isinstance(t, ast.Name) and t.id == name]
            if len(hits) == 1 and all(isinstance(t, ast.Name) for t in d.targets[0].elts):
                return d.value.elts[hits[0]]
        return None

    # -- calls of local accessor functions (closures defined in the analysed function)
    def _local_defs(self, name, at):
        if name in self.params:
            return None
        rd = self.rdefs(name, at)
        if not any(isinstance(d, (ast.FunctionDef, ast.AsyncFunctionDef)) for _, d in rd):
            return None
        if not all(isinstance(d, ast.FunctionDef) for _, d in rd):
            raise Undecided(f'{self.fi.name}: `{name}` is a local function on some paths only')
        return rd

    def _beta(self, fdef, call):
        """Value of call(args) for a local function that is a single `return <expr>`: the expression with the parameters replaced
        by the argument expressions.  Its free names are read when it is called, i.e. they resolve at the call site."""
        what = f'{self.fi.name}: call of local function {fdef.name}()'
        body = [x for x in fdef.body if not (isinstance(x, ast.Expr) and isinstance(x.value, ast.Constant))]
        a = fdef.args
        if len(body) != 1 or not isinstance(body[0], ast.Return) or body[0].value is None or fdef.decorator_list or a.vararg or a.kwarg or a.kwonlyargs or a.posonlyargs:
            raise Undecided(f'{what}: its body is not a single return of an expression')
        if any(isinstance(x, ast.Starred) for x in call.args) or any(k.arg is None for k in call.keywords) or len(call.args) > len(a.args):
            raise Undecided(f'{what}: star arguments')
        names = [x.arg for x in a.args]
        mp = dict(zip(names, call.args))
        for k in call.keywords:
            if k.arg not in names or k.arg in mp:
                raise Undecided(f'{what}: keyword {k.arg}')
            mp[k.arg] = k.value
        defaults = dict(zip(names[len(names) - len(a.defaults):], a.defaults))
        for nm in names:
            if nm not in mp:
                if nm not in defaults or not isinstance(defaults[nm], ast.Constant):
                    raise Undecided(f'{what}: parameter {nm} not supplied')
                mp[nm] = defaults[nm]
        v = body[0].value
        if any(isinstance(x, (ast.Lambda, ast.ListComp, ast.SetComp, ast.DictComp, ast.GeneratorExp, ast.NamedExpr, ast.Yield, ast.Await)) for x in ast.walk(v)):
            raise Undecided(f'{what}: its body binds names of its own')
        return _clone(v, lambda n: mp.get(n.id) if isinstance(n, ast.Name) and isinstance(n.ctx, ast.Load) and not hasattr(n, 'bind') and n.id in mp else None)

    def _calls(self, expr, at, depth=0):
        node = None
        for n in ast.walk(expr):
            if isinstance(n, ast.Call) and isinstance(n.func, ast.Name) and not hasattr(n.func, 'bind'):
                rd = self._local_defs(n.func.id, at)
                if rd is not None:
                    node = n
                    break
        if node is None:
            return [(frozenset(), expr)]
        if depth > 8:
            raise Undecided(f'{self.fi.name}: local function calls nested too deeply in `{u(expr)[:50]}`')
        out = []
        for guards, fdef in rd:
            c0 = frozenset()
            for t, p, owner in guards:
                c0 = self.conj(c0, self.cond(t, p, owner)) if c0 is not None else None
            if c0 is None:
                continue
            val = self._beta(fdef, node)
            e2 = _clone(expr, lambda n: val if n is node else None)
            for c, e in self._calls(e2, at, depth + 1):
                cc = self.conj(c0, c)
                if cc is not None:
                    out.append((cc, e))
        return out

    def _split(self, expr, at):
        node = next((n for n in ast.walk(expr) if isinstance(n, ast.IfExp)), None)
        if node is None:
            return [(frozenset(), expr)]
        out = []
        for pol, branch in ((True, node.body), (False, node.orelse)):
            c0 = self.cond(node.test, pol, at)
            e2 = _clone(expr, lambda n: branch if n is node else None)
            for c, e in self._split(e2, at):
                cc = self.conj(c0, c)
                if cc is not None:
                    out.append((cc, e))
        return out

    def cases(self, expr, at, path=True):
        """Every value `expr` can have at statement `at`, one per feasible path: [(atoms, resolved expression)]."""
        base = self.path(at) if path else frozenset()
        out = []
        for c1, e1 in [(self.conj(ca, cb), eb) for ca, ea in self._calls(expr, at) for cb, eb in self._split(ea, at)]:
            c = self.conj(base, c1) if c1 is not None else None
            if c is None:
                continue
            res = [(c, {})]
            for nm in sorted(_free_names(e1)):
                new = []
                for c0, mp in res:
                    for c2, r in self.options(nm, at):
                        cc = self.conj(c0, c2)
                        if cc is not None:
                            new.append((cc, dict(mp, **{nm: r})))
                res = new
                if len(res) > self.LIMIT:
                    raise Undecided(f'{self.fi.name}: more than {self.LIMIT} value cases for `{u(expr)[:60]}`')
            for c0, mp in res:
                out.append((c0, _clone(e1, lambda n, mp=mp: mp.get(n.id) if isinstance(n, ast.Name) and isinstance(n.ctx, ast.Load) and not hasattr(n, 'bind') else None)))
        return out

    def show(self, cs):
        return [f'{u(e)}' + (f' if {sorted(c)}' if c else '') for c, e in cs]


def mode(cond, atom_true, atom_false, what):
    """True / False when the condition fixes the selector, None when the case holds for both; any other atom that mentions
    the selector is outside what the rule can compare -> Undecided."""
    if atom_true in cond:
        return True
    if atom_false in cond:
        return False
    name = atom_true[-1]
    for a in cond:
        if any(isinstance(x, str) and name in [w for w in _words(x)] for x in a[1:]):
            raise Undecided(f'{what}: condition {a} on `{name}` is not one of {atom_true} / {atom_false}')
    return None


def _words(text):
    w = ''
    for ch in text:
        if ch.isalnum() or ch == '_':
            w += ch
        else:
            if w:
                yield w
            w = ''
    if w:
        yield w


def selector_stable(V, name, allow_asarray):
    """Conditions on a selector parameter are compared textually across statements: it must not be rebound in a way that
    changes them (np.asarray(x) under `x is not None` keeps x non-None)."""
    for s in assigns_to(V.fn, name):
        ok = allow_asarray and isinstance(s, ast.Assign) and len(s.targets) == 1 and isinstance(s.targets[0], ast.Name) and isinstance(s.value, ast.Call) \
            and u(s.value.func) in ('np.asarray', 'numpy.asarray', 'np.asanyarray', 'np.array') and s.value.args and u(s.value.args[0]) == name and ('isnot', 'None', name) in V.path(s)
        if not ok:
            raise Undecided(f'{V.fi.name}: `{name}` is rebound by `{u(s)[:60]}`; conditions on it cannot be compared across statements')
    V.stable.add(name)
    V._memo.clear()


# ---------------------------------------------------------------------- index normal form

FULL = ('full',)


def _slice_nf(lo, hi, step, aff):
    if step is not None and not is_const(step, 1) and not is_none(step):
        raise Undecided(f'slice with step {u(step)}')
    def bound(b):
        if b is None or is_none(b):
            return None
        v = aff(b)
        return v if v is not None else ('expr', u(b))
    lo, hi = bound(lo), bound(hi)
    if lo is None and hi is None:
        return FULL
    return ('slice', lo, hi)


def index_elem(e, aff, slice_vars=()):
    """Normal form of one index element: FULL | ('slice', lo, hi) | ('slicevar', name) | ('int', Aff)."""
    if isinstance(e, ast.Slice):
        return _slice_nf(e.lower, e.upper, e.step, aff)
    if isinstance(e, ast.Call) and isinstance(e.func, ast.Name) and e.func.id == 'slice' and not e.keywords and 1 <= len(e.args) <= 3:
        a = list(e.args)
        if len(a) == 1:
            a = [None, a[0]]
        return _slice_nf(a[0], a[1], a[2] if len(a) == 3 else None, aff)
    for sv in slice_vars:
        if term(e, sv.id, sv.bind):
            return ('slicevar', sv.id)
    v = aff(e)
    if v is None:
        raise Undecided(f'index element `{u(e)}` is neither a slice nor an affine integer expression')
    return ('int', v)


def view_axes(e, base, aff, slice_vars=()):
    """e = base[...][...]... -> {axis of base: normal form} (composition of basic indexing steps); None if e is not a view of
    `base`.  Only steps whose composition is evident are accepted (an axis is indexed once; `:` leaves it alone)."""
    steps = []
    while isinstance(e, ast.Subscript):
        steps.append(e.slice)
        e = e.value
    if not term(e, base, PARAM):
        return None
    axes, visible, nxt = {}, [], 0
    for sl in reversed(steps):
        elts = list(sl.elts) if isinstance(sl, ast.Tuple) else [sl]
        keep = []
        for k, x in enumerate(elts):
            while len(visible) <= k:
                visible.append(nxt)
                nxt += 1
            ax = visible[k]
            nf = index_elem(x, aff, slice_vars)
            if nf == FULL:
                keep.append(ax)
                continue
            if axes.get(ax, FULL) != FULL:
                raise Undecided(f'axis {ax} of `{base}` is indexed twice ({u(x)} after a slice); composition not evaluated')
            axes[ax] = nf
            if nf[0] != 'int':
                keep.append(ax)
        visible = keep + visible[len(elts):]
    return axes


def _cmp_facts(test, pol):
    """Comparisons implied by `test` having truth value pol: [(kind, left, right)], kind in eq / ne / is / isnot."""
    if isinstance(test, ast.UnaryOp) and isinstance(test.op, ast.Not):
        return _cmp_facts(test.operand, not pol)
    if isinstance(test, ast.BoolOp):
        if isinstance(test.op, ast.And) == pol:
            return [f for v in test.values for f in _cmp_facts(v, pol)]
        return []
    if isinstance(test, ast.Compare) and len(test.ops) == 1:
        t = type(test.ops[0])
        k = {ast.Eq: ('eq', 'ne'), ast.NotEq: ('ne', 'eq'), ast.Is: ('is', 'isnot'), ast.IsNot: ('isnot', 'is')}.get(t)
        if k:
            return [(k[0] if pol else k[1], test.left, test.comparators[0])]
    return []


def paths_to(fn, target, name):
    """Structured paths from the entry of fn to statement `target`, as far as `name` is concerned: [(facts, rebound)], facts =
    [(test, polarity, if statement)] of the conditionals on the path that mention `name` (or contain statements that do), killed
    when the path rebinds `name`.  Conditionals that have nothing to do with `name` are not split (superset of paths)."""
    def mentions(node):
        return any(isinstance(n, ast.Name) and n.id == name for n in ast.walk(node))

    def inside(s):
        return any(n is target for n in ast.walk(s))

    def fall(block, states):
        """states that fall out of the end of the block"""
        for s in block:
            if not states:
                break
            states = step(s, states)
        return states

    def step(s, states):
        if isinstance(s, (ast.Raise, ast.Return, ast.Break, ast.Continue)):
            return []
        if isinstance(s, (ast.FunctionDef, ast.AsyncFunctionDef, ast.ClassDef)) or not mentions(s):
            return states
        if isinstance(s, ast.If):
            return fall(s.body, [(f + ((s.test, True, s),), r) for f, r in states]) + fall(s.orelse, [(f + ((s.test, False, s),), r) for f, r in states])
        if isinstance(s, (ast.For, ast.AsyncFor, ast.While)):
            return states + fall(s.body, states)
        if isinstance(s, (ast.With, ast.AsyncWith)):
            return fall(s.body, states)
        if isinstance(s, ast.Try):
            raise Undecided(f'{fn.name}: `{name}` is handled inside a try statement')
        if binds(s, name):
            return [((), True) for _ in states][:1]
        return states

    def reach(block, states):
        """states at `target`, None if target is not in this block"""
        for s in block:
            if s is target:
                return states
            if inside(s):
                if isinstance(s, ast.If):
                    r = reach(s.body, [(f + ((s.test, True, s),), rb) for f, rb in states])
                    return r if r is not None else reach(s.orelse, [(f + ((s.test, False, s),), rb) for f, rb in states])
                for fld in ('body', 'orelse', 'finalbody'):
                    b = getattr(s, fld, None)
                    if isinstance(b, list) and b and isinstance(b[0], ast.stmt):
                        r = reach(b, states)
                        if r is not None:
                            return r
                return None
            states = step(s, states)
        return None
    return reach(fn.body, [((), False)])


def buffer_validated(V, writes, alloc):
    """On every path that reaches a statement writing cells into a buffer supplied by the caller (`out` not rebound on the path), the
    path condition implies out.shape == <the shape a missing buffer is allocated with> and out.dtype == SCORE_DTYPE - whatever the
    spelling of the check (if/elif chain, guard clauses, nested ifs, expanded helper).  Returns (ok, description of the failure)."""
    def shape_cases(e, at):
        out = set()
        for cond, x in V.cases(e, at, path=False):
            scalar = not isinstance(x, (ast.Tuple, ast.List)) and not term(x)
            out.add((frozenset(cond), f'({u(x)},)' if scalar else u(x)))
        return out
    want = None
    if alloc is not None and isinstance(alloc.value, ast.Call):
        sh = get_arg(alloc.value, 0, 'shape')
        want = shape_cases(sh, alloc) if isinstance(sh, ast.AST) else None
    unknown = [x for x in V.stmts if isinstance(x, ast.If) and any(isinstance(n, ast.Attribute) and n.attr in ('shape', 'dtype', 'ndim', 'size') and _root(n) == 'out' for n in ast.walk(x.test))
               and not _cmp_facts(x.test, True) and not _cmp_facts(x.test, False)]
    for w in writes:
        ps = paths_to(V.fn, w, 'out')
        if ps is None:
            continue
        for facts, rebound in ps:
            if rebound:
                continue
            cf = [(k, l, r, st) for t, pol, st in facts for k, l, r in _cmp_facts(t, pol)]
            if any(k == 'is' and {u(l), u(r)} == {'out', 'None'} for k, l, r, _ in cf):
                continue    # no buffer on this path (the allocation rule's business)
            shape_eq = [(l, r, st) for k, l, r, st in cf if k == 'eq' and 'out.shape' in (u(l), u(r))]
            shape_ne = [1 for k, l, r, st in cf if k == 'ne' and 'out.shape' in (u(l), u(r))]
            dt_eq = [1 for k, l, r, st in cf if k == 'eq' and {u(l), u(r)} == {'out.dtype', 'SCORE_DTYPE'}]
            dt_ne = [1 for k, l, r, st in cf if k == 'ne' and {u(l), u(r)} == {'out.dtype', 'SCORE_DTYPE'}]
            where = f'`{u(w)[:50]}` is reached with the caller\'s buffer under {[("" if pol else "not ") + u(t)[:40] for t, pol, _ in facts]}'
            if shape_ne or dt_ne:
                return False, f'{where}: the buffer is known to have the WRONG {"shape" if shape_ne else "dtype"} there'
            if (not shape_eq or not dt_eq) and unknown:
                raise Undecided(f'{V.fi.name}: the output buffer is tested by `{u(unknown[0].test)[:60]}`, a form of shape / dtype check the rule does not evaluate')
            if not shape_eq:
                return False, f'{where}: nothing on that path implies out.shape == expected shape'
            if not dt_eq:
                return False, f'{where}: nothing on that path implies out.dtype == SCORE_DTYPE'
            if want is not None:
                for l, r, st in shape_eq:
                    e = r if u(l) == 'out.shape' else l
                    got = shape_cases(e, st)
                    if got != want:
                        return False, f'{where}: the shape compared, {sorted(t for _, t in got)}, is not the shape a missing buffer is allocated with, {sorted(t for _, t in want)}'
    return True, None


def out_aliases(fi):
    """Names that may be / must be views of the output buffer: `out` itself, locals defined as subscripts of a view, and loop
    variables iterating over a view.  (may: some definition is a view - stores through it are checked; must: all are.)"""
    may = {'out'}
    changed = True
    while changed:
        changed = False
        for s in stmts_in(fi.node.body):
            if isinstance(s, ast.Assign) and len(s.targets) == 1 and isinstance(s.targets[0], ast.Name) and s.targets[0].id not in may:
                v = s.value
                cands = [v.body, v.orelse] if isinstance(v, ast.IfExp) else [v]
                if any(isinstance(c, ast.Subscript) and _root(c) in may for c in cands):
                    may.add(s.targets[0].id)
                    changed = True
            if isinstance(s, (ast.For, ast.AsyncFor)) and isinstance(s.iter, (ast.Subscript, ast.Name)) and _root(s.iter) in may:
                for t in ast.walk(s.target):
                    if isinstance(t, ast.Name) and t.id not in may:
                        may.add(t.id)
                        changed = True
    must = set(may)
    changed = True
    while changed:
        changed = False
        for n in sorted(must - {'out'}):
            for s in assigns_to(fi.node, n):
                v = s.value if isinstance(s, ast.Assign) and len(s.targets) == 1 and isinstance(s.targets[0], ast.Name) else None
                cands = [v.body, v.orelse] if isinstance(v, ast.IfExp) else [v]
                if not all(isinstance(c, ast.Subscript) and _root(c) in must for c in cands):
                    must.discard(n)
                    changed = True
                    break
    return may, must


def _is_cell_copy(e, must):
    """e reads cells of the output buffer: a subscript of `out` / of a local that is always a view of it, or such a view itself."""
    if isinstance(e, ast.Name) and not hasattr(e, 'bind'):
        return e.id in must and e.id != 'out'
    if not isinstance(e, ast.Subscript):
        return False
    while isinstance(e, (ast.Subscript, ast.Attribute)):
        e = e.value
    if term(e):
        return e.id == 'out' and e.bind is PARAM
    return isinstance(e, ast.Name) and e.id in must


# ---------------------------------------------------------------------- type dispatch written with functools.singledispatch
# `G(x, a, b)` where G is a functools.singledispatch generic function with ONE registration `@G.register(T)` is
# `if isinstance(x, T): <registered body> else: <generic body>` (dispatch is on the class of the first argument; for one concrete
# registered class the MRO lookup is the isinstance test).  The anchor function is analysed in that form: a copy of its body in
# which the dispatching call statement is replaced by the two bodies, parameters replaced by the arguments.

def _procedure_body(impl, call, host_names, what):
    """Statements of impl's body as they run for this call (arguments must be plain names; the body may not return a value)."""
    import copy
    a = impl.node.args
    if a.vararg or a.kwarg or a.kwonlyargs or a.posonlyargs or any(isinstance(x, ast.Starred) for x in call.args) or any(k.arg is None for k in call.keywords):
        raise Undecided(f'{what}: star / keyword-only parameters')
    names = [x.arg for x in a.args]
    mp = dict(zip(names, call.args))
    for k in call.keywords:
        if k.arg not in names or k.arg in mp:
            raise Undecided(f'{what}: keyword {k.arg}')
        mp[k.arg] = k.value
    if set(mp) != set(names):
        raise Undecided(f'{what}: arguments do not match the parameters of {impl.name}')
    body = [x for x in impl.node.body if not (isinstance(x, ast.Expr) and isinstance(x.value, ast.Constant))]
    for n in [y for x in body for y in ast.walk(x)]:
        if isinstance(n, (ast.Yield, ast.YieldFrom, ast.Await, ast.Global, ast.Nonlocal, ast.FunctionDef, ast.AsyncFunctionDef, ast.ClassDef, ast.Lambda)) or (isinstance(n, ast.Return) and n.value is not None):
            raise Undecided(f'{what}: the body of {impl.name} returns a value / defines functions')
    if any(isinstance(n, ast.Return) for x in body for n in ast.walk(x)):
        raise Undecided(f'{what}: the body of {impl.name} leaves early')
    stored = {n.id for x in body for n in ast.walk(x) if isinstance(n, ast.Name) and isinstance(n.ctx, ast.Store)}
    if stored & set(names):
        raise Undecided(f'{what}: {impl.name} rebinds its parameter(s) {sorted(stored & set(names))}')
    ren = {p: v.id for p, v in mp.items() if isinstance(v, ast.Name)}
    taken = set(host_names) | set(ren.values())
    prelude = []
    for p_, v in mp.items():          # an argument that is not a plain name is evaluated into a local of its own first
        if not isinstance(v, ast.Name):
            k = 1
            while f'{p_}__d{k}' in taken:
                k += 1
            ren[p_] = f'{p_}__d{k}'
            taken.add(ren[p_])
            prelude.append(ast.copy_location(ast.Assign(targets=[ast.Name(id=ren[p_], ctx=ast.Store())], value=copy.deepcopy(v)), call))
    for loc in sorted(stored):
        if loc in taken:
            k = 1
            while f'{loc}__d{k}' in taken:
                k += 1
            ren[loc] = f'{loc}__d{k}'
            taken.add(ren[loc])
    body = copy.deepcopy(body)
    for x in body:
        for n in ast.walk(x):
            if isinstance(n, ast.Name) and n.id in ren:
                n.id = ren[n.id]
    return prelude + body


def anchor(m, qualname):
    """The anchor function as the rules analyse it: singledispatch calls made as statements are replaced by the isinstance dispatch
    they perform (see above).  Functions without such calls are returned as they are."""
    cache = m.__dict__.setdefault('_c05_anchor', {})
    if qualname in cache:
        return cache[qualname]
    from ..model import FuncInfo
    import copy
    fi = m.func(qualname)
    sites = []
    for st in stmts_in(fi.node.body):
        if isinstance(st, ast.Expr) and isinstance(st.value, ast.Call):
            g = m.functions.get(m.resolve_call(fi, st.value) or '')
            if g is not None and any(isinstance(d, (ast.Name, ast.Attribute)) and m.resolve(g.module, d) == 'functools.singledispatch' for d in g.decorators):
                sites.append((st, g))
    if not sites:
        cache[qualname] = fi
        return fi
    node = copy.deepcopy(fi.node)
    pairs = [(a, b) for a, b in zip(stmts_in(fi.node.body), stmts_in(node.body))]
    host_names = {n.id for n in ast.walk(fi.node) if isinstance(n, ast.Name)} | {a.arg for a in ast.walk(fi.node) if isinstance(a, ast.arg)}
    for st, g in sites:
        what = f'{fi.name}: call of the singledispatch function {g.name}()'
        regs = []
        for f2 in m.all_functions():
            for d in f2.decorators:
                base = d.func if isinstance(d, ast.Call) else d
                if isinstance(base, ast.Attribute) and base.attr == 'register' and m.resolve(f2.module, base.value) == g.qualname:
                    t = d.args[0] if isinstance(d, ast.Call) and len(d.args) == 1 and not d.keywords else (f2.node.args.args[0].annotation if not isinstance(d, ast.Call) and f2.node.args.args else None)
                    regs.append((f2, t))
        uses = sum(1 for mod in m.modules.values() if mod.kind == 'py' for n in ast.walk(mod.tree) if isinstance(n, ast.Attribute) and n.attr in ('register', 'dispatch', 'registry')
                   and isinstance(n.value, (ast.Name, ast.Attribute)) and m.resolve(mod, n.value) == g.qualname)
        if len(regs) != 1 or uses != 1 or regs[0][1] is None or regs[0][0].module is not g.module or g.module is not fi.module or len(g.decorators) != 1 or len(regs[0][0].decorators) != 1:
            raise Undecided(f'{what}: expected exactly one `@{g.name}.register(<class>)` implementation in the same module ({len(regs)} registrations, {uses} uses of register/dispatch)')
        impl, tp = regs[0]
        call = st.value
        first = get_arg(call, 0, g.params()[0] if g.params() else None)
        if not isinstance(first, ast.Name):
            raise Undecided(f'{what}: the dispatch argument is not a plain name')
        body_t = _procedure_body(impl, call, host_names, what)
        body_d = _procedure_body(g, call, host_names, what)
        test = ast.Call(func=ast.Name(id='isinstance', ctx=ast.Load()), args=[ast.Name(id=first.id, ctx=ast.Load()), copy.deepcopy(tp)], keywords=[])
        new = ast.copy_location(ast.If(test=test, body=body_t or [ast.Pass()], orelse=body_d or [ast.Pass()]), st)
        twin = next(b for a, b in pairs if a is st)
        for parent in ast.walk(node):
            for fld in ('body', 'orelse', 'finalbody'):
                blk = getattr(parent, fld, None)
                if isinstance(blk, list) and any(x is twin for x in blk):
                    blk[blk.index(twin)] = new
        ast.fix_missing_locations(node)
    out = FuncInfo(fi.qualname, node, fi.module, fi.cls)
    cache[qualname] = out
    return out


GATE = f'{MET}._cast_sigs_array'
WRAPPER = f'{MET}.jaccarddist'      # the public two-signature function: kernel value of its two gated operands (verified when relied upon)


def _is_cast(m, fi, e):
    """e is a call of the dtype gate _cast_sigs_array (wherever it lives now / under whatever name it is imported) on one operand."""
    if isinstance(e, ast.Call) and term(e.func, '__gate__', 'gate') and len(e.args) == 1:
        return True
    return isinstance(e, ast.Call) and m.resolve_call(fi, e) == GATE and len(e.args) == 1 and not e.keywords and not isinstance(e.args[0], ast.Starred)


def elementwise_gate(m, fi, e):
    """The sequence X when e is `the gate applied to every element of X, in order`: map(gate, X), [gate(x) for x in X],
    (gate(x) for x in X), possibly inside list() / tuple() / iter(); None otherwise."""
    if isinstance(e, ast.Call) and isinstance(e.func, ast.Name) and e.func.id in ('list', 'tuple', 'iter') and len(e.args) == 1 and not e.keywords:
        return elementwise_gate(m, fi, e.args[0])
    if isinstance(e, ast.Call) and isinstance(e.func, ast.Name) and e.func.id == 'map' and len(e.args) == 2 and not e.keywords and isinstance(e.args[0], (ast.Name, ast.Attribute)) \
            and m.resolve(fi.module, e.args[0]) == GATE:
        return e.args[1]
    if isinstance(e, (ast.ListComp, ast.GeneratorExp)) and len(e.generators) == 1 and not e.generators[0].ifs and not e.generators[0].is_async and isinstance(e.generators[0].target, ast.Name) \
            and _is_cast(m, fi, e.elt) and isinstance(e.elt.args[0], ast.Name) and e.elt.args[0].id == e.generators[0].target.id:
        return e.generators[0].iter
    return None


def positional(m, fi, call):
    """The positional operands of a call with `*` spreads resolved: f(*(a, b)) and f(*h(a, b)) where h(*xs) returns the gate applied to
    every x in order (then the operands are gate(a), gate(b)); None when a spread cannot be resolved."""
    out = []
    for a in call.args:
        if not isinstance(a, ast.Starred):
            out.append(a)
            continue
        v = a.value
        if isinstance(v, (ast.Tuple, ast.List)) and not any(isinstance(x, ast.Starred) for x in v.elts):
            out.extend(v.elts)
            continue
        hf = m.functions.get(m.resolve_call(fi, v) or '') if isinstance(v, ast.Call) and not v.keywords and not any(isinstance(x, ast.Starred) for x in v.args) else None
        if hf is not None and hf.node.args.vararg is not None and not hf.node.args.args and not hf.node.args.kwonlyargs and not hf.node.args.posonlyargs and not hf.decorators:
            body = [st for st in hf.node.body if not (isinstance(st, ast.Expr) and isinstance(st.value, ast.Constant))]
            src = elementwise_gate(m, hf, body[0].value) if len(body) == 1 and isinstance(body[0], ast.Return) and body[0].value is not None else None
            if isinstance(src, ast.Name) and src.id == hf.node.args.vararg.arg:
                out.extend(ast.Call(func=_tag('__gate__', 'gate'), args=[x], keywords=[]) for x in v.args)
                continue
        return None
    return out


def kernel_value(m, fi, e):
    """(operand 1, operand 2, gated by the callee?) when e is the distance of two signatures computed by THE kernel: a call of the native
    two-signature kernel, or of the public wrapper around it (which gates both operands itself); None otherwise."""
    if not isinstance(e, ast.Call) or e.keywords:
        return None
    q = m.resolve_call(fi, e)
    if q not in KERNELS and q != WRAPPER:
        return None
    ops = positional(m, fi, e)
    if ops is None or len(ops) != 2:
        return None
    return ops[0], ops[1], q == WRAPPER


def _is_kernel(m, fi, e):
    return kernel_value(m, fi, e) is not None


def wrapper_ok(m):
    """The public two-signature function returns, on every path, the native kernel's value of (gate(first parameter), gate(second
    parameter)) - so a cell delegated to it is a kernel value.  -> (ok, description, site)"""
    if getattr(m, '_c05_wrapper', None) is None:
        fw = m.func(WRAPPER)
        VW = Vals(fw)
        ps = fw.params()
        rets = [x for x in VW.stmts if isinstance(x, ast.Return)]
        ok, found = bool(rets) and len(ps) == 2, []

        def gated_param(e, name, at):
            if _is_cast(m, fw, e) and term(e.args[0], name, PARAM):
                return not assigns_to(fw.node, name)
            bs = assigns_to(fw.node, name)      # or: the parameter itself, rebound once at the top of the function to its gated self
            return term(e, name, PARAM) and len(bs) == 1 and bs[0] in fw.node.body and isinstance(bs[0], ast.Assign) and _is_cast(m, fw, bs[0].value) and isinstance(bs[0].value.args[0], ast.Name) \
                and bs[0].value.args[0].id == name and VW.before(bs[0], at)
        for r in rets:
            cs = VW.cases(r.value, r) if r.value is not None else []
            found += VW.show(cs)
            ok = ok and bool(cs)
            for _, e in cs:
                kv = kernel_value(m, fw, e) if isinstance(e, ast.Call) and m.resolve_call(fw, e) in KERNELS else None
                ok = ok and kv is not None and gated_param(kv[0], ps[0], r) and gated_param(kv[1], ps[1], r)
        m._c05_wrapper = (ok, found, fw.site(rets[0] if rets else None))
    return m._c05_wrapper


def check_stores(ctx):
    rep, m = ctx.rep, ctx.model
    kinds = {}
    wrapper_noted = []
    deferred = []     # constructs outside the vocabulary: reported after every obligation of the three functions is evaluated
    for fname in ('jaccarddist_array', 'jaccarddist_matrix', 'jaccarddist_pairwise'):
        fi = anchor(m, f'{MET}.{fname}')
        rep.functions.add(fi.qualname)
        V = Vals(fi)
        al, must = out_aliases(fi)
        writes = []     # statements that write cells of the buffer (stores, kernels / delegates given a view of it)
        for s in stmts_in(fi.node.body):
            if isinstance(s, (ast.Assign, ast.AugAssign)) and any(isinstance(t, ast.Subscript) and _root(t) in al for t in (s.targets if isinstance(s, ast.Assign) else [s.target])):
                writes.append(s)
            if isinstance(s, ast.AugAssign) and _root(s.target) in al:
                rep.add('B1', fi.site(s), 'no arithmetic is performed on an output cell', False, expected='kernel value / copy / zero', found=u(s), stmt=s)
            if isinstance(s, ast.Assign):
                for t in s.targets:
                    if isinstance(t, ast.Subscript) and _root(t) in al:
                        v = s.value
                        # the stored value, through locals it may have been bound to first (one case per path)
                        cs = [(frozenset(), v)] if _is_kernel(m, fi, v) or (isinstance(v, (ast.Subscript, ast.Name)) and _root(v) in must) else V.cases(v, s)
                        if cs and all(_is_kernel(m, fi, e) for _, e in cs):
                            kinds.setdefault('kernel', []).append(s)
                            rep.add('B1', fi.site(s), 'the cell is the unmodified value of the two-signature kernel', True, found=u(v), stmt=s)
                            if any(kernel_value(m, fi, e)[2] for _, e in cs) and not wrapper_noted:
                                wrapper_noted.append(1)
                                okw, foundw, sitew = wrapper_ok(m)
                                rep.add('B1', sitew, 'the two-signature function a cell is delegated to returns the unmodified kernel value of its two gated operands', okw, expected='return <kernel>(gate(a), gate(b))', found=foundw,
                                        stmt='two-signature wrapper')
                        elif cs and all(_is_cell_copy(e, must) for _, e in cs):
                            kinds.setdefault('mirror', []).append(s)
                            rep.add('B1', fi.site(s), 'the cell is a copy of another cell of the same buffer', True, found=u(v), stmt=s)
                        else:
                            rep.add('B1', fi.site(s), 'every stored cell is a kernel value, a copy of a cell, or zero (no rounding / arithmetic / other source)', False,
                                    expected='_cmetric.jaccarddist(...) | out[...]', found=u(v) if len(cs) <= 1 else V.show(cs), stmt=s)
        for c in calls_in(fi.node):
            f = m.resolve_call(fi, c) or u(c.func)
            o = get_arg(c, 2, 'out') if f == f'{MET}.jaccarddist_array' else get_kw(c, 'out')
            uses_out = [a for a in list(c.args) + [k.value for k in c.keywords] if _root(a) in al] if not isinstance(c.func, ast.Attribute) or _root(c.func) not in al else [c.func]
            if not uses_out:
                continue
            if u(c.func) not in ('len',) and V.stmt_of(c) is not None and not isinstance(V.stmt_of(c), ast.Raise):
                writes.append(V.stmt_of(c))
            if f == f'{MET}.jaccarddist_array' and o is not None and _root(o) in al:
                kinds.setdefault('delegate', []).append(c)
                rep.add('B1', fi.site(c), 'cells are filled by jaccarddist_array writing into a view of the buffer', True, found=u(c)[:70], stmt=c)
            elif f == f'{PYX}._jaccarddist_parallel':
                kinds.setdefault('parallel', []).append(c)
                rep.add('B1', fi.site(c), 'cells are filled by the parallel kernel', True, found=u(c)[:70], stmt=c)
            elif u(c.func) in ('np.fill_diagonal', 'numpy.fill_diagonal'):
                ok = _root(c.args[0]) in al and is_const(c.args[1], 0)
                kinds.setdefault('diagonal', []).append(c)
                rep.add('B1', fi.site(c), 'the diagonal is exactly zero (bit-identical to d(x, x))', ok, expected='np.fill_diagonal(out, 0)', found=u(c), stmt=c)
            elif u(c.func) in ('len',) or callee_attr(c) in ('increment',):
                continue
            elif isinstance(c.func, ast.Attribute) and _root(c.func) in al:
                rep.add('B1', fi.site(c), 'no in-place method touches the output buffer', False, expected='none', found=u(c), stmt=c)
            else:
                from ..inline import known_symbols
                if f in m.functions and f not in known_symbols() and m.moved.get(f, f) not in known_symbols():
                    # a helper of the package that was not there before and could not be expanded in place: what it does with the buffer is
                    # decided by its body, which this rule does not interpret
                    deferred.append(f'{fi.name}: the output buffer is handed to the new helper {f}() (not expanded in place); its stores are not evaluated')
                    continue
                rep.add('B1', fi.site(c), 'the output buffer is not handed to anything but the kernels', False, expected='jaccarddist_array / _jaccarddist_parallel / fill_diagonal', found=u(c)[:70], stmt=c)
        rets = [s for s in stmts_in(fi.node.body) if isinstance(s, ast.Return)]
        rep.add('B1', fi.site(rets[-1] if rets else None), 'the buffer is returned as filled', bool(rets) and all(u(r.value) == 'out' for r in rets), expected='return out', found=[u(r.value) for r in rets], stmt=f'{fname} return')
        # out allocation: np.empty(shape, SCORE_DTYPE) under `out is None`; caller buffers validated for shape and dtype
        gm = guard_map(fi.node)
        allocs = [s for s in stmts_in(fi.node.body) if isinstance(s, ast.Assign) and u(s.targets[0]) == 'out']
        oka = len(allocs) == 1 and isinstance(allocs[0].value, ast.Call) and u(allocs[0].value.func) == 'np.empty' and u(get_arg(allocs[0].value, 1, 'dtype')) == 'SCORE_DTYPE' \
            and ('is', 'None', 'out') in path_atoms(gm[allocs[0]])
        rep.add('B1', fi.site(allocs[0] if allocs else None), 'a missing output buffer is allocated as float32 (no widening/narrowing of kernel values)', oka, expected='out = np.empty(shape, SCORE_DTYPE) under out is None',
                found=[u(a) for a in allocs], stmt=f'{fname} alloc')
        rs = [s for s in stmts_in(fi.node.body) if isinstance(s, ast.Raise)]
        okb, why = buffer_validated(V, writes, allocs[0] if len(allocs) == 1 else None)
        rep.add('B1', fi.site(rs[0] if rs else None), 'a caller-supplied buffer must have the exact shape and float32 dtype', okb, expected='every path that reaches a store with the caller\'s buffer implies out.shape == <allocation shape> and '
                'out.dtype == SCORE_DTYPE (raise ValueError on mismatch)', found=why or [u(r)[:50] for r in rs], stmt=f'{fname} buffer validation')
    if deferred:
        raise Undecided(deferred[0])
    rep.floor('B1', 'store kinds seen', len(kinds), 4)
    rep.info['store_kinds'] = {k: len(v) for k, v in kinds.items()}


def check_prange(ctx):
    rep, m = ctx.rep, ctx.model
    fi = m.func(f'{PYX}._jaccarddist_parallel')
    rep.functions.add(fi.qualname)
    q, rc, rb, out = fi.params()[:4]
    loops = [s for s in fi.node.body if isinstance(s, ast.For) and isinstance(s.iter, ast.Call) and u(s.iter.func) in ('prange', 'parallel.prange')]
    rep.floor('B2', 'prange loops in _jaccarddist_parallel', len(loops), 1)
    loop = loops[0]
    iv = u(loop.target)
    locals_decl = set(fi.module.side.get('types', {}).get(fi.name, {})) - set(fi.params())
    env = {}
    for s in fi.node.body:
        if isinstance(s, ast.AnnAssign) and s.value is not None and isinstance(s.target, ast.Name):
            a = Aff.try_of(s.value, {f'{rb}.shape[0]': sym('NB'), f'len({rb})': sym('NB')})
            if a is not None:
                env[s.target.id] = a
    n_arg = Aff.try_of(loop.iter.args[0], env)
    rep.add('B2', fi.site(loop), 'the loop covers every reference: N == len(ref_bounds) - 1', n_arg == sym('NB').plus(-1), expected='ref_bounds.shape[0] - 1', found=n_arg, stmt='prange bound')
    rep.add('B2', fi.site(loop), 'the prange releases the GIL', is_const(get_kw(loop.iter, 'nogil'), True), expected='nogil=True', found=u(get_kw(loop.iter, 'nogil')), stmt='prange nogil')
    stores, others = [], []
    for s in stmts_in(loop.body):
        if isinstance(s, ast.Assign):
            for t in s.targets:
                if isinstance(t, ast.Subscript):
                    stores.append((t, s))
                elif isinstance(t, ast.Name):
                    others.append((t.id, s))
                else:
                    raise Undecided(f'_jaccarddist_parallel: assignment target {u(t)}')
        elif isinstance(s, ast.AugAssign):
            tname = _root(s.target)
            rep.add('B2', fi.site(s), 'no reduction / shared accumulator in the parallel body', False, expected='no augmented assignment', found=u(s), stmt=s)
        elif isinstance(s, (ast.Expr, ast.Pass)):
            continue
        elif isinstance(s, (ast.If, ast.For, ast.While)):
            continue
        else:
            raise Undecided(f'_jaccarddist_parallel: statement {u(s)[:50]}')
    ok = len(stores) == 1 and u(stores[0][0].value) == out and u(stores[0][0].slice) == iv
    rep.add('B2', fi.site(stores[0][1] if stores else loop), 'the only memory written in the parallel body is out[<this iteration>] (race-free for every schedule and thread count)', ok, expected=f'{out}[{iv}] = ...',
            found=[u(t) for t, _ in stores], stmt='prange store')
    bad_names = [n for n, s in others if n not in locals_decl or n == iv]
    rep.add('B2', fi.site(loop), 'every other name assigned in the body is a scalar local of the function (privatised by Cython)', not bad_names, expected=sorted(locals_decl), found=[n for n, _ in others], stmt='prange locals')
    # cell value: kernel on (query, ref_coords[begin:end]) with begin/end the bounds of this iteration
    if stores:
        v = stores[0][1].value
        okv = isinstance(v, ast.Call) and u(v.func) == 'c_jaccarddist' and len(v.args) == 2 and u(v.args[0]) == q
        penv = {}
        for n, s in others:
            if isinstance(s.value, ast.Subscript) and u(s.value.value) == rb:
                a = Aff.try_of(s.value.slice, {iv: sym('i')})
                if a is not None:
                    penv[n] = a
        if okv:
            sl = v.args[1]
            okv = isinstance(sl, ast.Subscript) and u(sl.value) == rc and isinstance(sl.slice, ast.Slice) and sl.slice.step is None \
                and penv.get(u(sl.slice.lower)) == sym('i') and penv.get(u(sl.slice.upper)) == sym('i').plus(1)
        rep.add('B2', fi.site(stores[0][1]), 'cell i is the kernel value of (query, reference i = ref_coords[bounds[i] : bounds[i+1]])', okv, expected=f'c_jaccarddist({q}, {rc}[{rb}[i]:{rb}[i+1]])',
                found=(u(v), {k: str(a) for k, a in penv.items()}), stmt='prange cell')
    ck = m.func(f'{PYX}.c_jaccarddist')
    info = ck.cinfo() or {}
    writes = [s for s in stmts_in(ck.node.body) if isinstance(s, (ast.Assign, ast.AugAssign)) and any(isinstance(t, ast.Subscript) or (isinstance(t, ast.Name) and t.id not in set(ck.module.side['types'].get(ck.name, {})))
              for t in (s.targets if isinstance(s, ast.Assign) else [s.target]))]
    rep.add('B2', ck.site(), 'the kernel called from the parallel body is nogil and writes neither its arguments nor module state', info.get('nogil') is True and not writes, expected='nogil, no stores', found=(info.get('nogil'), [u(w) for w in writes]),
            stmt='kernel purity')


def _single(V, e, at, what):
    cs = V.cases(e, at)
    if not cs:
        raise Undecided(f'{V.fi.name}: {what}: no feasible path reaches `{u(e)[:50]}`')
    return cs


def _iteration(V, loop, seq, what, m=None):
    """How a loop walks over the sequence parameter `seq`: ('enumerate', index name, element name) for
    `for i, x in enumerate(seq)`, ('range', index name, None) for `for i in range(len(seq))`; anything else is outside the
    vocabulary (Undecided).  The pairing index <-> element is then by construction of the loop header."""
    cs = _single(V, loop.iter, loop, what)
    forms = set()
    for _, it in cs:
        if isinstance(it, ast.Call) and isinstance(it.func, ast.Name) and not it.keywords:
            if it.func.id == 'enumerate' and len(it.args) in (1, 2) and (len(it.args) == 1 or is_const(it.args[1], 0)) and isinstance(loop.target, ast.Tuple) and len(loop.target.elts) == 2 \
                    and all(isinstance(e, ast.Name) for e in loop.target.elts):
                src = elementwise_gate(m, V.fi, it.args[0]) if m is not None else None      # enumerate(map(gate, S)): element k is the gated k-th item of S
                a = src if src is not None else it.args[0]
                forms.add(('enumerate' if src is None else 'enumerate_gated', loop.target.elts[0].id, loop.target.elts[1].id, u(a) if term(a, None, PARAM) else f'<{u(a)}>'))
                continue
            if it.func.id == 'range' and len(it.args) == 1 and isinstance(loop.target, ast.Name) and isinstance(it.args[0], ast.Call) and isinstance(it.args[0].func, ast.Name) and it.args[0].func.id == 'len' \
                    and len(it.args[0].args) == 1:
                a = it.args[0].args[0]
                forms.add(('range', loop.target.id, None, u(a) if term(a, None, PARAM) else f'<{u(a)}>'))
                continue
        raise Undecided(f'{V.fi.name}: {what}: loop header `for {u(loop.target)} in {u(loop.iter)[:60]}` is neither enumerate(<sequence>) nor range(len(<sequence>))')
    if len(forms) != 1:
        raise Undecided(f'{V.fi.name}: {what}: loop header has several forms {sorted(forms)}')
    kind, i, x, over = next(iter(forms))
    return kind, i, x, over


def _is_element(e, kind, i, x, seq, loop):
    """e is the element of `seq` that belongs to index i of this loop."""
    if kind in ('enumerate', 'enumerate_gated'):
        return term(e, x, loop)
    return isinstance(e, ast.Subscript) and term(e.value, seq, PARAM) and term(e.slice, i, loop)


def check_array(ctx):
    rep, m = ctx.rep, ctx.model
    fi = anchor(m, f'{MET}.jaccarddist_array')
    V = Vals(fi)
    qp, rp = fi.params()[:2]
    par = [c for c in calls_in(fi.node) if m.resolve_call(fi, c) == f'{PYX}._jaccarddist_parallel']
    rep.require(len(par) == 1, 'jaccarddist_array: expected one parallel-kernel call')
    c = par[0]
    st = V.stmt_of(c)
    at = V.path(st)
    rep.add('B3', fi.site(c), 'the fast path is taken only for a concatenated in-memory array', ('true', f'isinstance({rp}, SignatureArray)') in at, expected=f'isinstance({rp}, SignatureArray)', found=sorted(at), stmt='fast path guard')
    pf = m.func(f'{PYX}._jaccarddist_parallel')
    ops = [get_arg(c, k, n) for k, n in enumerate(pf.params()[:4])]
    rep.require(len(pf.params()) >= 4 and all(isinstance(o, ast.AST) for o in ops) and len(c.args) + len(c.keywords) == 4, 'jaccarddist_array: parallel kernel arity')
    # operands by VALUE: whatever locals they went through
    oq, ov, ob, oo = (_single(V, o, st, 'fast path operand') for o in ops)
    okq = all(term(e, qp, PARAM) for _, e in oq)
    okv = all(isinstance(e, ast.Call) and m.resolve_call(fi, e) == f'{MET}._cast_sigs_array' and len(e.args) == 1 and not e.keywords and u(e.args[0]) == f'{rp}.values' and term(e.args[0].value, rp, PARAM) for _, e in ov)
    okb = all(isinstance(e, ast.Call) and u(e.func) == f'{rp}.bounds.astype' and term(e.func.value.value, rp, PARAM) and e.args and u(e.args[0]) == 'BOUNDS_DTYPE' for _, e in ob)
    oko = all(term(e, 'out', PARAM) for _, e in oo)
    rep.add('B3', fi.site(c), 'kernel operands (query, values, bounds, out) come from the same collection, in the parameter order of the kernel', okq and okv and okb and oko
            and pf.params()[:4] == ['query', 'ref_coords', 'ref_bounds', 'out'], expected=f'({qp}, cast({rp}.values), {rp}.bounds.astype(BOUNDS_DTYPE), out)', found=(u(c), V.show(ov), V.show(ob), pf.params()), stmt='fast path operands')
    types = m.module('gambit._cython.types:pxd').side.get('typedefs', {})
    bd = m.module('gambit.sigs.base').assigns.get('BOUNDS_DTYPE')
    rep.add('B3', (m.module('gambit.sigs.base').relpath, getattr(bd, 'lineno', 1), 'gambit.sigs.base.BOUNDS_DTYPE'), 'bounds dtype on both sides of the boundary is the pointer-width integer', types.get('BOUNDS_T') == 'intptr_t'
            and u(bd) == 'np.dtype(np.intp)' and pf.ctype('ref_bounds') == 'BOUNDS_T[:]' and pf.ctype('out') == 'SCORE_T[:]', expected='intptr_t / np.intp; SCORE_T[:] out', found=(types.get('BOUNDS_T'), u(bd), pf.ctype('ref_bounds'), pf.ctype('out')),
            stmt='bounds dtype')
    # slow path: the store into the buffer whose value is the per-item kernel (possibly through a local)
    al, _ = out_aliases(fi)
    ks = []
    for s in V.stmts:
        if isinstance(s, ast.Assign) and any(isinstance(t, ast.Subscript) and _root(t) in al for t in s.targets):
            cs = V.cases(s.value, s)
            if cs and any(_is_kernel(m, fi, e) for _, e in cs):
                ks.append((s, cs))
    rep.require(len(ks) == 1 and len(ks[0][0].targets) == 1, 'jaccarddist_array: expected one per-item kernel store')
    s, vcs = ks[0]
    loops = V.loops_around(s)
    rep.require(bool(loops) and isinstance(loops[-1], ast.For), 'jaccarddist_array: per-item kernel store is not inside a for loop')
    loop = loops[-1]
    kind, i, x, over = _iteration(V, loop, rp, 'slow path', m)
    tgt = s.targets[0]
    tb = _single(V, tgt.value, s, 'slow path store')
    ti = _single(V, tgt.slice, s, 'slow path store')
    ok_t = over == rp and all(term(e, 'out', PARAM) for _, e in tb) and all(term(e, i, loop) for _, e in ti)
    ok_v = True
    for _, e in vcs:
        kv = kernel_value(m, fi, e)
        if kv is None:
            ok_v = False
            continue
        q0, r, wrapped = kv
        q0 = q0.args[0] if _is_cast(m, fi, q0) else q0
        # the reference operand is THIS iteration's element, and it has passed the dtype gate: cast separately, inside the call, by the
        # public two-signature function the cell is delegated to, or already by the loop header (enumerate(map(gate, refs)))
        gated = wrapped or kind == 'enumerate_gated'
        if _is_cast(m, fi, r):
            r, gated = r.args[0], True
        ok_v = ok_v and term(q0, qp, PARAM) and gated and _is_element(r, kind, i, x, rp, loop)
    rep.add('B4', fi.site(s), 'slow path: cell i is the kernel value of (query, i-th reference), i and reference bound by one enumerate', ok_t and ok_v, expected=f'for i, ref in enumerate({rp}): out[i] = jaccarddist({qp}, cast(ref))',
            found=(f'for {u(loop.target)} in {u(loop.iter)}', f'{u(tgt)} = ' + ' | '.join(V.show(vcs))), stmt='slow path pairing')
    at = V.path(s)
    rep.add('B4', fi.site(s), 'the slow path handles every other container', ('false', f'isinstance({rp}, SignatureArray)') in at, expected='else branch', found=sorted(at), stmt='slow path guard')
    qc = [x for x in fi.node.body if isinstance(x, ast.Assign) and u(x.targets[0]) == qp]
    rep.add('B3', fi.site(qc[0] if qc else None), 'the query array itself (cast, not copied or reordered) is what both paths see', len(qc) == 1 and _is_cast(m, fi, qc[0].value) and isinstance(qc[0].value.args[0], ast.Name) and qc[0].value.args[0].id == qp, expected=f'{qp} = _cast_sigs_array({qp})',
            found=[u(x) for x in qc], stmt='query operand')
    every_iteration(V, s, loop, 'the per-item kernel store')

    def leaf_for(n):
        def leaf(e):
            if isinstance(e, ast.Call) and isinstance(e.func, ast.Name) and e.func.id == 'len' and len(e.args) == 1 and not e.keywords and u(e.args[0]) in (rp, 'out'):
                return n
            if isinstance(e, ast.Attribute) and u(e.value) == 'out' and e.attr in ('size', 'shape'):
                return n if e.attr == 'size' else (n,)
            return _NoEval
        return leaf
    check_exits(rep, 'B4', V, m, fi, [st, loop], [(f'{k} reference(s)', leaf_for(k)) for k in range(1, 5)], {'out', 'progress'}, 'kernel calls')
    extra = [x for x in assigns_to(fi.node, qp) if x not in qc] + assigns_to(fi.node, rp)
    rep.require(not extra, f'jaccarddist_array: operand parameter rebound by `{u(extra[0])[:60] if extra else ""}`; its uses cannot be compared across statements')


def generator_items(m, fi, V, loop):
    """`for t0, t1, .. in G(args)` where G is a generator of the package every path of which is ONE loop `for v in <iterable>` whose body
    yields exactly once on each of its paths (plain assignments and if/else apart): the loop is then a loop over that iterable (the
    generator's parameters replaced by the arguments), and each target is a function of the item v - one case per path of G.
    Returns (name of the target that IS the item, the iterable as an expression of the caller) and registers the per-item values of the
    other targets (resolved where the loop stands); None if the iterator is not such a call."""
    it = loop.iter
    q = m.resolve_call(fi, it) if isinstance(it, ast.Call) else None
    g = m.functions.get(q) if q else None
    if g is None or not any(isinstance(n, (ast.Yield, ast.YieldFrom)) for n in ast.walk(g.node)):
        return None
    what = f'{fi.name}: loop over generator {g.name}()'
    a = g.node.args
    if a.vararg or a.kwarg or any(isinstance(x, ast.Starred) for x in it.args) or any(k.arg is None for k in it.keywords) or g.decorators:
        raise Undecided(f'{what}: star arguments / decorated generator')
    if not (isinstance(loop.target, ast.Tuple) and all(isinstance(e, ast.Name) for e in loop.target.elts)):
        raise Undecided(f'{what}: loop target `{u(loop.target)}` is not a tuple of names')
    args = {}
    for k, p in enumerate(g.params()):
        e = get_arg(it, k, p)
        if not isinstance(e, ast.AST):
            raise Undecided(f'{what}: argument for parameter {p} not given explicitly')
        args[p] = e
    VG = Vals(g)
    loops, ystmts = [], []
    shape = f'{what}: body is not (assignments, then one loop - or an if/else of such blocks -) yielding exactly once per item'

    def plain(x):
        return isinstance(x, (ast.Assign, ast.AnnAssign)) and not any(isinstance(n, (ast.Yield, ast.YieldFrom, ast.NamedExpr)) for n in ast.walk(x))

    def ywalk(block):
        """every path through the block ends in its one yield"""
        if not block or not all(plain(x) for x in block[:-1]):
            raise Undecided(shape)
        last = block[-1]
        if isinstance(last, ast.Expr) and isinstance(last.value, ast.Yield) and last.value.value is not None:
            ystmts.append((last, loops[-1]))
        elif isinstance(last, ast.If) and last.orelse and not any(isinstance(n, (ast.Yield, ast.YieldFrom, ast.NamedExpr)) for n in ast.walk(last.test)):
            ywalk(last.body)
            ywalk(last.orelse)
        else:
            raise Undecided(shape)

    def walk(block):
        body = [x for x in block if not (isinstance(x, ast.Expr) and isinstance(x.value, ast.Constant))]
        if not body or not all(plain(x) for x in body[:-1]):
            raise Undecided(shape)
        last = body[-1]
        if isinstance(last, ast.For) and not last.orelse and isinstance(last.target, ast.Name):
            loops.append(last)
            ywalk(last.body)
        elif isinstance(last, ast.If) and last.orelse:
            walk(last.body)
            walk(last.orelse)
        else:
            raise Undecided(shape)
    walk(g.node.body)
    if len(ystmts) != sum(1 for n in ast.walk(g.node) if isinstance(n, (ast.Yield, ast.YieldFrom))):
        raise Undecided(shape)
    n = len(loop.target.elts)
    item = _tag('<item>', loop)

    def subst(e, lp):
        """an expression of G (resolved there) as an expression of the caller: parameters -> the arguments as written, loop variable -> item"""
        import copy
        return _clone(e, lambda x: item if term(x, lp.target.id, lp) else (copy.deepcopy(args[x.id]) if term(x, None, PARAM) and x.id in args else None))
    iters = {}
    for lp in loops:
        ics = VG.cases(lp.iter, lp, path=False)
        if len(ics) != 1 or ics[0][0] or any(term(x, lp.target.id) for x in ast.walk(ics[0][1])):
            raise Undecided(f'{what}: the iterable `{u(lp.iter)[:50]}` depends on the path')
        e = subst(ics[0][1], lp)
        iters[u(e)] = e
    if len(iters) != 1:
        raise Undecided(f'{what}: the paths iterate over different things {sorted(iters)}')
    per_target = [[] for _ in range(n)]
    for ys, lp in ystmts:
        cond = frozenset()
        for t, pol in VG.gm[ys]:
            tcs = VG.cases(t, VG.test_owner.get(id(t), ys), path=False)
            if len(tcs) != 1 or tcs[0][0]:
                raise Undecided(f'{what}: condition `{u(t)}` depends on the path')
            t2 = subst(tcs[0][1], lp)
            if any(term(x, '<item>', loop) for x in ast.walk(t2)):
                raise Undecided(f'{what}: condition `{u(t)}` depends on the item')
            cond = V.conj(cond, V.cond(t2, pol, loop)) if cond is not None else None
        if cond is None:
            continue
        for c2, y in VG.cases(ys.value.value, ys, path=False):
            if not (isinstance(y, ast.Tuple) and len(y.elts) == n):
                raise Undecided(f'{what}: yields `{u(y)}`, loop unpacks {n} names')
            if c2 - VG.path(ys):
                raise Undecided(f'{what}: the yielded value `{u(ys.value.value)[:50]}` depends on conditions inside an expression')
            for k in range(n):
                per_target[k].append((cond, subst(y.elts[k], lp)))
    item_name = None
    for k, t in enumerate(loop.target.elts):
        if per_target[k] and all(term(e, '<item>', loop) for _, e in per_target[k]) and item_name is None:
            item_name = t.id
    if item_name is None:
        raise Undecided(f'{what}: no loop target is the iterated item itself')
    S = _tag(item_name, loop)
    for k, t in enumerate(loop.target.elts):
        if t.id != item_name:
            V.overrides[(t.id, id(loop))] = [(c, _clone(e, lambda x: S if term(x, '<item>', loop) else None)) for c, e in per_target[k]]
    V._memo.clear()
    return item_name, next(iter(iters.values()))


def every_iteration(V, stmt, loop, what, allowed=()):
    """The statement that fills the cells must run on every iteration of its loop(s): a guard between the loop header and the
    statement (if / continue / break) leaves cells unwritten unless it is always true, which the rules do not evaluate."""
    extra = (V.path(stmt) - V.path(loop)) - set(allowed)
    jumps = [x for x in stmts_in(loop.body) if isinstance(x, (ast.Break, ast.Continue)) or (isinstance(x, ast.Return) and V.before(x, stmt))]
    if extra or jumps:
        raise Undecided(f'{V.fi.name}: {what} is executed only under {sorted(extra) if extra else u(jumps[0])} inside its loop; whether every cell is still written is not evaluated')


def sequence_stable(V, name):
    """The rules compare uses of a sequence parameter by name: it may only be rebound by the order-preserving list wrap."""
    for s in assigns_to(V.fn, name):
        ok = isinstance(s, ast.Assign) and len(s.targets) == 1 and isinstance(s.targets[0], ast.Name) and u(s.value) == f'SignatureList({name})' and not V.loops_around(s)
        if not ok:
            raise Undecided(f'{V.fi.name}: sequence parameter `{name}` is rebound by `{u(s)[:60]}`; its uses cannot be compared across statements')


def list_wrap(rep, rule, fi, V, seq, what):
    """A sequence that is not a signature array is wrapped (order-preservingly) so that slices and index arrays can select from it;
    signature arrays are used as they are."""
    wrap = [x for x in assigns_to(fi.node, seq)]
    okw = len(wrap) == 1 and isinstance(wrap[0], ast.Assign) and u(wrap[0].value) == f'SignatureList({seq})' and not V.loops_around(wrap[0]) \
        and ('false', f'isinstance({seq}, AbstractSignatureArray)') in V.path(wrap[0])
    rep.add(rule, fi.site(wrap[0] if wrap else None), f'a plain list of {what} is wrapped order-preservingly to support index selections', okw, expected=f'{seq} = SignatureList({seq}) unless isinstance({seq}, AbstractSignatureArray)',
            found=[(u(w)[:70], sorted(V.path(w))) for w in wrap], stmt='list wrap')


def _sel_atoms(name):
    return ('is', 'None', name), ('isnot', 'None', name)


def _selected(e, cond, seq, sel, idx_ok, what):
    """e selects from `seq` the items at positions idx - directly when the selection `sel` is None, through sel[idx] otherwise;
    the case's condition decides which of the two is required."""
    if not (isinstance(e, ast.Subscript) and term(e.value, seq, PARAM)):
        return False
    direct = idx_ok(e.slice)
    via = isinstance(e.slice, ast.Subscript) and term(e.slice.value, sel, PARAM) and idx_ok(e.slice.slice)
    if not direct and not via:
        return False
    md = mode(cond, *_sel_atoms(sel), what)
    if md is True:
        return direct
    if md is False:
        return via
    return False   # used on both paths: cannot be right for both


def _count(e, cond, seq, sel, what):
    """e is the number of selected items: len(seq) when sel is None, len(sel) otherwise."""
    if not (isinstance(e, ast.Call) and isinstance(e.func, ast.Name) and e.func.id == 'len' and len(e.args) == 1 and not e.keywords and (term(e.args[0], seq, PARAM) or term(e.args[0], sel, PARAM))):
        return False
    md = mode(cond, *_sel_atoms(sel), what)
    return md is not None and term(e.args[0], seq if md else sel, PARAM)


def _tiling_while(rep, fc, loops, n, size):
    lp = loops[0]
    cur = None
    a = atoms(lp.test)
    if a and len(a) == 1:
        (op, l, r), = a
        cur = l if op == 'lt' and r == n else None
    init = [s for s in fc.node.body if isinstance(s, ast.Assign) and u(s.targets[0]) == cur and s.lineno < lp.lineno]
    env = {cur: sym('start'), size: sym('size')}
    ys = [x for x in ast.walk(lp) if isinstance(x, ast.Yield)]
    okt = cur is not None and len(init) == 1 and is_const(init[0].value, 0) and len(ys) == 1
    stop_env = dict(env)
    nxt = None
    for s in lp.body:
        if isinstance(s, ast.Assign) and isinstance(s.targets[0], ast.Name):
            v = Aff.try_of(s.value, stop_env)
            if s.targets[0].id == cur:
                nxt = v
            elif v is not None:
                stop_env[s.targets[0].id] = v
    if okt:
        y = ys[0].value
        okt = isinstance(y, ast.Call) and u(y.func) == 'slice' and len(y.args) == 2 and Aff.try_of(y.args[0], stop_env) == sym('start') and Aff.try_of(y.args[1], stop_env) == sym('start').add(sym('size')) \
            and nxt == sym('start').add(sym('size'))
    rep.add('B5', fc.site(lp), 'chunk_slices tiles [0, n): starts at 0, yields [start, start+size), continues at the previous stop while start < n (no gap, no overlap)', okt,
            expected='start = 0; while start < n: yield slice(start, start + size); start = start + size', found=[u(s) for s in lp.body], stmt='tiling')


def check_matrix(ctx):
    rep, m = ctx.rep, ctx.model
    fi = anchor(m, f'{MET}.jaccarddist_matrix')
    V = Vals(fi)
    gm = guard_map(fi.node)
    qp, rp, rip = fi.params()[:3]
    csp = fi.params()[4]
    calls = [c for c in calls_in(fi.node) if m.resolve_call(fi, c) == f'{MET}.jaccarddist_array']
    rep.require(len(calls) == 1, 'jaccarddist_matrix: expected one jaccarddist_array call')
    c = calls[0]
    st = V.stmt_of(c)
    loops = [o for o in V.loops_around(st)]
    rep.require(len(loops) == 2 and all(isinstance(o, ast.For) for o in loops), 'jaccarddist_matrix: expected a chunk loop around a query loop')
    selector_stable(V, rip, True)
    chunk_loop, q_loop = loops
    # query loop
    try:
        kind, i, qv, over = _iteration(V, q_loop, qp, 'query loop')
        okq = over == qp
    except Undecided:
        kind = i = qv = None
        okq = False
    rep.add('B5', fi.site(q_loop), 'row index and query are bound by one enumerate over the queries', okq, expected=f'for i, query in enumerate({qp})', found=u(q_loop.iter), stmt='query enumerate')
    rep.require(okq, 'jaccarddist_matrix: query loop shape')
    # chunk loop: the loop variable is one of the column slices
    chunk_iter = chunk_loop.iter
    if isinstance(chunk_loop.target, ast.Name):
        sl = chunk_loop.target.id
    else:
        gi = generator_items(m, fi, V, chunk_loop)
        if gi is None:
            raise Undecided(f'jaccarddist_matrix: the chunk loop unpacks `{u(chunk_loop.target)}` from `{u(chunk_loop.iter)[:70]}`, which is not a generator of the package; the relation between '
                            'the loaded chunk and the column slice cannot be established')
        sl, chunk_iter = gi
    S = _tag(sl, chunk_loop)

    def aff(e):
        return Aff.try_of(e)

    def is_S(e):
        return term(e, sl, chunk_loop)
    a0, a1, o = get_arg(c, 0, 'query'), get_arg(c, 1, 'refs'), get_arg(c, 2, 'out')
    rep.require(all(isinstance(x, ast.AST) for x in (a0, a1, o)), 'jaccarddist_matrix: jaccarddist_array call without query / refs / out')
    okr = all(_is_element(e, kind, i, qv, qp, q_loop) for _, e in _single(V, a0, st, 'matrix query operand'))
    ocs = _single(V, o, st, 'matrix output block')
    for _, e in ocs:
        ax = view_axes(e, 'out', aff, [S])
        okr = okr and ax is not None and set(ax) == {0, 1} and ax[0] == ('int', sym(i)) and ax[1] == ('slicevar', sl) and all(term(n, i, q_loop) for n in ast.walk(e) if isinstance(n, ast.Name) and n.id == i)
    rep.add('B5', fi.site(c), 'row i, columns of this chunk receive the distances of query i to the chunk', okr, expected=f'jaccarddist_array({qv}, chunk, out=out[{i}, {sl}])', found=(u(c), V.show(ocs)), stmt='matrix cell block')
    ccs = _single(V, a1, st, 'matrix chunk operand')
    okc = all(_selected(e, cond, rp, rip, is_S, 'jaccarddist_matrix chunk selection') for cond, e in ccs)
    cdef = reaching_def(fi.node, a1.id, q_loop) if isinstance(a1, ast.Name) else None
    rep.add('B5', fi.site(cdef if isinstance(cdef, ast.AST) else c), 'the SAME slice selects the reference chunk (directly or through ref_indices) and the output columns', okc,
            expected=f'{rp}[{sl} if {rip} is None else {rip}[{sl}]]', found=V.show(ccs), stmt='chunk selection')
    # the slices iterated over: [slice(0, ncols)] or the chunk_slices tiling of [0, ncols)
    ics = _single(V, chunk_iter, chunk_loop, 'chunk list')
    oks, okn, ncols_seen = True, True, []
    for cond, e in ics:
        if isinstance(e, ast.Call) and isinstance(e.func, ast.Name) and e.func.id in ('list', 'tuple') and len(e.args) == 1 and not e.keywords:
            e = e.args[0]
        if isinstance(e, (ast.List, ast.Tuple)) and len(e.elts) == 1 and isinstance(e.elts[0], ast.Call) and isinstance(e.elts[0].func, ast.Name) and e.elts[0].func.id == 'slice':
            sa = e.elts[0].args
            oks = oks and len(sa) == 2 and is_const(sa[0], 0)
            nexp = sa[1] if len(sa) == 2 else None
        elif isinstance(e, ast.Call) and m.resolve_call(fi, e) == 'gambit.util.misc.chunk_slices':
            nexp, sz = get_arg(e, 0, 'n'), get_arg(e, 1, 'size')
            # the chunk size must be the caller's, and there must be one: chunk_slices(n, None) cannot tile anything
            oks = oks and isinstance(sz, ast.AST) and term(sz, csp, PARAM) and ('is', 'None', csp) not in cond
        else:
            raise Undecided(f'jaccarddist_matrix: the chunk loop iterates over `{u(e)[:70]}`, which is neither a one-slice list nor chunk_slices(...)')
        ncols_seen.append(u(nexp))
        okn = okn and isinstance(nexp, ast.AST) and _count(nexp, cond, rp, rip, 'jaccarddist_matrix column count')
    sdef = reaching_def(fi.node, chunk_iter.id, chunk_loop) if isinstance(chunk_iter, ast.Name) else None
    rep.add('B5', fi.site(sdef if isinstance(sdef, ast.AST) else chunk_loop), 'column chunks are one full slice or the chunk_slices tiling of [0, nrefs)', oks, expected=f'[slice(0, nrefs)] | list(chunk_slices(nrefs, {csp}))', found=V.show(ics), stmt='chunk list')
    rep.add('B5', fi.site(sdef if isinstance(sdef, ast.AST) else chunk_loop), 'number of columns = number of selected references', okn, expected=f'len({rp}) if {rip} is None else len({rip})', found=ncols_seen, stmt='column count')
    alloc = [s for s in stmts_in(fi.node.body) if isinstance(s, ast.Assign) and u(s.targets[0]) == 'out']
    oksh = len(alloc) == 1 and isinstance(alloc[0].value, ast.Call)
    shp = []
    if oksh:
        sh = get_arg(alloc[0].value, 0, 'shape')
        shp = _single(V, sh, alloc[0], 'matrix shape') if isinstance(sh, ast.AST) else []
        oksh = bool(shp)
        for cond, e in shp:
            oksh = oksh and isinstance(e, ast.Tuple) and len(e.elts) == 2 and u(e.elts[0]) == f'len({qp})' and term(e.elts[0].args[0], qp, PARAM) and _count(e.elts[1], cond, rp, rip, 'jaccarddist_matrix shape')
    rep.add('B5', fi.site(alloc[0] if alloc else None), 'the matrix has one row per query and one column per selected reference', oksh, expected=f'(len({qp}), number of selected references)',
            found=V.show(shp) if shp else [u(a.value) for a in alloc], stmt='matrix shape')
    list_wrap(rep, 'B5', fi, V, rp, 'references')
    # chunk_slices
    fc = m.func('gambit.util.misc.chunk_slices')
    rep.functions.add(fc.qualname)
    n, size = fc.params()[:2]
    gmc = guard_map(fc.node)
    rs = [s for s in stmts_in(fc.node.body) if isinstance(s, ast.Raise)]
    rep.add('B5', fc.site(rs[0] if rs else None), 'a non-positive chunk size is rejected (no infinite loop / empty tiling)', len(rs) == 1 and path_atoms(gmc[rs[0]]) == {('le', size, '0')}, expected=f'raise under {size} <= 0',
            found=[sorted(path_atoms(gmc[r])) for r in rs], stmt='chunk size guard')
    loops = [s for s in fc.node.body if isinstance(s, ast.While)]
    floops = [s for s in fc.node.body if isinstance(s, ast.For)]
    if not loops and len(floops) == 1 and isinstance(floops[0].iter, ast.Call) and u(floops[0].iter.func) == 'range' and len(floops[0].iter.args) == 3 \
            and not floops[0].iter.keywords and isinstance(floops[0].target, ast.Name) and not floops[0].orelse:
        # the same tiling as a counted loop: for start in range(0, n, size): yield slice(start, start + size | clipped to n)
        lp = floops[0]
        cur = lp.target.id
        envf = {cur: sym('start'), size: sym('size'), n: sym('n')}
        a0, a1, a2 = (Aff.try_of(x, envf) for x in lp.iter.args)
        ys = [x for x in ast.walk(lp) if isinstance(x, ast.Yield)]
        oky = False
        if len(ys) == 1 and len(lp.body) == 1 and isinstance(lp.body[0], ast.Expr) and lp.body[0].value is ys[0]:
            y = ys[0].value
            if isinstance(y, ast.Call) and u(y.func) == 'slice' and len(y.args) == 2 and Aff.try_of(y.args[0], envf) == sym('start'):
                hi = y.args[1]
                full = sym('start').add(sym('size'))
                if Aff.try_of(hi, envf) == full:
                    oky = True
                elif isinstance(hi, ast.Call) and u(hi.func) == 'min' and len(hi.args) == 2 and not hi.keywords:
                    pair = [Aff.try_of(x, envf) for x in hi.args]
                    oky = full in pair and sym('n') in pair
        okt = oky and a0 is not None and str(a0) == '0' and a1 == sym('n') and a2 == sym('size')
        rep.add('B5', fc.site(lp), 'chunk_slices tiles [0, n): starts at 0, yields [start, start+size), continues at the previous stop while start < n (no gap, no overlap)', okt,
                expected='for start in range(0, n, size): yield slice(start, start + size)   (stop may be clipped to n)', found=[f'for {cur} in {u(lp.iter)}'] + [u(s) for s in lp.body], stmt='tiling')
        loops = None
    else:
        rep.require(len(loops) == 1, 'chunk_slices: expected one while loop (or one `for start in range(0, n, size)` loop)')
    _tiling_while(rep, fc, loops, n, size) if loops else None
    every_iteration(V, st, chunk_loop, 'the jaccarddist_array call')

    def leaf_for(nq, nr, cs):
        def leaf(e):
            if isinstance(e, ast.Name) and e.id == csp:
                return cs
            if isinstance(e, ast.Call) and isinstance(e.func, ast.Name) and e.func.id == 'len' and len(e.args) == 1 and not e.keywords:
                a = u(e.args[0])
                if a == qp or a == 'out':
                    return nq
                if a in (rp, rip):
                    return nr
            if isinstance(e, ast.Attribute) and u(e.value) == 'out' and e.attr in ('size', 'shape'):
                return nq * nr if e.attr == 'size' else (nq, nr)
            return _NoEval
        return leaf
    check_exits(rep, 'B5', V, m, fi, [chunk_loop], [(f'{a} x {b} cells' + (f', chunksize {c_}' if c_ else ''), leaf_for(a, b, c_)) for a in range(1, 4) for b in range(1, 4) for c_ in (None, 1, 2, 5)],
                {rip, 'out', 'progress'}, 'rows are computed')
    sequence_stable(V, rp)
    rep.require(not assigns_to(fi.node, qp), f'jaccarddist_matrix: sequence parameter `{qp}` is rebound')



# condensed layout: closed forms are decided by evaluation.  An expression built from i, n, integer constants, + - *,
# floor division by a positive constant and num_pairs(.) is a quasi-polynomial in (i, n): a polynomial of total degree <= D on
# every residue class modulo P (P = product of the divisors).  Two such functions that agree on a lattice triangle with more than
# D points per side in every residue class are identical, so agreement on 0 <= i <= n - 2, n <= P * (D + 3) + 4 is a proof.

class _NotInt(Exception):
    pass


def _qp_shape(e, is_i, is_n, is_np):
    """(degree bound, period bound) of an integer expression over i and n; _NotInt outside the grammar."""
    if isinstance(e, ast.Constant) and type(e.value) is int:
        return 0, 1
    if is_i(e) or is_n(e):
        return 1, 1
    if isinstance(e, ast.UnaryOp) and isinstance(e.op, (ast.USub, ast.UAdd)):
        return _qp_shape(e.operand, is_i, is_n, is_np)
    if isinstance(e, ast.BinOp) and isinstance(e.op, (ast.Add, ast.Sub, ast.Mult)):
        (d1, p1), (d2, p2) = _qp_shape(e.left, is_i, is_n, is_np), _qp_shape(e.right, is_i, is_n, is_np)
        return (d1 + d2 if isinstance(e.op, ast.Mult) else max(d1, d2)), p1 * p2
    if isinstance(e, ast.BinOp) and isinstance(e.op, ast.FloorDiv) and isinstance(e.right, ast.Constant) and type(e.right.value) is int and e.right.value > 0:
        d, p = _qp_shape(e.left, is_i, is_n, is_np)
        return d, p * e.right.value
    if is_np(e):
        d, p = _qp_shape(e.args[0], is_i, is_n, is_np)
        return 2 * d, 2 * p
    if _is_psum(e):      # sum over j < i of f(j): one degree more, same period
        d, p = _qp_shape(e.args[0], is_i, is_n, is_np)
        return d + 1, p
    raise _NotInt(u(e))


def _qp_eval(e, i, n, is_i, is_n, is_np):
    if isinstance(e, ast.Constant):
        return e.value
    if is_i(e):
        return i
    if is_n(e):
        return n
    if isinstance(e, ast.UnaryOp):
        v = _qp_eval(e.operand, i, n, is_i, is_n, is_np)
        return -v if isinstance(e.op, ast.USub) else v
    if isinstance(e, ast.BinOp):
        a, b = _qp_eval(e.left, i, n, is_i, is_n, is_np), _qp_eval(e.right, i, n, is_i, is_n, is_np)
        return a + b if isinstance(e.op, ast.Add) else a - b if isinstance(e.op, ast.Sub) else a * b if isinstance(e.op, ast.Mult) else a // b
    if _is_psum(e):
        return sum(_qp_eval(e.args[0], j, n, is_i, is_n, is_np) for j in range(i))
    x = _qp_eval(e.args[0], i, n, is_i, is_n, is_np)
    return x * (x - 1) // 2


def condensed_block_ok(lo, hi, is_i, is_n, is_np):
    """[lo, hi) == [sum_{k<i}(n-1-k), ... + n-i-1) for all 0 <= i <= n-2 (scipy squareform layout); None if not evaluable."""
    try:
        (d1, p1), (d2, p2) = _qp_shape(lo, is_i, is_n, is_np), _qp_shape(hi, is_i, is_n, is_np)
    except _NotInt:
        return None
    D, P = max(d1, d2, 2), p1 * p2
    if D > 8 or P > 64:
        return None
    for n in range(0, P * (D + 3) + 5):
        off = 0
        for i in range(0, n - 1):
            if _qp_eval(lo, i, n, is_i, is_n, is_np) != off or _qp_eval(hi, i, n, is_i, is_n, is_np) != off + n - i - 1:
                return False
            off += n - i - 1
    return True


# ---------------------------------------------------------------------- loop headers as indexed families
# `for <targets> in <iterable>`: the k-th iteration (k = 0, 1, ..) binds the targets to the k-th element of the iterable.  For
# iterables built from range / enumerate / zip / itertools.accumulate / a sequence parameter the k-th element and the number of
# elements are expressions of k, so every target becomes a function of the row index - e.g. offsets = accumulate(lengths, initial=0)
# gives offset_k = sum of the first k lengths, which is what a running counter computes.

def _bin(l, op, r):
    return ast.BinOp(left=l, op=op, right=r)


def _is_psum(e):
    return isinstance(e, ast.Call) and term(e.func, '__psum__', 'builtin') and len(e.args) == 1


def family(m, fi, e, K):
    """(k-th element, number of elements) of the resolved iterable expression e, as expressions over the index terminal K; None when e
    is outside the vocabulary."""
    import copy
    if term(e, None, PARAM):
        return ast.Subscript(value=e, slice=K, ctx=ast.Load()), ast.Call(func=_tag('len', None), args=[e], keywords=[])
    if not isinstance(e, ast.Call) or any(isinstance(x, ast.Starred) for x in e.args):
        return None
    f = e.func
    name = f.id if isinstance(f, ast.Name) and getattr(f, 'bind', None) is None else None
    if name == 'range' and not e.keywords and 1 <= len(e.args) <= 3:
        a = list(e.args)
        lo, hi = (ast.Constant(value=0), a[0]) if len(a) == 1 else (a[0], a[1])
        st = a[2] if len(a) == 3 else ast.Constant(value=1)
        if is_const(st, 1):
            return (K if is_const(lo, 0) else _bin(lo, ast.Add(), K)), (hi if is_const(lo, 0) else _bin(hi, ast.Sub(), lo))
        if isinstance(st, ast.UnaryOp) and isinstance(st.op, ast.USub) and is_const(st.operand, 1) or is_const(st, -1):
            return _bin(lo, ast.Sub(), K), _bin(lo, ast.Sub(), hi)
        return None
    if name == 'enumerate' and len(e.args) == 1 and (not e.keywords or (len(e.keywords) == 1 and e.keywords[0].arg == 'start' and is_const(e.keywords[0].value, 0))):
        sub = family(m, fi, e.args[0], K)
        return None if sub is None else (ast.Tuple(elts=[K, sub[0]], ctx=ast.Load()), sub[1])
    if name == 'zip' and e.args and not e.keywords:
        subs = [family(m, fi, x, K) for x in e.args]
        if any(x is None for x in subs):
            return None
        ln = subs[0][1]
        for x in subs[1:]:            # zip stops with the shortest: decidable when the lengths differ by a constant
            d = Aff.try_of(_bin(x[1], ast.Sub(), ln))
            if d is None or d.terms:
                return None
            if d.const < 0:
                ln = x[1]
        return ast.Tuple(elts=[x[0] for x in subs], ctx=ast.Load()), ln
    if isinstance(f, (ast.Name, ast.Attribute)) and m.resolve(fi.module, f) == 'itertools.accumulate' and len(e.args) == 1 and all(k.arg == 'initial' for k in e.keywords):
        sub = family(m, fi, e.args[0], K)
        if sub is None:
            return None
        ps = ast.Call(func=_tag('__psum__', 'builtin'), args=[sub[0]], keywords=[])        # sum of the elements before k
        if e.keywords and not is_none(e.keywords[0].value):
            return _bin(e.keywords[0].value, ast.Add(), ps), _bin(sub[1], ast.Add(), ast.Constant(value=1))
        return _bin(ps, ast.Add(), sub[0]), sub[1]
    return None


def _bind_targets(t, e, out):
    if isinstance(t, ast.Name):
        out[t.id] = e
        return True
    if isinstance(t, (ast.Tuple, ast.List)) and isinstance(e, ast.Tuple) and len(t.elts) == len(e.elts) and not any(isinstance(x, ast.Starred) for x in t.elts):
        return all(_bind_targets(a, b, out) for a, b in zip(t.elts, e.elts))
    return False


def row_loop(V, m, fi, loop, what):
    """The loop that walks over the rows: (name of the variable that counts them, [(condition, first value is 0?, number of rows)]).
    `for i in range(..)`; a loop over a generator of the package that runs such a loop; a header built from range / enumerate / zip /
    accumulate whose other targets then are functions of i (registered as per-iteration values)."""
    def ranges(i, cs):
        out = []
        for cond, e in cs:
            fam = family(m, fi, e, _tag(i, loop)) if isinstance(e, ast.Call) and isinstance(e.func, ast.Name) and e.func.id == 'range' else None
            if fam is None:
                raise Undecided(f'{V.fi.name}: {what}: rows are counted by `for {i} in {u(e)[:50]}`, which is not a range with step 1')
            out.append((cond, term(fam[0], i, loop), fam[1]))
        return out
    if isinstance(loop.target, ast.Name):
        return loop.target.id, ranges(loop.target.id, _single(V, loop.iter, loop, what))
    gi = generator_items(m, fi, V, loop)
    if gi is not None:
        return gi[0], ranges(gi[0], _single(V, gi[1], loop, what))
    # one-shot iterators must be consumed by this header only
    for x in V.stmts:
        if isinstance(x, ast.Assign) and len(x.targets) == 1 and isinstance(x.targets[0], ast.Name) and (isinstance(x.value, ast.GeneratorExp) or (isinstance(x.value, ast.Call) and (
                u(x.value.func) in ('zip', 'map', 'enumerate', 'iter', 'filter', 'reversed') or (isinstance(x.value.func, (ast.Name, ast.Attribute)) and (m.resolve(fi.module, x.value.func) or '').startswith('itertools.'))))):
            uses = sum(1 for n in ast.walk(V.fn) if isinstance(n, ast.Name) and n.id == x.targets[0].id and isinstance(n.ctx, ast.Load))
            if uses > 1:
                raise Undecided(f'{V.fi.name}: {what}: the iterator `{x.targets[0].id}` is read {uses} times; what each reader sees is not evaluated')
    cs = _single(V, loop.iter, loop, what)
    per, lens = {}, []
    for cond, e in cs:
        names = sorted({n.id for n in ast.walk(loop.target) if isinstance(n, ast.Name)})
        found = None
        for cand in names:            # the counting variable is the target whose k-th value is k
            K = _tag(cand, loop)
            fam = family(m, fi, e, K)
            binds_ = {}
            if fam is None or not _bind_targets(loop.target, fam[0], binds_):
                raise Undecided(f'{V.fi.name}: {what}: loop header `for {u(loop.target)} in {u(loop.iter)[:60]}` (= {u(e)[:80]}) is not built from range / enumerate / zip / accumulate in a way the rule evaluates')
            if binds_.get(cand) is K:
                found = (cand, fam, binds_)
                break
        if found is None:
            raise Undecided(f'{V.fi.name}: {what}: no target of `for {u(loop.target)} in {u(loop.iter)[:60]}` counts the iterations from 0')
        cand, fam, binds_ = found
        per.setdefault(cand, []).append((cond, binds_))
        lens.append((cond, True, fam[1]))
    if len(per) != 1:
        raise Undecided(f'{V.fi.name}: {what}: the counting variable of the loop header depends on the path')
    i = next(iter(per))
    for cond, binds_ in per[i]:
        for nm, ex in binds_.items():
            if nm != i:
                V.overrides.setdefault((nm, id(loop)), []).append((cond - V.path(loop), ex))
    V._memo.clear()
    return i, lens


def _opaque_def(e):
    """A terminal whose value comes from a statement the resolver cannot take apart (e.g. unpacking the result of a call)."""
    return term(e) and isinstance(e.bind, (ast.Assign, ast.AnnAssign, ast.AugAssign))


class _NoEval(Exception):
    pass


def _pairwise_leaf(m, fi, n, flat, sp, ip, fp):
    """Concrete values of the quantities a guard of jaccarddist_pairwise may mention, for n selected signatures."""
    def leaf(e):
        if isinstance(e, ast.Name) and e.id == fp:
            return flat
        if isinstance(e, ast.Call) and isinstance(e.func, ast.Name) and e.func.id == 'len' and len(e.args) == 1 and not e.keywords and isinstance(e.args[0], ast.Name):
            a = e.args[0].id
            if a in (sp, ip):
                return n
            if a == 'out':
                return n * (n - 1) // 2 if flat else n
        if isinstance(e, ast.Attribute) and isinstance(e.value, ast.Name) and e.value.id == 'out' and e.attr in ('size', 'shape'):
            if e.attr == 'size':
                return n * (n - 1) // 2 if flat else n * n
            return (n * (n - 1) // 2,) if flat else (n, n)
        return _NoEval
    return leaf


def _guards_hold(V, m, fi, stmt, n, flat, sp, ip, fp):
    return _guards_eval(V, m, fi, stmt, _pairwise_leaf(m, fi, n, flat, sp, ip, fp), skip={ip, 'progress', 'out'})


def _guards_eval(V, m, fi, stmt, leaf, skip=frozenset(), unknown=None):
    """Do all structured guards (enclosing tests and earlier early exits) on the way to `stmt` hold?  The tests are evaluated
    concretely: `leaf(e)` gives the value of a quantity (a length, out.size, a flag) or _NoEval; names are followed to their single
    definition; num_pairs is n(n-1)/2.  A test over nothing but the names in `skip` (selector / buffer presence) is passed over -
    both of its arms are followed by the other rules.  Anything else in a guard is outside the rule (exit 2), unless `unknown` is a
    list: then the test is recorded there and taken to hold."""
    fn = fi.node

    def single_def(name, at):
        d = reaching_def(fn, name, at)
        if d in (None, PARAM, AMBIGUOUS) or def_value(d) is None:
            return None
        return d

    def ev(e, at, depth=0):
        if depth > 12:
            raise _NoEval(u(e))
        v = leaf(e)
        if v is not _NoEval:
            return v
        if isinstance(e, ast.Constant):
            return e.value
        if isinstance(e, ast.Name):
            d = single_def(e.id, at)
            if d is None:
                raise _NoEval(e.id)
            return ev(def_value(d), d, depth + 1)
        if isinstance(e, ast.Call) and m.resolve_call(fi, e) == f'{MET}.num_pairs' and len(e.args) == 1 and not e.keywords:
            k = ev(e.args[0], at, depth + 1)
            return k * (k - 1) // 2
        if isinstance(e, ast.Tuple):
            return tuple(ev(x, at, depth + 1) for x in e.elts)
        if isinstance(e, ast.IfExp):
            try:
                t = ev(e.test, at, depth + 1)
            except _NoEval:
                a, b = ev(e.body, at, depth + 1), ev(e.orelse, at, depth + 1)
                if a == b:
                    return a
                raise
            return ev(e.body if t else e.orelse, at, depth + 1)
        if isinstance(e, ast.UnaryOp) and isinstance(e.op, ast.Not):
            return not ev(e.operand, at, depth + 1)
        if isinstance(e, ast.UnaryOp) and isinstance(e.op, ast.USub):
            return -ev(e.operand, at, depth + 1)
        if isinstance(e, ast.BoolOp):
            vals = [ev(x, at, depth + 1) for x in e.values]
            return all(vals) if isinstance(e.op, ast.And) else any(vals)
        if isinstance(e, ast.BinOp) and isinstance(e.op, (ast.Add, ast.Sub, ast.Mult, ast.FloorDiv)):
            a, b = ev(e.left, at, depth + 1), ev(e.right, at, depth + 1)
            if not all(isinstance(x, int) and not isinstance(x, bool) for x in (a, b)) or (isinstance(e.op, ast.FloorDiv) and b == 0):
                raise _NoEval(u(e))
            return {ast.Add: a + b, ast.Sub: a - b, ast.Mult: a * b}.get(type(e.op), None) if not isinstance(e.op, ast.FloorDiv) else a // b
        if isinstance(e, ast.Compare) and len(e.ops) == 1:
            a, b = ev(e.left, at, depth + 1), ev(e.comparators[0], at, depth + 1)
            op = e.ops[0]
            try:
                if isinstance(op, ast.Eq):
                    return a == b
                if isinstance(op, ast.NotEq):
                    return a != b
                if isinstance(op, ast.Lt):
                    return a < b
                if isinstance(op, ast.LtE):
                    return a <= b
                if isinstance(op, ast.Gt):
                    return a > b
                if isinstance(op, ast.GtE):
                    return a >= b
            except TypeError:
                pass
            raise _NoEval(u(e))
        raise _NoEval(u(e))

    for test, pol in V.gm.get(stmt, ()):
        names = {x.id for x in ast.walk(test) if isinstance(x, ast.Name)}
        if names and names <= set(skip) and not any(isinstance(x, ast.Attribute) for x in ast.walk(test)):
            continue        # selector / buffer presence tests: both arms are followed by the rules above
        try:
            if bool(ev(test, V.test_owner.get(id(test)) or stmt)) != bool(pol):
                return False
        except _NoEval as ex:
            if unknown is not None:
                unknown.append(u(test)[:60])
                continue
            raise Undecided(f'{fi.name}: a guard on the way to line {getattr(stmt, "lineno", "?")} tests `{u(test)[:60]}`, which the exit rule cannot evaluate ({ex})')
    return True


def check_exits(rep, rule, V, m, fi, work, leaves, skip, what):
    """No exit of a bulk function leaves cells of a non-empty output unwritten: a `return` that precedes a work site (kernel call,
    delegation, row loop) is fine when another work site guarded by a subset of its own guards precedes it (it returns after its
    branch did the work); otherwise its guards are evaluated for every non-empty size in `leaves` - if they can all hold, cells are
    returned unwritten."""
    last = fi.node.body[-1]
    bad = []

    def gset(st):
        return {(id(t), bool(p)) for t, p in V.gm.get(st, ())}
    for r in [x for x in walk_no_nested(fi.node) if isinstance(x, ast.Return) and x is not last]:
        if not any(V.before(r, w) for w in work):
            continue
        if any(V.before(w, r) and gset(w) <= gset(r) for w in work):
            continue
        for label, leaf in leaves:
            unk = []
            if _guards_eval(V, m, fi, r, leaf, skip=skip, unknown=unk):
                if unk:
                    raise Undecided(f'{fi.name}: the return at line {r.lineno} precedes the {what} under a test the exit rule cannot evaluate: {unk[0]}')
                bad.append(f'line {r.lineno}: returns for {label} before the {what}')
                break
    rep.add(rule, fi.site(), f'{fi.name}: no exit leaves cells of a non-empty output unwritten', not bad, expected='early exits only when the output is empty', found=bad[:3] or 'ok', stmt=f'{fi.name} exits')




def check_pairwise(ctx):
    """The rows may be filled at ONE call site or at several (e.g. one loop / one branch per layout): every site is checked under
    its own path condition, and the sites together must cover the square and the condensed layout."""
    rep, m = ctx.rep, ctx.model
    fi = anchor(m, f'{MET}.jaccarddist_pairwise')
    V = Vals(fi)
    sp, ip, fp = fi.params()[:3]
    FLAT = (('true', fp), ('false', fp))
    calls = [c for c in calls_in(fi.node) if m.resolve_call(fi, c) == f'{MET}.jaccarddist_array']
    rep.require(len(calls) >= 1, 'jaccarddist_pairwise: expected a jaccarddist_array call')
    sites = []
    for c in calls:
        st = V.stmt_of(c)
        loops = V.loops_around(st)
        loop = loops[-1] if loops else None
        rep.require(len(loops) == 1 and isinstance(loop, ast.For), 'jaccarddist_pairwise: row loop not found')
        sites.append((c, st, loop))
    selector_stable(V, ip, True)
    selector_stable(V, fp, False)
    rows_of = {}
    for c, st, loop in sites:
        if id(loop) not in rows_of:
            rows_of[id(loop)] = row_loop(V, m, fi, loop, 'row loop')

    def is_np(e):
        return isinstance(e, ast.Call) and m.resolve_call(fi, e) == f'{MET}.num_pairs' and len(e.args) == 1 and not e.keywords

    def is_n_under(cond, what):
        md = mode(cond, *_sel_atoms(ip), what)
        want = None if md is None else (sp if md else ip)
        return lambda e: want is not None and isinstance(e, ast.Call) and isinstance(e.func, ast.Name) and e.func.id == 'len' and len(e.args) == 1 and not e.keywords and term(e.args[0], want, PARAM)
    I, N = sym('__i'), sym('__n')
    COLS = ('slice', I.plus(1), N)
    covered = set()
    for c, st, loop in sites:
        i, rcs = rows_of[id(loop)]
        site_mode = mode(V.path(st), *FLAT, 'jaccarddist_pairwise call site')
        covered |= {True, False} if site_mode is None else {site_mode}

        def is_i(e, i=i, loop=loop):
            return term(e, i, loop)

        def aff_under(cond, what, is_i=is_i):
            """Affine form over the symbols i and n, n being the number of selected signatures under this condition."""
            is_n = is_n_under(cond, what)

            def aff(e):
                return Aff.try_of(_clone(e, lambda x: _tag('__n', 'count') if is_n(x) else _tag('__i', 'row') if is_i(x) else None))
            return aff
        # row range
        okrng = bool(rcs)
        for cond, from0, count in rcs:
            okrng = okrng and from0 and aff_under(cond, 'row range')(count) == N.plus(-1)
        rep.add('B6', fi.site(loop), 'rows 0 .. n-2 are computed (the last row has no columns to its right)', okrng, expected='range(n - 1), n = number of selected signatures',
                found=[f'{u(count)} rows' + ('' if from0 else ' not counted from 0') + (f' if {sorted(cond)}' if cond else '') for cond, from0, count in rcs], stmt='row range')
        a0, a1, o = get_arg(c, 0, 'query'), get_arg(c, 1, 'refs'), get_arg(c, 2, 'out')
        rep.require(all(isinstance(x, ast.AST) for x in (a0, a1, o)), 'jaccarddist_pairwise: jaccarddist_array call without query / refs / out')

        def is_cols(cond, what, aff_under=aff_under):
            aff = aff_under(cond, what)

            def f(e):
                try:
                    return index_elem(e, aff) == COLS
                except Undecided:
                    return False
            return f
        ccs = _single(V, a1, st, 'column signatures')
        rows = _single(V, a0, st, 'row signature')
        ocs = _single(V, o, st, 'row block')
        for what, cs in (('column signatures', ccs), ('row signature', rows), ('row block', ocs)):
            for _, e in cs:
                if _opaque_def(e):
                    raise Undecided(f'jaccarddist_pairwise: the {what} operand `{e.id}` is produced by `{u(e.bind)[:60]}`, which the rules do not take apart')
        okcols = all(isinstance(e, ast.Subscript) and (is_cols(cond, 'cols')(e.slice) or (isinstance(e.slice, ast.Subscript) and is_cols(cond, 'cols')(e.slice.slice))) for cond, e in ccs)
        rep.add('B6', fi.site(c), 'columns of row i are slice(i + 1, n)', okcols, expected='slice(i + 1, n)', found=V.show(ccs), stmt='cols')
        okrow = all(_selected(e, cond, sp, ip, is_i, 'jaccarddist_pairwise row signature') for cond, e in rows)
        rep.add('B6', fi.site(c), 'row signature is signature i (directly or through the index selection)', okrow, expected=f'{sp}[{i}] | {sp}[{ip}[{i}]]', found=V.show(rows), stmt='row signature')
        okcol = all(_selected(e, cond, sp, ip, is_cols(cond, 'column signatures'), 'jaccarddist_pairwise column signatures') for cond, e in ccs)
        rep.add('B6', fi.site(c), 'column signatures are selected by the same cols slice (directly or through the index selection)', okcol, expected=f'{sp}[cols] | {sp}[{ip}[cols]]', found=V.show(ccs), stmt='column signatures')
        # row block of the output
        okblk, oklen, counters, closed = True, True, set(), []
        for cond, e in ocs:
            fl = mode(cond, *FLAT, 'jaccarddist_pairwise row block')
            aff = aff_under(cond, 'row block')
            if fl is None:
                okblk = False
                continue
            if not fl:
                ax = view_axes(e, 'out', aff)
                okblk = okblk and ax is not None and ax == {0: ('int', I), 1: COLS}
                continue
            # condensed: out[lo:hi] with hi - lo == n - i - 1 and lo the number of pairs of the rows before i
            if not (isinstance(e, ast.Subscript) and term(e.value, 'out', PARAM) and isinstance(e.slice, ast.Slice) and e.slice.step is None and e.slice.lower is not None and e.slice.upper is not None):
                okblk = False
                continue
            lo, hi = e.slice.lower, e.slice.upper
            cnt = [x for x in ast.walk(lo) if isinstance(x, ast.Name) and getattr(x, 'bind', None) is AMBIGUOUS]
            if cnt:
                # running counter: lo is the counter as it stands before this row's advance, hi = that + (n - i - 1); its initialisation
                # and its single advance per row are checked below
                name = lo.id if isinstance(lo, ast.Name) else None
                a_hi = aff(_clone(hi, lambda x: _tag('__cnt', 'cnt') if term(x, name, AMBIGUOUS) else None)) if name else None
                okblk = okblk and name is not None
                oklen = oklen and a_hi is not None and a_hi == sym('__cnt').add(N).sub(I).plus(-1)
                if name:
                    counters.add(name)
            else:
                is_n = is_n_under(cond, 'row block')
                r = condensed_block_ok(lo, hi, is_i, is_n, is_np)
                if r is None:
                    raise Undecided(f'jaccarddist_pairwise: condensed row block out[{u(lo)}:{u(hi)}] is neither a running counter nor an integer expression over i, n and num_pairs() that can be evaluated')
                closed.append(f'out[{u(lo)}:{u(hi)}]')
                okblk = okblk and r
                oklen = oklen and r
        rep.add('B6', fi.site(loop), 'ncol == n - i - 1 == length of that slice', oklen, expected='condensed block of row i has n - i - 1 cells', found=V.show(ocs), stmt='ncol')
        rep.add('B6', fi.site(c), 'row block = out[i, cols] (square) or out[next : next + ncol] (condensed)', okblk, expected=f'out[{i}, {i} + 1:n] | out[next:next + ncol]', found=V.show(ocs), stmt='row block')
        for nxt in sorted(counters):
            # the counter is 0 before the first row and is advanced exactly once per row by the length of that row's block; the block
            # starts at the counter as it stands before the advance (a read after the advance would have resolved to counter + length)
            binds_all = assigns_to(fi.node, nxt)
            init = [x for x in binds_all if not V.loops_around(x)]
            adv = [x for x in binds_all if V.loops_around(x) == [loop]]
            other = [x for x in binds_all if x not in init and x not in adv]
            oka = len(init) == 1 and not other and len(adv) == 1 and V.before(init[0], loop) and mode(V.path(init[0]), *FLAT, 'counter initialisation') is not False
            if oka:
                iv = Vals._def_value(init[0], nxt)
                oka = iv is not None and is_const(iv, 0)
            if oka:
                av = Vals._def_value(adv[0], nxt)
                acs = V.cases(av, adv[0]) if av is not None else []
                oka = bool(acs) and (V.path(adv[0]) - V.path(loop)) <= {FLAT[0]} and mode(V.path(adv[0]), *FLAT, 'counter advance') is True
                for cond, e in acs:
                    a_new = aff_under(cond, 'flat offset')(_clone(e, lambda x: _tag('__cnt', 'cnt') if term(x, nxt, AMBIGUOUS) else None))
                    oka = oka and a_new is not None and a_new == sym('__cnt').add(N).sub(I).plus(-1)
            rep.add('B6', fi.site(adv[0] if adv else loop), 'condensed offset starts at 0 and advances by ncol after each row (scipy squareform layout)', oka, expected=f'{nxt} = 0; {nxt} += n - i - 1 once per row', found=[u(x) for x in binds_all],
                    stmt='flat offset')
        if closed and not counters:
            rep.add('B6', fi.site(c), 'condensed offset starts at 0 and advances by ncol after each row (scipy squareform layout)', okblk, expected='offset of row i = sum over k < i of (n - 1 - k)', found=closed, stmt='flat offset')
        # mirror: the stores into the buffer that run in square mode in this loop
        if site_mode is not True:
            mir = [x for x in stmts_in(loop.body) if isinstance(x, ast.Assign) and isinstance(x.targets[0], ast.Subscript) and _root(x.targets[0]) == 'out' and mode(V.path(x), *FLAT, 'mirror store') is not True]
            okm = len(mir) == 1 and len(mir[0].targets) == 1 and ('false', fp) in V.path(mir[0]) and V.before(st, mir[0]) and V.loops_around(mir[0]) == [loop] and (V.path(mir[0]) - V.path(loop)) <= {FLAT[1]}
            mshow = [u(x) for x in mir]
            if okm:
                tcs = V.cases(mir[0].targets[0], mir[0])
                vcs = V.cases(mir[0].value, mir[0])
                okm = bool(tcs) and bool(vcs)
                for cond, e in tcs:
                    ax = view_axes(e, 'out', aff_under(cond, 'mirror'))
                    okm = okm and ax == {0: COLS, 1: ('int', I)}
                for cond, e in vcs:
                    ax = view_axes(e, 'out', aff_under(cond, 'mirror'))
                    okm = okm and ax == {0: ('int', I), 1: COLS}
                mshow = [f'{a} = {b}' for a in V.show(tcs) for b in V.show(vcs)]
            rep.add('B6', fi.site(mir[0] if mir else loop), 'the square matrix is made symmetric by copying the row just written to the transposed column', okm, expected=f'out[cols, {i}] = out[{i}, cols] (after the row is computed, square only)',
                    found=mshow, stmt='mirror')
    fd = [c2 for c2 in calls_in(fi.node) if u(c2.func) in ('np.fill_diagonal', 'numpy.fill_diagonal')]
    okd = len(fd) == 1 and ('false', fp) in V.path(V.stmt_of(fd[0])) and not V.loops_around(V.stmt_of(fd[0]))
    # ... for EVERY non-empty selection: the guards on the way to it (early exits included) are evaluated for n = 1..5
    skipped_d = []
    if okd:
        skipped_d = [k for k in range(1, 6) if not _guards_hold(V, m, fi, V.stmt_of(fd[0]), k, False, sp, ip, fp)]
        okd = not skipped_d
    rep.add('B6', fi.site(fd[0] if fd else None), 'zero diagonal is written in square mode, for every number of signatures', okd, expected='np.fill_diagonal(out, 0) whenever not flat',
            found=[u(x) for x in fd] + ([f'not reached for n = {skipped_d} (guard / early exit before it)'] if skipped_d else []), stmt='diagonal')
    # ... and no exit leaves work undone: an early return is taken only when no row is due (n < 2), and for one signature in square
    # mode only after the diagonal was written; the row loops are entered whenever a row is due
    bad_exit = []
    last = fi.node.body[-1]
    for r in [x for x in walk_no_nested(fi.node) if isinstance(x, ast.Return) and x is not last]:
        for k in range(0, 6):
            for fl in (True, False):
                if not _guards_hold(V, m, fi, r, k, fl, sp, ip, fp):
                    continue
                rows_done = all(V.before(lp, r) and not any(x is r for x in ast.walk(lp)) for _, _, lp in sites)
                diag_done = bool(fd) and V.before(V.stmt_of(fd[0]), r) and _guards_hold(V, m, fi, V.stmt_of(fd[0]), k, fl, sp, ip, fp)
                if (k >= 2 and not rows_done) or (k >= 1 and not fl and not (diag_done or rows_done and okd)):
                    bad_exit.append(f'line {r.lineno}: returns for n = {k}, flat = {fl} before ' + ('the rows are computed' if k >= 2 and not rows_done else 'the diagonal is written'))
    for _, _, lp in sites:
        for k in range(2, 6):
            for fl in (True, False):
                if not _guards_hold(V, m, fi, lp, k, fl, sp, ip, fp) and not any(_guards_hold(V, m, fi, l2, k, fl, sp, ip, fp) for _, _, l2 in sites):
                    bad_exit.append(f'line {lp.lineno}: the row loop is not entered for n = {k}, flat = {fl}')
    rep.add('B6', fi.site(), 'no exit leaves cells unwritten: rows are computed whenever there are two or more signatures, the diagonal whenever the matrix is square and non-empty',
            not bad_exit, expected='early exits only when nothing is left to write', found=sorted(set(bad_exit))[:4] or 'ok', stmt='exits')
    fn = m.func(f'{MET}.num_pairs')
    rep.functions.add(fn.qualname)
    r = [x for x in fn.node.body if isinstance(x, ast.Return)]
    n = fn.params()[0]
    v = r[0].value if r else None
    okn = isinstance(v, ast.BinOp) and isinstance(v.op, ast.FloorDiv) and is_const(v.right, 2) and isinstance(v.left, ast.BinOp) and isinstance(v.left.op, ast.Mult) \
        and {str(Aff.try_of(v.left.left)), str(Aff.try_of(v.left.right))} == {n, f'{n} - 1'}
    rep.add('B6', fn.site(), 'condensed length = n(n-1)/2', okn, expected=f'{n} * ({n} - 1) // 2', found=u(v), stmt='num_pairs')
    allocs_p = [x for x in stmts_in(fi.node.body) if isinstance(x, ast.Assign) and u(x.targets[0]) == 'out' and isinstance(x.value, ast.Call) and u(x.value.func) == 'np.empty']
    shp = []
    oksh = len(allocs_p) == 1
    if oksh:
        sh = get_arg(allocs_p[0].value, 0, 'shape')
        shp = _single(V, sh, allocs_p[0], 'pairwise shape') if isinstance(sh, ast.AST) else []
        oksh = bool(shp)
        for cond, e in shp:
            fl = mode(cond, *FLAT, 'jaccarddist_pairwise shape')
            is_n = is_n_under(cond, 'pairwise shape')
            if fl is None or not isinstance(e, ast.Tuple):
                oksh = False
            elif fl:
                oksh = oksh and len(e.elts) == 1 and is_np(e.elts[0]) and is_n(e.elts[0].args[0])
            else:
                oksh = oksh and len(e.elts) == 2 and is_n(e.elts[0]) and is_n(e.elts[1])
    rep.add('B6', fi.site(allocs_p[0] if allocs_p else None), 'output is n x n (square) or num_pairs(n) long (condensed)', oksh, expected='(num_pairs(n),) if flat else (n, n)', found=V.show(shp), stmt='pairwise shape')
    # every row of both layouts is filled: each site runs on every iteration of its loop (its layout apart), the sites cover both layouts
    for c, st, loop in sites:
        every_iteration(V, st, loop, 'the jaccarddist_array call', allowed=set(FLAT))
    rep.require(covered == {True, False}, f'jaccarddist_pairwise: the jaccarddist_array call sites cover only the layout(s) {sorted("condensed" if x else "square" for x in covered)}; how the other one is filled is not evaluated')
    list_wrap(rep, 'B6', fi, V, sp, 'signatures')
    sequence_stable(V, sp)


def check_threads(ctx):
    rep, m = ctx.rep, ctx.model
    f = m.func('gambit._cython.threads.omp_set_num_threads')
    rep.functions.add(f.qualname)
    calls = [c for c in calls_in(f.node)]
    names = {u(c.func) for c in calls}
    gm = guard_map(f.node)
    oc = [c for c in calls if u(c.func) == 'openmp.omp_set_num_threads']
    ok = len(oc) == 1 and [u(a) for a in oc[0].args] == [f.params()[0]] and names <= {'openmp.omp_set_num_threads', 'ValueError'}
    rep.add('B7', f.site(), 'setting the thread count only forwards an integer to OpenMP (no data path into a distance)', ok and len(f.params()) == 1, expected='openmp.omp_set_num_threads(n)', found=sorted(names), stmt='thread setter')
    st = next((s for s in stmts_in(f.node.body) if isinstance(s, ast.Expr) and oc and s.value is oc[0]), None)
    rep.add('B7', f.site(st), 'a non-positive thread count is rejected', st is not None and ('lt', '0', f.params()[0]) in path_atoms(gm[st]), expected='n > 0', found=sorted(path_atoms(gm[st])) if st is not None else None, stmt='thread count guard')


def check(ctx):
    rep = ctx.rep
    rep.rule('B1', 'closed list of output-cell stores: kernel value, copy of a cell, delegation with out= view, parallel kernel, zero diagonal; buffers float32, returned unchanged')
    rep.rule('B2', 'prange body: single store out[i]; other assigned names are function-local scalars; no augmented assignment; callee nogil and pure; cell i = kernel(query, ref i)')
    rep.rule('B3', 'fast path: SignatureArray only; (query, values, bounds, out) from one collection in kernel parameter order; bounds dtype')
    rep.rule('B4', 'slow path: out[i] with (i, ref) from one enumerate')
    rep.rule('B5', 'matrix: same slice for references and columns; enumerate(queries); chunk_slices tiling; shapes')
    rep.rule('B6', 'pairwise: cols = slice(i+1, n); ncol; mirror; condensed offsets; num_pairs')
    rep.rule('B7', 'thread setters carry no data')
    rep.trusted += ['Cython prange privatises variables assigned in the loop body', 'NumPy basic-index views out[i, sl] write through', 'h5py slice reads return the stored values']
    rep.assumptions += ['Kernel correctness itself is C02; the zero diagonal equals d(x,x) by C02-M1..M4.']
    check_stores(ctx)
    check_prange(ctx)
    check_array(ctx)
    check_matrix(ctx)
    check_pairwise(ctx)
    check_threads(ctx)
    # "every explicit selection or ordering of reference indices", "every container": the reference chunk refs[idx] must be
    # exactly the selected signatures in the selected order - the C20 selection clauses, re-evaluated
    from . import c20
    rep.rule('X3', 'C20-X3 re-evaluated: index normalisation'); rep.rule('X4', 'C20-X4 re-evaluated: element / slice arithmetic of concatenated collections')
    rep.rule('X5', 'C20-X5 re-evaluated: index-array selections keep order, repeats and dtype; no shortcut return')
    c20.check_arith(ctx)
    c20.check_subcollections(ctx)


from ..variants import V  # noqa: E402

_P = 'src/gambit/metric.py'
_X = 'src/gambit/_cython/metric.pyx'
_U = 'src/gambit/util/misc.py'
_SLOW = "\t\t\tref = _cast_sigs_array(ref)\n\t\t\tout[i] = _cmetric.jaccarddist(query, ref)"
_DISPATCH = ("\tif isinstance(refs, SignatureArray):\n\t\tvalues = _cast_sigs_array(refs.values)\n\t\tbounds = refs.bounds.astype(BOUNDS_DTYPE, copy=False)\n\n"
             "\t\t_cmetric._jaccarddist_parallel(query, values, bounds, out)\n\n\telse:\n\t\tfor i, ref in enumerate(refs):\n" + _SLOW + "\n\n\treturn out\n\n\ndef jaccarddist_matrix(")
_CHUNK = "\t\t\tidx = ref_slice if ref_indices is None else ref_indices[ref_slice]\n\t\t\tref_chunk = refs[idx]\n"
_SLICES = "\tif chunksize is None:\n\t\tref_slices = [slice(0, nrefs)]\n\telse:\n\t\tref_slices = list(chunk_slices(nrefs, chunksize))\n"
_QLOOP = "\t\t\tfor (i, query) in enumerate(queries):\n\t\t\t\tjaccarddist_array(query, ref_chunk, out=out[i, ref_slice])"
_CHUNKLOOP = "\t\tfor ref_slice in ref_slices:\n" + _CHUNK
_NUMPAIRS = "def num_pairs(n: int) -> int:"
_GEN = ("def _load_chunks(sigs, index, slices):\n\tif index is None:\n\t\tfor sl in slices:\n\t\t\tyield sl, sigs[sl]\n\telse:\n\t\tfor sl in slices:\n\t\t\tyield sl, %s\n\n\n")
_NDEF = "\tif indices is not None:\n\t\tindices = np.asarray(indices)\n\n\tn = len(sigs) if indices is None else len(indices)\n"
_ROWCOL = ("\t\t\trow_sig = sigs[i] if indices is None else sigs[indices[i]]\n\n\t\t\tcols = slice(i + 1, n)\n\t\t\tncol = n - i - 1\n"
           "\t\t\tcol_sigs = sigs[cols] if indices is None else sigs[indices[cols]]\n")
_ROWOUT = "\t\t\trow_out = out[next_out:next_out+ncol] if flat else out[i, cols]\n"
_NOCOUNTER = [(_P, "\tif flat:\n\t\tnext_out = 0\n\telse:\n\t\tnp.fill_diagonal(out, 0)\n", "\tif not flat:\n\t\tnp.fill_diagonal(out, 0)\n"),
              (_P, "\t\t\tif flat:\n\t\t\t\tnext_out += ncol\n\t\t\telse:\n", "\t\t\tif not flat:\n")]
_MVALID = ("\tif out is None:\n\t\tout = np.empty((nqueries, nrefs), SCORE_DTYPE)\n\telif out.shape != (nqueries, nrefs):\n\t\traise ValueError('Output array must have shape (nqueries, nrefs).')\n"
           "\telif out.dtype != SCORE_DTYPE:\n\t\traise ValueError(f'Output array dtype must be {SCORE_DTYPE}, got {out.dtype}')\n")
_PWTAIL = ("\tif flat:\n\t\tnext_out = 0\n\telse:\n\t\tnp.fill_diagonal(out, 0)\n\n\twith get_progress(progress, npairs) as meter:\n\t\tfor i in range(n - 1):\n" + _ROWCOL + "\n" + _ROWOUT
           + "\n\t\t\tjaccarddist_array(row_sig, col_sigs, out=row_out)\n\t\t\tmeter.increment(ncol)\n\n\t\t\tif flat:\n\t\t\t\tnext_out += ncol\n\t\t\telse:\n\t\t\t\t# Copy to other side of diagonal\n\t\t\t\tout[cols, i] = out[i, cols]\n")
_PWCALL = ("\t\t\trow_out = out[next_out:next_out+ncol] if flat else out[i, cols]\n\n\t\t\tjaccarddist_array(row_sig, col_sigs, out=row_out)\n\t\t\tmeter.increment(ncol)\n\n"
           "\t\t\tif flat:\n\t\t\t\tnext_out += ncol\n\t\t\telse:\n\t\t\t\t# Copy to other side of diagonal\n\t\t\t\tout[cols, i] = out[i, cols]\n")


def _unswitched(sel_test='indices is None', sel_else='sigs[indices[which]]', window='start, stop = stop, stop + (n - i - 1)', init='stop = 0', mirror='out[cols, i] = out[i, cols]', sq_range='range(n - 1)',
                flat_cols='slice(i + 1, n)'):
    return (f"\tif {sel_test}:\n\t\tdef select(which):\n\t\t\treturn sigs[which]\n\telse:\n\t\tdef select(which):\n\t\t\treturn {sel_else}\n\n\tif not flat:\n\t\tnp.fill_diagonal(out, 0)\n\n"
            f"\twith get_progress(progress, npairs) as meter:\n\t\tif flat:\n\t\t\t{init}\n\t\t\tfor i in range(n - 1):\n\t\t\t\trow_sig = select(i)\n\t\t\t\tcol_sigs = select({flat_cols})\n\n\t\t\t\t{window}\n"
            f"\t\t\t\tjaccarddist_array(row_sig, col_sigs, out=out[start:stop])\n\t\t\t\tmeter.increment(stop - start)\n\n\t\telse:\n\t\t\tfor i in {sq_range}:\n\t\t\t\trow_sig = select(i)\n\t\t\t\tcols = slice(i + 1, n)\n"
            f"\t\t\t\tcol_sigs = select(cols)\n\n\t\t\t\tjaccarddist_array(row_sig, col_sigs, out=out[i, cols])\n\t\t\t\tmeter.increment(n - i - 1)\n\n\t\t\t\t{mirror}\n")


def _two_sites(flat_out='out[start:start + ncol]', mirror='out[cols, i] = out[i, cols]', start='npairs - num_pairs(n - i)'):
    return (f"\t\t\tif flat:\n\t\t\t\tstart = {start}\n\t\t\t\tjaccarddist_array(row_sig, col_sigs, out={flat_out})\n\t\t\t\tmeter.increment(ncol)\n"
            f"\t\t\telse:\n\t\t\t\tjaccarddist_array(row_sig, col_sigs, out=out[i, cols])\n\t\t\t\tmeter.increment(ncol)\n\t\t\t\t{mirror}\n")


_WRAP = "\tcoords1 = _cast_sigs_array(coords1)\n\tcoords2 = _cast_sigs_array(coords2)\n\treturn _cmetric.jaccarddist(coords1, coords2)\n"
_PWHEAD = "\t\tfor i in range(n - 1):\n" + _ROWCOL
_IMP = "from typing import Iterable, Sequence, Optional\n"


def _sd_call(outarg='out'):
    return f"\t_fill(refs, query, {outarg})\n\treturn out\n\n\ndef jaccarddist_matrix("


def _sd_defs(store='out[i]', reg='SignatureArray', bounds='refs.bounds.astype(BOUNDS_DTYPE, copy=False)'):
    return [(_P, _IMP, "from functools import singledispatch\n" + _IMP),
            (_P, "def jaccarddist_array(", "@singledispatch\ndef _fill(refs, query, out):\n\tfor i, ref in enumerate(refs):\n\t\tref = _cast_sigs_array(ref)\n"
             f"\t\t{store} = _cmetric.jaccarddist(query, ref)\n\n\n@_fill.register({reg})\ndef _fill_array(refs, query, out):\n\tvalues = _cast_sigs_array(refs.values)\n\tbounds = {bounds}\n"
             "\t_cmetric._jaccarddist_parallel(query, values, bounds, out)\n\n\ndef jaccarddist_array(")]


def _pw_gen_loop(narg='n'):
    return f"\t\tfor i, cols, row_sig, col_sigs in _rows(sigs, indices, {narg}):\n\t\t\tncol = n - i - 1\n"


def _pw_gen(else_cols='sigs[indices[cols]]', rng='range(n - 1)'):
    return [(_P, _NUMPAIRS, f"def _rows(sigs, indices, n):\n\tfor i in {rng}:\n\t\tcols = slice(i + 1, n)\n\t\tif indices is None:\n\t\t\tyield i, cols, sigs[i], sigs[cols]\n\t\telse:\n"
             f"\t\t\tyield i, cols, sigs[indices[i]], {else_cols}\n\n\n" + _NUMPAIRS)]


def _accum(ncols='range(n - 1, 0, -1)', acc='accumulate(ncols, initial=0)', tgt='i, (ncol, offset)'):
    return (f"\tncols = {ncols}\n\toffsets = itertools.{acc}\n\tif not flat:\n\t\tnp.fill_diagonal(out, 0)\n\n\twith get_progress(progress, npairs) as meter:\n\t\tfor {tgt} in enumerate(zip(ncols, offsets)):\n"
            "\t\t\trow_sig = sigs[i] if indices is None else sigs[indices[i]]\n\t\t\tcols = slice(i + 1, n)\n\t\t\tcol_sigs = sigs[cols] if indices is None else sigs[indices[cols]]\n"
            "\t\t\trow_out = out[offset:offset + ncol] if flat else out[i, cols]\n\t\t\tjaccarddist_array(row_sig, col_sigs, out=row_out)\n\t\t\tmeter.increment(ncol)\n\t\t\tif not flat:\n\t\t\t\tout[cols, i] = out[i, cols]\n")


VARIANTS = [
    V('output columns from a fresh slice', 'B', _P, "jaccarddist_array(query, ref_chunk, out=out[i, ref_slice])", "jaccarddist_array(query, ref_chunk, out=out[i, slice(0, len(ref_chunk))])", 'B5'),
    V('prange writes out[i + 1]', 'B', _X, "\t\tout[i] = c_jaccarddist(query, ref_coords[begin:end])", "\t\tout[i + 1] = c_jaccarddist(query, ref_coords[begin:end])", 'B2'),
    V('shared accumulator in prange', 'B', _X, "\t\tout[i] = c_jaccarddist(query, ref_coords[begin:end])", "\t\tout[i] = c_jaccarddist(query, ref_coords[begin:end])\n\t\ttotal += out[i]", 'B2',
      also=[(_X, "\tcdef int i\n\n\tfor i in prange", "\tcdef int i\n\tcdef float total = 0\n\n\tfor i in prange")]),
    V('cell rounded', 'B', _P, "\t\t\tout[i] = _cmetric.jaccarddist(query, ref)", "\t\t\tout[i] = np.float32(round(_cmetric.jaccarddist(query, ref), 6))", 'B1'),
    V('flat offset advances by ncol + 1', 'B', _P, "\t\t\t\tnext_out += ncol\n", "\t\t\t\tnext_out += ncol + 1\n", 'B6'),
    V('mirror to the wrong column', 'B', _P, "out[cols, i] = out[i, cols]", "out[cols, i + 1] = out[i, cols]", 'B6'),
    V('chunk gap', 'B', _U, "\t\tyield slice(start, stop)\n\t\tstart = stop\n", "\t\tyield slice(start, stop)\n\t\tstart = stop + 1\n", 'B5'),
    V('chunk overlap', 'B', _U, "\t\tstop = start + size\n", "\t\tstop = start + size + 1\n", 'B5'),
    V('end bound of the same reference', 'B', _X, "\t\tend = ref_bounds[i+1]", "\t\tend = ref_bounds[i]", 'B2'),
    V('bounds and values from different objects', 'B', _P, "values = _cast_sigs_array(refs.values)", "values = _cast_sigs_array(refs.values[::-1])", 'B3'),
    V('ref_indices applied twice', 'B', _P, "idx = ref_slice if ref_indices is None else ref_indices[ref_slice]", "idx = ref_slice if ref_indices is None else ref_indices[ref_indices[ref_slice]]", 'B5'),
    V('cols start at i', 'B', _P, "cols = slice(i + 1, n)", "cols = slice(i, n)", 'B6'),
    V('column signatures ignore the index selection', 'B', _P, "col_sigs = sigs[cols] if indices is None else sigs[indices[cols]]", "col_sigs = sigs[cols]", 'B6'),
    V('result post-processed', 'B', _P, "\t\t\t\tmeter.increment(len(ref_chunk))\n\n\treturn out", "\t\t\t\tmeter.increment(len(ref_chunk))\n\n\treturn np.round(out, 6)", 'B1'),
    V('out allocated as float64', 'B', _P, "out = np.empty((nqueries, nrefs), SCORE_DTYPE)", "out = np.empty((nqueries, nrefs), np.float64)", 'B1'),
    V('guard clause: no pairs -> return, placed before the diagonal is zeroed (seeded C05e / C15e)', 'B', _P, "\tif flat:\n\t\tnext_out = 0\n\telse:\n\t\tnp.fill_diagonal(out, 0)\n", "\tif npairs == 0:\n\t\treturn out\n\tif flat:\n\t\tnext_out = 0\n\telse:\n\t\tnp.fill_diagonal(out, 0)\n", 'B6'),
    V('E: guard clause: empty output -> return (pairwise)', 'E', _P, "\tif flat:\n\t\tnext_out = 0\n\telse:\n\t\tnp.fill_diagonal(out, 0)\n", "\tif out.size == 0:\n\t\treturn out\n\tif flat:\n\t\tnext_out = 0\n\telse:\n\t\tnp.fill_diagonal(out, 0)\n"),
    V('E: guard clause: no pairs -> return, after the diagonal', 'E', _P, "\tif flat:\n\t\tnext_out = 0\n\telse:\n\t\tnp.fill_diagonal(out, 0)\n", "\tif flat:\n\t\tnext_out = 0\n\telse:\n\t\tnp.fill_diagonal(out, 0)\n\tif npairs == 0:\n\t\treturn out\n"),
    V('guard clause: fewer than three signatures -> return (pairwise)', 'B', _P, "\tif flat:\n\t\tnext_out = 0\n\telse:\n\t\tnp.fill_diagonal(out, 0)\n", "\tif flat:\n\t\tnext_out = 0\n\telse:\n\t\tnp.fill_diagonal(out, 0)\n\tif n <= 2:\n\t\treturn out\n", 'B6'),
    V('guard clause: single query -> return (matrix)', 'B', _P, "\tif chunksize is None:\n\t\tref_slices = [slice(0, nrefs)]", "\tif nqueries == 1:\n\t\treturn out\n\tif chunksize is None:\n\t\tref_slices = [slice(0, nrefs)]", 'B5'),
    V('E: guard clause: empty output -> return (matrix)', 'E', _P, "\tif chunksize is None:\n\t\tref_slices = [slice(0, nrefs)]", "\tif out.size == 0:\n\t\treturn out\n\tif chunksize is None:\n\t\tref_slices = [slice(0, nrefs)]"),
    V('guard clause: single reference -> return (array)', 'B', _P, "\tif isinstance(refs, SignatureArray):\n\t\tvalues = _cast_sigs_array(refs.values)", "\tif len(refs) == 1:\n\t\treturn out\n\tif isinstance(refs, SignatureArray):\n\t\tvalues = _cast_sigs_array(refs.values)", 'B4'),
    V('E: guard clause: no references -> return (array)', 'E', _P, "\tif isinstance(refs, SignatureArray):\n\t\tvalues = _cast_sigs_array(refs.values)", "\tif len(refs) == 0:\n\t\treturn out\n\tif isinstance(refs, SignatureArray):\n\t\tvalues = _cast_sigs_array(refs.values)"),
    V('E: array fast path returns from its own branch', 'E', _P, "\t\t_cmetric._jaccarddist_parallel(query, values, bounds, out)\n", "\t\t_cmetric._jaccarddist_parallel(query, values, bounds, out)\n\t\treturn out\n"),
    V('E: chunk_slices as a counted loop, last slice clipped', 'E', 'src/gambit/util/misc.py', "\tstart = 0\n\twhile start < n:\n\t\tstop = start + size\n\t\tyield slice(start, stop)\n\t\tstart = stop\n", "\tfor start in range(0, n, size):\n\t\tyield slice(start, min(start + size, n))\n"),
    V('counted loop stops at n - 1: a last chunk of one element is dropped (seeded C08f)', 'B', 'src/gambit/util/misc.py', "\tstart = 0\n\twhile start < n:\n\t\tstop = start + size\n\t\tyield slice(start, stop)\n\t\tstart = stop\n", "\tfor start in range(0, n - 1, size):\n\t\tyield slice(start, min(start + size, n))\n", 'B5'),
    V('counted loop starts at the first full chunk boundary', 'B', 'src/gambit/util/misc.py', "\tstart = 0\n\twhile start < n:\n\t\tstop = start + size\n\t\tyield slice(start, stop)\n\t\tstart = stop\n", "\tfor start in range(size, n, size):\n\t\tyield slice(start, start + size)\n", 'B5'),
    V('diagonal not zeroed', 'B', _P, "\t\tnp.fill_diagonal(out, 0)", "\t\tpass", 'B6'),
    V('consecutive-run fast path judged by the endpoints only (seeded C05a)', 'B', 'src/gambit/sigs/base.py',
      "\tdef _getitem_int_array(self, indices):\n\t\tout = SignatureArray.uninitialized(",
      "\tdef _getitem_int_array(self, indices):\n\t\tn = len(indices)\n\t\tif n > 1 and int(indices[-1]) - int(indices[0]) == n - 1:\n\t\t\treturn self._getitem_slice(slice(int(indices[0]), int(indices[-1]) + 1))\n\t\tout = SignatureArray.uninitialized(", 'X5'),
    # ---- idioms accepted by value (refactoring twins): every E form has a broken twin of the same shape
    V('E: cast inlined into the kernel call', 'E', _P, _SLOW, "\t\t\tout[i] = _cmetric.jaccarddist(query, _cast_sigs_array(ref))"),
    V('twin: inlined cast applied to the first reference', 'B', _P, _SLOW, "\t\t\tout[i] = _cmetric.jaccarddist(query, _cast_sigs_array(refs[0]))", 'B4'),
    V('twin: inlined cast, cell of the previous iteration', 'B', _P, _SLOW, "\t\t\tout[i - 1] = _cmetric.jaccarddist(query, _cast_sigs_array(ref))", 'B4'),
    V('E: kernel value bound to a local before the store', 'E', _P, _SLOW, "\t\t\tref = _cast_sigs_array(ref)\n\t\t\td = _cmetric.jaccarddist(query, ref)\n\t\t\tout[i] = d"),
    V('twin: local kernel value clipped before the store', 'B', _P, _SLOW, "\t\t\tref = _cast_sigs_array(ref)\n\t\t\td = _cmetric.jaccarddist(query, ref)\n\t\t\td = min(d, 1)\n\t\t\tout[i] = d", 'B1'),
    V('E: slow path indexes the references by position', 'E', _P, "\t\tfor i, ref in enumerate(refs):\n" + _SLOW, "\t\tfor i in range(len(refs)):\n\t\t\tout[i] = _cmetric.jaccarddist(query, _cast_sigs_array(refs[i]))"),
    V('twin: positional slow path reads the neighbouring reference', 'B', _P, "\t\tfor i, ref in enumerate(refs):\n" + _SLOW, "\t\tfor i in range(len(refs)):\n\t\t\tout[i] = _cmetric.jaccarddist(query, _cast_sigs_array(refs[i - 1]))", 'B4'),
    V('E: slow path as guard clause with early return, fast path operands inlined', 'E', _P, _DISPATCH,
      "\tif not isinstance(refs, SignatureArray):\n\t\tfor i, ref in enumerate(refs):\n\t\t\tout[i] = _cmetric.jaccarddist(query, _cast_sigs_array(ref))\n\t\treturn out\n\n"
      "\t_cmetric._jaccarddist_parallel(query, _cast_sigs_array(refs.values), refs.bounds.astype(BOUNDS_DTYPE, copy=False), out)\n\treturn out\n\n\ndef jaccarddist_matrix("),
    V('twin: guard clause without the early return (every container falls into the fast path)', 'B', _P, _DISPATCH,
      "\tif not isinstance(refs, SignatureArray):\n\t\tfor i, ref in enumerate(refs):\n\t\t\tout[i] = _cmetric.jaccarddist(query, _cast_sigs_array(ref))\n\n"
      "\t_cmetric._jaccarddist_parallel(query, _cast_sigs_array(refs.values), refs.bounds.astype(BOUNDS_DTYPE, copy=False), out)\n\treturn out\n\n\ndef jaccarddist_matrix(", 'B3'),
    V('twin: guard clause, fast path operands inlined from another view of the values', 'B', _P, _DISPATCH,
      "\tif not isinstance(refs, SignatureArray):\n\t\tfor i, ref in enumerate(refs):\n\t\t\tout[i] = _cmetric.jaccarddist(query, _cast_sigs_array(ref))\n\t\treturn out\n\n"
      "\t_cmetric._jaccarddist_parallel(query, _cast_sigs_array(refs.values[1:]), refs.bounds.astype(BOUNDS_DTYPE, copy=False), out)\n\treturn out\n\n\ndef jaccarddist_matrix(", 'B3'),
    V('E: chunk selected in an if/else', 'E', _P, _CHUNK, "\t\t\tif ref_indices is None:\n\t\t\t\tref_chunk = refs[ref_slice]\n\t\t\telse:\n\t\t\t\tref_chunk = refs[ref_indices[ref_slice]]\n"),
    V('twin: if/else chunk selection ignores ref_indices in the else arm', 'B', _P, _CHUNK, "\t\t\tif ref_indices is None:\n\t\t\t\tref_chunk = refs[ref_slice]\n\t\t\telse:\n\t\t\t\tref_chunk = refs[ref_slice]\n", 'B5'),
    V('twin: if/else chunk selection with the arms exchanged', 'B', _P, _CHUNK, "\t\t\tif ref_indices is not None:\n\t\t\t\tref_chunk = refs[ref_slice]\n\t\t\telse:\n\t\t\t\tref_chunk = refs[ref_indices[ref_slice]]\n", 'B5'),
    V('E: chunk list as a conditional expression', 'E', _P, _SLICES, "\tref_slices = [slice(0, nrefs)] if chunksize is None else list(chunk_slices(nrefs, chunksize))\n"),
    V('twin: conditional-expression chunk list spans the query count', 'B', _P, _SLICES, "\tref_slices = [slice(0, nqueries)] if chunksize is None else list(chunk_slices(nrefs, chunksize))\n", 'B5'),
    V('twin: conditional-expression chunk list starts at 1', 'B', _P, _SLICES, "\tref_slices = [slice(1, nrefs)] if chunksize is None else list(chunk_slices(nrefs, chunksize))\n", 'B5'),
    V('E: column view taken once per chunk', 'E', _P, _QLOOP, "\t\t\tchunk_out = out[:, ref_slice]\n\t\t\tfor (i, query) in enumerate(queries):\n\t\t\t\tjaccarddist_array(query, ref_chunk, out=chunk_out[i])"),
    V('twin: hoisted column view, every query written to row 0', 'B', _P, _QLOOP, "\t\t\tchunk_out = out[:, ref_slice]\n\t\t\tfor (i, query) in enumerate(queries):\n\t\t\t\tjaccarddist_array(query, ref_chunk, out=chunk_out[0])", 'B5'),
    V('twin: hoisted view of all columns', 'B', _P, _QLOOP, "\t\t\tchunk_out = out[:, :]\n\t\t\tfor (i, query) in enumerate(queries):\n\t\t\t\tjaccarddist_array(query, ref_chunk, out=chunk_out[i])", 'B5'),
    V('E: chunks loaded by a generator yielding (column slice, chunk)', 'E', _P, _CHUNKLOOP, "\t\tfor ref_slice, ref_chunk in _load_chunks(refs, ref_indices, ref_slices):\n", also=[(_P, _NUMPAIRS, _GEN % 'sigs[index[sl]]' + _NUMPAIRS)]),
    V('twin: generator ignores the index selection on one path', 'B', _P, _CHUNKLOOP, "\t\tfor ref_slice, ref_chunk in _load_chunks(refs, ref_indices, ref_slices):\n", 'B5', also=[(_P, _NUMPAIRS, _GEN % 'sigs[sl]' + _NUMPAIRS)]),
    V('twin: generator call passes the selection in the wrong position', 'B', _P, _CHUNKLOOP, "\t\tfor ref_slice, ref_chunk in _load_chunks(ref_indices, refs, ref_slices):\n", 'B5', also=[(_P, _NUMPAIRS, _GEN % 'sigs[index[sl]]' + _NUMPAIRS)]),
    V('E: n computed in the arms of an if/else', 'E', _P, _NDEF, "\tif indices is None:\n\t\tn = len(sigs)\n\telse:\n\t\tindices = np.asarray(indices)\n\t\tn = len(indices)\n"),
    V('twin: if/else n counts the whole collection on the selection path', 'B', _P, _NDEF, "\tif indices is None:\n\t\tn = len(sigs)\n\telse:\n\t\tindices = np.asarray(indices)\n\t\tn = len(sigs)\n", 'B6'),
    V('E: row and column signatures chosen in one if/else', 'E', _P, _ROWCOL,
      "\t\t\tcols = slice(i + 1, n)\n\t\t\tncol = n - i - 1\n\t\t\tif indices is None:\n\t\t\t\trow_sig = sigs[i]\n\t\t\t\tcol_sigs = sigs[cols]\n\t\t\telse:\n\t\t\t\trow_sig = sigs[indices[i]]\n\t\t\t\tcol_sigs = sigs[indices[cols]]\n"),
    V('twin: if/else row signature not taken through the selection', 'B', _P, _ROWCOL,
      "\t\t\tcols = slice(i + 1, n)\n\t\t\tncol = n - i - 1\n\t\t\tif indices is None:\n\t\t\t\trow_sig = sigs[i]\n\t\t\t\tcol_sigs = sigs[cols]\n\t\t\telse:\n\t\t\t\trow_sig = sigs[i]\n\t\t\t\tcol_sigs = sigs[indices[cols]]\n", 'B6'),
    V('twin: if/else column signatures selected by position i', 'B', _P, _ROWCOL,
      "\t\t\tcols = slice(i + 1, n)\n\t\t\tncol = n - i - 1\n\t\t\tif indices is None:\n\t\t\t\trow_sig = sigs[i]\n\t\t\t\tcol_sigs = sigs[cols]\n\t\t\telse:\n\t\t\t\trow_sig = sigs[indices[i]]\n\t\t\t\tcol_sigs = sigs[indices[i]]\n", 'B6'),
    V('E: mirror copies the row view that was just filled', 'E', _P, "out[cols, i] = out[i, cols]", "out[cols, i] = row_out"),
    V('twin: row view copied onto itself (lower triangle never written)', 'B', _P, "out[cols, i] = out[i, cols]", "out[i, cols] = row_out", 'B6'),
    V('twin: row view mirrored before the row is computed', 'B', _P, "\t\t\tjaccarddist_array(row_sig, col_sigs, out=row_out)\n", "\t\t\tif not flat:\n\t\t\t\tout[cols, i] = row_out\n\t\t\tjaccarddist_array(row_sig, col_sigs, out=row_out)\n", 'B6',
      also=[(_P, "\t\t\t\tout[cols, i] = out[i, cols]", "\t\t\t\tpass")]),
    V('E: mirror with literal slices', 'E', _P, "out[cols, i] = out[i, cols]", "out[i + 1:n, i] = out[i, i + 1:n]"),
    V('twin: literal-slice mirror includes the diagonal', 'B', _P, "out[cols, i] = out[i, cols]", "out[i:n, i] = out[i, i:n]", 'B6'),
    V('E: condensed offset in closed form (pairs minus pairs of the remaining rows)', 'E', _P, _ROWOUT, "\t\t\tstart = npairs - num_pairs(n - i)\n\t\t\trow_out = out[start:start + ncol] if flat else out[i, cols]\n", also=_NOCOUNTER),
    V('twin: closed-form offset one row late', 'B', _P, _ROWOUT, "\t\t\tstart = npairs - num_pairs(n - i - 1)\n\t\t\trow_out = out[start:start + ncol] if flat else out[i, cols]\n", 'B6', also=_NOCOUNTER),
    V('E: condensed offset as i * (2n - i - 1) // 2', 'E', _P, _ROWOUT, "\t\t\tstart = i * (2 * n - i - 1) // 2\n\t\t\trow_out = out[start:start + ncol] if flat else out[i, cols]\n", also=_NOCOUNTER),
    V('twin: closed-form polynomial with a sign error', 'B', _P, _ROWOUT, "\t\t\tstart = i * (2 * n - i + 1) // 2\n\t\t\trow_out = out[start:start + ncol] if flat else out[i, cols]\n", 'B6', also=_NOCOUNTER),
    V('E: condensed block bounded by two closed forms, ncol inlined', 'E', _P, _ROWOUT, "\t\t\trow_out = out[npairs - num_pairs(n - i):npairs - num_pairs(n - i - 1)] if flat else out[i, cols]\n", also=_NOCOUNTER),
    V('twin: closed-form block one cell short', 'B', _P, _ROWOUT, "\t\t\trow_out = out[npairs - num_pairs(n - i):npairs - num_pairs(n - i - 1) - 1] if flat else out[i, cols]\n", 'B6', also=_NOCOUNTER),
    V('twin: closed-form block used in square mode too', 'B', _P, _ROWOUT, "\t\t\trow_out = out[npairs - num_pairs(n - i):npairs - num_pairs(n - i - 1)]\n", 'B6', also=_NOCOUNTER),
    # ---- second round: several fill sites, local accessor functions, parallel assignment, window counter
    V('E: loop unswitched on flat, local accessor per arm of `indices is None`, (start, stop) window', 'E', _P, _PWTAIL, _unswitched()),
    V('twin: accessor of the selection arm ignores the selection', 'B', _P, _PWTAIL, _unswitched(sel_else='sigs[which]'), 'B6'),
    V('twin: accessor arms exchanged', 'B', _P, _PWTAIL, _unswitched(sel_test='indices is not None'), 'B6'),
    V('twin: window advanced by one cell too many', 'B', _P, _PWTAIL, _unswitched(window='start, stop = stop, stop + (n - i)'), 'B6'),
    V('twin: window starts at the new stop', 'B', _P, _PWTAIL, _unswitched(window='stop = stop + (n - i - 1)\n\t\t\t\tstart = stop'), 'B6'),
    V('twin: window counter starts at 1', 'B', _P, _PWTAIL, _unswitched(init='stop = 1'), 'B6'),
    V('twin: unswitched square loop without the mirror copy', 'B', _P, _PWTAIL, _unswitched(mirror='pass'), 'B6'),
    V('twin: unswitched square loop skips the first row', 'B', _P, _PWTAIL, _unswitched(sq_range='range(1, n - 1)'), 'B6'),
    V('twin: unswitched condensed loop takes the columns from i', 'B', _P, _PWTAIL, _unswitched(flat_cols='slice(i, n)'), 'B6'),
    V('E: one loop, one call per layout', 'E', _P, _PWCALL, _two_sites()),
    V('twin: condensed call site writes the square block', 'B', _P, _PWCALL, _two_sites(flat_out='out[i, cols]'), 'B6'),
    V('twin: square call site mirrors into the wrong column', 'B', _P, _PWCALL, _two_sites(mirror='out[cols, i + 1] = out[i, cols]'), 'B6'),
    V('twin: closed-form offset of the condensed call site one row late', 'B', _P, _PWCALL, _two_sites(start='npairs - num_pairs(n - i - 1)'), 'B6'),
    V('E: row and column signatures by parallel assignment', 'E', _P, _ROWCOL,
      "\t\t\tcols = slice(i + 1, n)\n\t\t\tncol = n - i - 1\n\t\t\tif indices is None:\n\t\t\t\trow_sig, col_sigs = sigs[i], sigs[cols]\n\t\t\telse:\n\t\t\t\trow_sig, col_sigs = sigs[indices[i]], sigs[indices[cols]]\n"),
    V('twin: parallel assignment with the two values exchanged', 'B', _P, _ROWCOL,
      "\t\t\tcols = slice(i + 1, n)\n\t\t\tncol = n - i - 1\n\t\t\tif indices is None:\n\t\t\t\trow_sig, col_sigs = sigs[i], sigs[cols]\n\t\t\telse:\n\t\t\t\tcol_sigs, row_sig = sigs[indices[i]], sigs[indices[cols]]\n", 'B6'),
    V('twin: parallel assignment, columns not taken through the selection', 'B', _P, _ROWCOL,
      "\t\t\tcols = slice(i + 1, n)\n\t\t\tncol = n - i - 1\n\t\t\tif indices is None:\n\t\t\t\trow_sig, col_sigs = sigs[i], sigs[cols]\n\t\t\telse:\n\t\t\t\trow_sig, col_sigs = sigs[indices[i]], sigs[cols]\n", 'B6'),
    V('pairwise: list wrap applied to signature arrays instead of plain lists', 'B', _P, "\tif not isinstance(sigs, AbstractSignatureArray):", "\tif isinstance(sigs, AbstractSignatureArray):", 'B6'),
    V('matrix: chunk list arms exchanged (chunk_slices with no chunk size)', 'B', _P, "\tif chunksize is None:\n\t\tref_slices = [slice(0, nrefs)]", "\tif chunksize is not None:\n\t\tref_slices = [slice(0, nrefs)]", 'B5'),
    # ---- third round: moved / aliased gate, delegation to the public wrapper, gated loop header, singledispatch, generators with
    # several yield sites, loop headers built from range / zip / accumulate
    V('E: gate called through a module-level alias', 'E', _P, "\tquery = _cast_sigs_array(query)\n\n\tif out is None:\n\t\tout = np.empty(len(refs)", "\tquery = _gate(query)\n\n\tif out is None:\n\t\tout = np.empty(len(refs)",
      also=[(_P, "def jaccard(coords1", "_gate = _cast_sigs_array\n\n\ndef jaccard(coords1")]),
    V('twin: aliased gate applied to a reversed query', 'B', _P, "\tquery = _cast_sigs_array(query)\n\n\tif out is None:\n\t\tout = np.empty(len(refs)", "\tquery = _gate(query[::-1])\n\n\tif out is None:\n\t\tout = np.empty(len(refs)", 'B3',
      also=[(_P, "def jaccard(coords1", "_gate = _cast_sigs_array\n\n\ndef jaccard(coords1")]),
    V('E: slow path delegates each cell to the public two-signature function', 'E', _P, _SLOW, "\t\t\tout[i] = jaccarddist(query, ref)"),
    V('twin: delegated cell computed against the first reference', 'B', _P, _SLOW, "\t\t\tout[i] = jaccarddist(query, refs[0])", 'B4'),
    V('twin: delegation to a wrapper that compares its first operand with itself', 'B', _P, _SLOW, "\t\t\tout[i] = jaccarddist(query, ref)", 'B1',
      also=[(_P, "\treturn _cmetric.jaccarddist(coords1, coords2)", "\treturn _cmetric.jaccarddist(coords1, coords1)")]),
    V('twin: delegation to a wrapper that rounds the kernel value', 'B', _P, _SLOW, "\t\t\tout[i] = jaccarddist(query, ref)", 'B1',
      also=[(_P, "\treturn _cmetric.jaccarddist(coords1, coords2)", "\treturn round(_cmetric.jaccarddist(coords1, coords2), 6)")]),
    V('E: wrapper gates both operands through a * spread helper', 'E', _P, _SLOW, "\t\t\tout[i] = jaccarddist(query, ref)",
      also=[(_P, _WRAP, "\treturn _cmetric.jaccarddist(*_gate_all(coords1, coords2))\n"), (_P, "def jaccard(coords1", "def _gate_all(*arrs):\n\treturn [_cast_sigs_array(a) for a in arrs]\n\n\ndef jaccard(coords1")]),
    V('twin: spread helper gates only the first of its arguments', 'B', _P, _SLOW, "\t\t\tout[i] = jaccarddist(query, ref)", 'B1',
      also=[(_P, _WRAP, "\treturn _cmetric.jaccarddist(*_gate_all(coords1, coords2))\n"), (_P, "def jaccard(coords1", "def _gate_all(*arrs):\n\treturn [_cast_sigs_array(arrs[0]) for a in arrs]\n\n\ndef jaccard(coords1")]),
    V('twin: spread of the operands in exchanged-and-duplicated order', 'B', _P, _SLOW, "\t\t\tout[i] = jaccarddist(query, ref)", 'B1',
      also=[(_P, _WRAP, "\treturn _cmetric.jaccarddist(*_gate_all(coords2, coords2))\n"), (_P, "def jaccard(coords1", "def _gate_all(*arrs):\n\treturn [_cast_sigs_array(a) for a in arrs]\n\n\ndef jaccard(coords1")]),
    V('E: loop header gates the references (enumerate(map(gate, refs)))', 'E', _P, "\t\tfor i, ref in enumerate(refs):\n" + _SLOW, "\t\tfor i, ref in enumerate(map(_cast_sigs_array, refs)):\n\t\t\tout[i] = _cmetric.jaccarddist(query, ref)"),
    V('twin: gated header walks the references backwards', 'B', _P, "\t\tfor i, ref in enumerate(refs):\n" + _SLOW, "\t\tfor i, ref in enumerate(map(_cast_sigs_array, refs[::-1])):\n\t\t\tout[i] = _cmetric.jaccarddist(query, ref)", 'B4'),
    V('twin: header maps something that is not the gate', 'B', _P, "\t\tfor i, ref in enumerate(refs):\n" + _SLOW, "\t\tfor i, ref in enumerate(map(np.asarray, refs)):\n\t\t\tout[i] = _cmetric.jaccarddist(query, ref)", 'B4'),
    V('E: container dispatch by functools.singledispatch', 'E', _P, _DISPATCH, _sd_call(), also=_sd_defs()),
    V('twin: singledispatch default loop fills the previous cell', 'B', _P, _DISPATCH, _sd_call(), 'B4', also=_sd_defs(store='out[i - 1]')),
    V('twin: singledispatch fast path registered for every signature array', 'B', _P, _DISPATCH, _sd_call(), 'B3', also=_sd_defs(reg='AbstractSignatureArray')),
    V('twin: singledispatch fast path takes bounds of a slice of the collection', 'B', _P, _DISPATCH, _sd_call(), 'B3', also=_sd_defs(bounds='refs.bounds[1:].astype(BOUNDS_DTYPE, copy=False)')),
    V('twin: singledispatch call hands over a copy of the buffer', 'B', _P, _DISPATCH, _sd_call('out.copy()'), 'B1', also=_sd_defs()),
    V('E: pairwise rows from a generator yielding in both arms of an if/else', 'E', _P, _PWHEAD, _pw_gen_loop(), also=_pw_gen()),
    V('twin: row generator ignores the selection for the columns', 'B', _P, _PWHEAD, _pw_gen_loop(), 'B6', also=_pw_gen(else_cols='sigs[cols]')),
    V('twin: row generator starts at row 1', 'B', _P, _PWHEAD, _pw_gen_loop(), 'B6', also=_pw_gen(rng='range(1, n - 1)')),
    V('twin: row generator called with the whole collection size', 'B', _P, _PWHEAD, _pw_gen_loop('len(sigs)'), 'B6', also=_pw_gen()),
    V('E: row lengths and condensed offsets from range / accumulate / zip', 'E', _P, _PWTAIL, _accum(), also=[(_P, _IMP, 'import itertools\n' + _IMP)]),
    V('twin: accumulate without initial (every row one block late)', 'B', _P, _PWTAIL, _accum(acc='accumulate(ncols)'), 'B6', also=[(_P, _IMP, 'import itertools\n' + _IMP)]),
    V('twin: row lengths start at n', 'B', _P, _PWTAIL, _accum(ncols='range(n, 0, -1)'), 'B6', also=[(_P, _IMP, 'import itertools\n' + _IMP)]),
    V('twin: offsets accumulate from 1', 'B', _P, _PWTAIL, _accum(acc='accumulate(ncols, initial=1)'), 'B6', also=[(_P, _IMP, 'import itertools\n' + _IMP)]),
    V('twin: zip header unpacked in exchanged order', 'B', _P, _PWTAIL, _accum(tgt='i, (offset, ncol)'), 'B6', also=[(_P, _IMP, 'import itertools\n' + _IMP)]),
    # ---- caller-supplied buffer: the polarity of the shape / dtype checks is decided per path
    V('array: shape test inverted', 'B', _P, "\telif out.shape != (len(refs),):", "\telif out.shape == (len(refs),):", 'B1'),
    V('array: shape test wrapped in not', 'B', _P, "\telif out.shape != (len(refs),):", "\telif not out.shape != (len(refs),):", 'B1'),
    V('matrix: shape test inverted', 'B', _P, "\telif out.shape != (nqueries, nrefs):", "\telif out.shape == (nqueries, nrefs):", 'B1'),
    V('pairwise: shape test inverted', 'B', _P, "\t\tif out.shape != out_shape:", "\t\tif out.shape == out_shape:", 'B1'),
    V('array and matrix: dtype test inverted', 'B', _P, "\telif out.dtype != SCORE_DTYPE:", "\telif out.dtype == SCORE_DTYPE:", 'B1', count=2),
    V('pairwise: dtype test inverted', 'B', _P, "\t\tif out.dtype != SCORE_DTYPE:", "\t\tif out.dtype == SCORE_DTYPE:", 'B1'),
    V('array: buffer compared with the shape of something else', 'B', _P, "\telif out.shape != (len(refs),):", "\telif out.shape != (len(query),):", 'B1'),
    V('matrix: dtype check dropped', 'B', _P, _MVALID, "\tif out is None:\n\t\tout = np.empty((nqueries, nrefs), SCORE_DTYPE)\n\telif out.shape != (nqueries, nrefs):\n\t\traise ValueError('Output array must have shape (nqueries, nrefs).')\n", 'B1'),
    V('E: buffer checks as one disjunction', 'E', _P, _MVALID, "\tif out is None:\n\t\tout = np.empty((nqueries, nrefs), SCORE_DTYPE)\n\telif out.shape != (nqueries, nrefs) or out.dtype != SCORE_DTYPE:\n\t\traise ValueError('Bad output array.')\n"),
    V('twin: disjunction written as a conjunction (one mismatch passes)', 'B', _P, _MVALID,
      "\tif out is None:\n\t\tout = np.empty((nqueries, nrefs), SCORE_DTYPE)\n\telif out.shape != (nqueries, nrefs) and out.dtype != SCORE_DTYPE:\n\t\traise ValueError('Bad output array.')\n", 'B1'),
    V('E: buffer checks as guard clauses under `out is not None`', 'E', _P, _MVALID,
      "\tif out is not None:\n\t\tif out.shape != (nqueries, nrefs):\n\t\t\traise ValueError('Output array must have shape (nqueries, nrefs).')\n\t\tif out.dtype != SCORE_DTYPE:\n\t\t\traise ValueError('Output array dtype')\n"
      "\telse:\n\t\tout = np.empty((nqueries, nrefs), SCORE_DTYPE)\n"),
    V('twin: guard clauses, the shape clause raises on a match', 'B', _P, _MVALID,
      "\tif out is not None:\n\t\tif out.shape == (nqueries, nrefs):\n\t\t\traise ValueError('Output array must have shape (nqueries, nrefs).')\n\t\tif out.dtype != SCORE_DTYPE:\n\t\t\traise ValueError('Output array dtype')\n"
      "\telse:\n\t\tout = np.empty((nqueries, nrefs), SCORE_DTYPE)\n"),
    V('twin: guard clauses, the dtype clause only runs for a wrong shape', 'B', _P, _MVALID,
      "\tif out is not None:\n\t\tif out.shape != (nqueries, nrefs):\n\t\t\tif out.dtype != SCORE_DTYPE:\n\t\t\t\traise ValueError('Output array dtype')\n\t\t\traise ValueError('Output array must have shape (nqueries, nrefs).')\n"
      "\telse:\n\t\tout = np.empty((nqueries, nrefs), SCORE_DTYPE)\n"),
    V('E: ncol = n - (i + 1)', 'E', _P, "ncol = n - i - 1", "ncol = n - (i + 1)"),
    V('E: cols = slice(1 + i, n)', 'E', _P, "cols = slice(i + 1, n)", "cols = slice(1 + i, n)"),
    V('E: begin/end inlined differently named', 'E', _X, "\t\tbegin = ref_bounds[i]\n\t\tend = ref_bounds[i+1]\n\t\tout[i] = c_jaccarddist(query, ref_coords[begin:end])",
      "\t\tbegin = ref_bounds[i]\n\t\tend = ref_bounds[1 + i]\n\t\tout[i] = c_jaccarddist(query, ref_coords[begin:end])"),
]
