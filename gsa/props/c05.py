"""C05 - bulk and parallel distance computations agree bit-for-bit with the pairwise one.

B1 every output cell comes from the one kernel or is a copy / zero (closed list of store kinds, no arithmetic on cells)
B2 prange body race-free: only store is out[<induction var>], other assigned names are function-local scalars, callee nogil and pure
B3 fast path operands   B4 slow path pairing   B5 matrix: one slice selects reference chunk and output columns; chunk_slices tiles [0, n)
B6 pairwise: cols slice, mirror store, flat offsets, num_pairs   B7 thread-count setters touch no data
"""
import ast

from ..affine import Aff, sym
from ..astutil import (u, atoms, guard_map, path_atoms, stmts_in, calls_in, callee, callee_attr, reaching_def, def_value,
                       PARAM, AMBIGUOUS, get_arg, get_kw, is_none, is_const, raised_name, block_path, assigns_to)
from ..report import Undecided

MET = 'gambit.metric'
PYX = 'gambit._cython.metric'
KERNELS = {f'{PYX}.jaccarddist'}


def _root(e):
    while isinstance(e, (ast.Subscript, ast.Attribute)):
        e = e.value
    return e.id if isinstance(e, ast.Name) else None


def out_aliases(fi):
    """Names that are views of the output buffer: `out` itself and locals defined as subscripts of it."""
    names = {'out'}
    changed = True
    while changed:
        changed = False
        for s in stmts_in(fi.node.body):
            if isinstance(s, ast.Assign) and len(s.targets) == 1 and isinstance(s.targets[0], ast.Name) and s.targets[0].id not in names:
                v = s.value
                cands = [v.body, v.orelse] if isinstance(v, ast.IfExp) else [v]
                if all(isinstance(c, ast.Subscript) and _root(c) in names for c in cands):
                    names.add(s.targets[0].id)
                    changed = True
    return names


def check_stores(ctx):
    rep, m = ctx.rep, ctx.model
    kinds = {}
    for fname in ('jaccarddist_array', 'jaccarddist_matrix', 'jaccarddist_pairwise'):
        fi = m.func(f'{MET}.{fname}')
        rep.functions.add(fi.qualname)
        al = out_aliases(fi)
        for s in stmts_in(fi.node.body):
            if isinstance(s, ast.AugAssign) and _root(s.target) in al:
                rep.add('B1', fi.site(s), 'no arithmetic is performed on an output cell', False, expected='kernel value / copy / zero', found=u(s), stmt=s)
            if isinstance(s, ast.Assign):
                for t in s.targets:
                    if isinstance(t, ast.Subscript) and _root(t) in al:
                        v = s.value
                        if isinstance(v, ast.Call) and m.resolve_call(fi, v) in KERNELS:
                            kinds.setdefault('kernel', []).append(s)
                            rep.add('B1', fi.site(s), 'the cell is the unmodified value of the two-signature kernel', True, found=u(v), stmt=s)
                        elif isinstance(v, ast.Subscript) and _root(v) in al:
                            kinds.setdefault('mirror', []).append(s)
                            rep.add('B1', fi.site(s), 'the cell is a copy of another cell of the same buffer', True, found=u(v), stmt=s)
                        else:
                            rep.add('B1', fi.site(s), 'every stored cell is a kernel value, a copy of a cell, or zero (no rounding / arithmetic / other source)', False,
                                    expected='_cmetric.jaccarddist(...) | out[...]', found=u(v), stmt=s)
        for c in calls_in(fi.node):
            f = m.resolve_call(fi, c) or u(c.func)
            o = get_arg(c, 2, 'out') if f == f'{MET}.jaccarddist_array' else get_kw(c, 'out')
            uses_out = [a for a in list(c.args) + [k.value for k in c.keywords] if _root(a) in al] if not isinstance(c.func, ast.Attribute) or _root(c.func) not in al else [c.func]
            if not uses_out:
                continue
            if f == f'{MET}.jaccarddist_array' and o is not None and _root(o) in al:
                kinds.setdefault('delegate', []).append(c)
                rep.add('B1', fi.site(c), 'cells are filled by jaccarddist_array writing into a view of the buffer', True, found=u(c)[:70], stmt=c)
            elif f == f'{PYX}._jaccarddist_parallel':
                kinds.setdefault('parallel', []).append(c)
                rep.add('B1', fi.site(c), 'cells are filled by the parallel kernel', True, found=u(c)[:70], stmt=c)
            elif u(c.func) in ('np.fill_diagonal', 'numpy.fill_diagonal'):
                ok = _root(c.args[0]) in al and is_const(c.args[1], 0)
                kinds.setdefault('diagonal', []).append(c)
                rep.add('B1', fi.site(c), 'the diagonal is exactly zero (bit-identical to d(x, x))', ok, expected='np.fill_diagonal(out, 0)', found=u(c), stmt=c)
            elif u(c.func) in ('len',) or callee_attr(c) in ('increment',):
                continue
            elif isinstance(c.func, ast.Attribute) and _root(c.func) in al:
                rep.add('B1', fi.site(c), 'no in-place method touches the output buffer', False, expected='none', found=u(c), stmt=c)
            else:
                rep.add('B1', fi.site(c), 'the output buffer is not handed to anything but the kernels', False, expected='jaccarddist_array / _jaccarddist_parallel / fill_diagonal', found=u(c)[:70], stmt=c)
        rets = [s for s in stmts_in(fi.node.body) if isinstance(s, ast.Return)]
        rep.add('B1', fi.site(rets[-1] if rets else None), 'the buffer is returned as filled', bool(rets) and all(u(r.value) == 'out' for r in rets), expected='return out', found=[u(r.value) for r in rets], stmt=f'{fname} return')
        # out allocation: np.empty(shape, SCORE_DTYPE) under `out is None`; caller buffers validated for shape and dtype
        gm = guard_map(fi.node)
        allocs = [s for s in stmts_in(fi.node.body) if isinstance(s, ast.Assign) and u(s.targets[0]) == 'out']
        oka = len(allocs) == 1 and isinstance(allocs[0].value, ast.Call) and u(allocs[0].value.func) == 'np.empty' and u(get_arg(allocs[0].value, 1, 'dtype')) == 'SCORE_DTYPE' \
            and ('is', 'None', 'out') in path_atoms(gm[allocs[0]])
        rep.add('B1', fi.site(allocs[0] if allocs else None), 'a missing output buffer is allocated as float32 (no widening/narrowing of kernel values)', oka, expected='out = np.empty(shape, SCORE_DTYPE) under out is None',
                found=[u(a) for a in allocs], stmt=f'{fname} alloc')
        rs = [s for s in stmts_in(fi.node.body) if isinstance(s, ast.Raise)]
        dt = any(any(a[0] == 'ne' and 'out.dtype' in a and 'SCORE_DTYPE' in a for a in path_atoms(gm[r])) for r in rs)
        sh = any(any(a[0] == 'ne' and 'out.shape' in a for a in path_atoms(gm[r])) for r in rs)
        rep.add('B1', fi.site(rs[0] if rs else None), 'a caller-supplied buffer must have the exact shape and float32 dtype', dt and sh, expected='raise ValueError on shape / dtype mismatch', found=[u(r)[:50] for r in rs],
                stmt=f'{fname} buffer validation')
    rep.floor('B1', 'store kinds seen', len(kinds), 4)
    rep.info['store_kinds'] = {k: len(v) for k, v in kinds.items()}


def check_prange(ctx):
    rep, m = ctx.rep, ctx.model
    fi = m.func(f'{PYX}._jaccarddist_parallel')
    rep.functions.add(fi.qualname)
    q, rc, rb, out = fi.params()[:4]
    loops = [s for s in fi.node.body if isinstance(s, ast.For) and isinstance(s.iter, ast.Call) and u(s.iter.func) in ('prange', 'parallel.prange')]
    rep.floor('B2', 'prange loops in _jaccarddist_parallel', len(loops), 1)
    loop = loops[0]
    iv = u(loop.target)
    locals_decl = set(fi.module.side.get('types', {}).get(fi.name, {})) - set(fi.params())
    env = {}
    for s in fi.node.body:
        if isinstance(s, ast.AnnAssign) and s.value is not None and isinstance(s.target, ast.Name):
            a = Aff.try_of(s.value, {f'{rb}.shape[0]': sym('NB'), f'len({rb})': sym('NB')})
            if a is not None:
                env[s.target.id] = a
    n_arg = Aff.try_of(loop.iter.args[0], env)
    rep.add('B2', fi.site(loop), 'the loop covers every reference: N == len(ref_bounds) - 1', n_arg == sym('NB').plus(-1), expected='ref_bounds.shape[0] - 1', found=n_arg, stmt='prange bound')
    rep.add('B2', fi.site(loop), 'the prange releases the GIL', is_const(get_kw(loop.iter, 'nogil'), True), expected='nogil=True', found=u(get_kw(loop.iter, 'nogil')), stmt='prange nogil')
    stores, others = [], []
    for s in stmts_in(loop.body):
        if isinstance(s, ast.Assign):
            for t in s.targets:
                if isinstance(t, ast.Subscript):
                    stores.append((t, s))
                elif isinstance(t, ast.Name):
                    others.append((t.id, s))
                else:
                    raise Undecided(f'_jaccarddist_parallel: assignment target {u(t)}')
        elif isinstance(s, ast.AugAssign):
            tname = _root(s.target)
            rep.add('B2', fi.site(s), 'no reduction / shared accumulator in the parallel body', False, expected='no augmented assignment', found=u(s), stmt=s)
        elif isinstance(s, (ast.Expr, ast.Pass)):
            continue
        elif isinstance(s, (ast.If, ast.For, ast.While)):
            continue
        else:
            raise Undecided(f'_jaccarddist_parallel: statement {u(s)[:50]}')
    ok = len(stores) == 1 and u(stores[0][0].value) == out and u(stores[0][0].slice) == iv
    rep.add('B2', fi.site(stores[0][1] if stores else loop), 'the only memory written in the parallel body is out[<this iteration>] (race-free for every schedule and thread count)', ok, expected=f'{out}[{iv}] = ...',
            found=[u(t) for t, _ in stores], stmt='prange store')
    bad_names = [n for n, s in others if n not in locals_decl or n == iv]
    rep.add('B2', fi.site(loop), 'every other name assigned in the body is a scalar local of the function (privatised by Cython)', not bad_names, expected=sorted(locals_decl), found=[n for n, _ in others], stmt='prange locals')
    # cell value: kernel on (query, ref_coords[begin:end]) with begin/end the bounds of this iteration
    if stores:
        v = stores[0][1].value
        okv = isinstance(v, ast.Call) and u(v.func) == 'c_jaccarddist' and len(v.args) == 2 and u(v.args[0]) == q
        penv = {}
        for n, s in others:
            if isinstance(s.value, ast.Subscript) and u(s.value.value) == rb:
                a = Aff.try_of(s.value.slice, {iv: sym('i')})
                if a is not None:
                    penv[n] = a
        if okv:
            sl = v.args[1]
            okv = isinstance(sl, ast.Subscript) and u(sl.value) == rc and isinstance(sl.slice, ast.Slice) and sl.slice.step is None \
                and penv.get(u(sl.slice.lower)) == sym('i') and penv.get(u(sl.slice.upper)) == sym('i').plus(1)
        rep.add('B2', fi.site(stores[0][1]), 'cell i is the kernel value of (query, reference i = ref_coords[bounds[i] : bounds[i+1]])', okv, expected=f'c_jaccarddist({q}, {rc}[{rb}[i]:{rb}[i+1]])',
                found=(u(v), {k: str(a) for k, a in penv.items()}), stmt='prange cell')
    ck = m.func(f'{PYX}.c_jaccarddist')
    info = ck.cinfo() or {}
    writes = [s for s in stmts_in(ck.node.body) if isinstance(s, (ast.Assign, ast.AugAssign)) and any(isinstance(t, ast.Subscript) or (isinstance(t, ast.Name) and t.id not in set(ck.module.side['types'].get(ck.name, {})))
              for t in (s.targets if isinstance(s, ast.Assign) else [s.target]))]
    rep.add('B2', ck.site(), 'the kernel called from the parallel body is nogil and writes neither its arguments nor module state', info.get('nogil') is True and not writes, expected='nogil, no stores', found=(info.get('nogil'), [u(w) for w in writes]),
            stmt='kernel purity')


def check_array(ctx):
    rep, m = ctx.rep, ctx.model
    fi = m.func(f'{MET}.jaccarddist_array')
    gm = guard_map(fi.node)
    qp, rp = fi.params()[:2]
    par = [c for c in calls_in(fi.node) if m.resolve_call(fi, c) == f'{PYX}._jaccarddist_parallel']
    rep.require(len(par) == 1, 'jaccarddist_array: expected one parallel-kernel call')
    c = par[0]
    st = next(s for s in stmts_in(fi.node.body) if isinstance(s, ast.Expr) and s.value is c)
    at = path_atoms(gm[st])
    rep.add('B3', fi.site(c), 'the fast path is taken only for a concatenated in-memory array', ('true', f'isinstance({rp}, SignatureArray)') in at, expected=f'isinstance({rp}, SignatureArray)', found=sorted(at), stmt='fast path guard')
    pf = m.func(f'{PYX}._jaccarddist_parallel')
    rep.require(len(c.args) == 4, 'jaccarddist_array: parallel kernel arity')
    defs = {}
    for a in c.args[1:3]:
        d = reaching_def(fi.node, a.id, st) if isinstance(a, ast.Name) else None
        defs[u(a)] = def_value(d) if d not in (None, PARAM, AMBIGUOUS) else None
    v, b = (defs.get(u(a)) for a in c.args[1:3])
    okv = isinstance(v, ast.Call) and m.resolve_call(fi, v) == f'{MET}._cast_sigs_array' and u(v.args[0]) == f'{rp}.values'
    okb = isinstance(b, ast.Call) and u(b.func) == f'{rp}.bounds.astype' and u(b.args[0]) == 'BOUNDS_DTYPE'
    rep.add('B3', fi.site(c), 'kernel operands (query, values, bounds, out) come from the same collection, in the parameter order of the kernel', u(c.args[0]) == qp and okv and okb and u(c.args[3]) == 'out'
            and pf.params()[:4] == ['query', 'ref_coords', 'ref_bounds', 'out'], expected=f'({qp}, cast({rp}.values), {rp}.bounds.astype(BOUNDS_DTYPE), out)', found=(u(c), u(v), u(b), pf.params()), stmt='fast path operands')
    types = m.module('gambit._cython.types:pxd').side.get('typedefs', {})
    bd = m.module('gambit.sigs.base').assigns.get('BOUNDS_DTYPE')
    rep.add('B3', (m.module('gambit.sigs.base').relpath, getattr(bd, 'lineno', 1), 'gambit.sigs.base.BOUNDS_DTYPE'), 'bounds dtype on both sides of the boundary is the pointer-width integer', types.get('BOUNDS_T') == 'intptr_t'
            and u(bd) == 'np.dtype(np.intp)' and pf.ctype('ref_bounds') == 'BOUNDS_T[:]' and pf.ctype('out') == 'SCORE_T[:]', expected='intptr_t / np.intp; SCORE_T[:] out', found=(types.get('BOUNDS_T'), u(bd), pf.ctype('ref_bounds'), pf.ctype('out')),
            stmt='bounds dtype')
    # slow path
    ks = [s for s in stmts_in(fi.node.body) if isinstance(s, ast.Assign) and isinstance(s.value, ast.Call) and m.resolve_call(fi, s.value) in KERNELS]
    rep.require(len(ks) == 1, 'jaccarddist_array: expected one per-item kernel store')
    s = ks[0]
    bp = block_path(fi.node, s)
    loop = next((o for (_, _, o) in reversed(bp) if isinstance(o, ast.For)), None)
    ok = loop is not None and isinstance(loop.iter, ast.Call) and u(loop.iter.func) == 'enumerate' and [u(a) for a in loop.iter.args] == [rp] and isinstance(loop.target, ast.Tuple)
    if ok:
        i, r = (u(e) for e in loop.target.elts)
        tgt = s.targets[0]
        ok = u(tgt) == f'out[{i}]' and u(s.value.args[0]) == qp and u(s.value.args[1]) == r
        casts = [x for x in loop.body if isinstance(x, ast.Assign) and u(x.targets[0]) == r]
        ok = ok and len(casts) == 1 and isinstance(casts[0].value, ast.Call) and [u(a) for a in casts[0].value.args] == [r] and casts[0].lineno < s.lineno
    rep.add('B4', fi.site(s), 'slow path: cell i is the kernel value of (query, i-th reference), i and reference bound by one enumerate', ok, expected=f'for i, ref in enumerate({rp}): out[i] = jaccarddist({qp}, cast(ref))', found=u(loop)[:120] if loop else None,
            stmt='slow path pairing')
    at = path_atoms(gm[s])
    rep.add('B4', fi.site(s), 'the slow path handles every other container', ('false', f'isinstance({rp}, SignatureArray)') in at, expected='else branch', found=sorted(at), stmt='slow path guard')
    qc = [x for x in fi.node.body if isinstance(x, ast.Assign) and u(x.targets[0]) == qp]
    rep.add('B3', fi.site(qc[0] if qc else None), 'the query array itself (cast, not copied or reordered) is what both paths see', len(qc) == 1 and u(qc[0].value) == f'_cast_sigs_array({qp})', expected=f'{qp} = _cast_sigs_array({qp})',
            found=[u(x) for x in qc], stmt='query operand')


def check_matrix(ctx):
    rep, m = ctx.rep, ctx.model
    fi = m.func(f'{MET}.jaccarddist_matrix')
    gm = guard_map(fi.node)
    qp, rp, rip = fi.params()[:3]
    calls = [c for c in calls_in(fi.node) if m.resolve_call(fi, c) == f'{MET}.jaccarddist_array']
    rep.require(len(calls) == 1, 'jaccarddist_matrix: expected one jaccarddist_array call')
    c = calls[0]
    st = next(s for s in stmts_in(fi.node.body) if isinstance(s, ast.Expr) and s.value is c)
    bp = block_path(fi.node, st)
    loops = [o for (_, _, o) in bp if isinstance(o, ast.For)]
    rep.require(len(loops) == 2, 'jaccarddist_matrix: expected a chunk loop around a query loop')
    chunk_loop, q_loop = loops
    sl = u(chunk_loop.target)
    okq = isinstance(q_loop.iter, ast.Call) and u(q_loop.iter.func) == 'enumerate' and [u(a) for a in q_loop.iter.args] == [qp] and isinstance(q_loop.target, ast.Tuple)
    rep.add('B5', fi.site(q_loop), 'row index and query are bound by one enumerate over the queries', okq, expected=f'for i, query in enumerate({qp})', found=u(q_loop.iter), stmt='query enumerate')
    rep.require(okq, 'jaccarddist_matrix: query loop shape')
    i, qv = (u(e) for e in q_loop.target.elts)
    o = get_arg(c, 2, 'out')
    rep.add('B5', fi.site(c), 'row i, columns of this chunk receive the distances of query i to the chunk', u(c.args[0]) == qv and u(o) == f'out[{i}, {sl}]', expected=f'jaccarddist_array({qv}, chunk, out=out[{i}, {sl}])', found=u(c), stmt='matrix cell block')
    chunk = c.args[1]
    d = reaching_def(fi.node, chunk.id, q_loop) if isinstance(chunk, ast.Name) else None
    cv = def_value(d) if d not in (None, PARAM, AMBIGUOUS) else None
    okc = isinstance(cv, ast.Subscript) and u(cv.value) == rp
    idx = cv.slice if okc else None
    iv = idx
    if isinstance(idx, ast.Name):
        d2 = reaching_def(fi.node, idx.id, d)
        iv = def_value(d2) if d2 not in (None, PARAM, AMBIGUOUS) else None
    oki = isinstance(iv, ast.IfExp) and atoms(iv.test) == {('is', 'None', rip)} and u(iv.body) == sl and u(iv.orelse) == f'{rip}[{sl}]'
    oki = oki or (isinstance(iv, ast.IfExp) and atoms(iv.test) == {('isnot', 'None', rip)} and u(iv.orelse) == sl and u(iv.body) == f'{rip}[{sl}]')
    rep.add('B5', fi.site(d if isinstance(d, ast.AST) else c), 'the SAME slice selects the reference chunk (directly or through ref_indices) and the output columns', okc and oki,
            expected=f'{rp}[{sl} if {rip} is None else {rip}[{sl}]]', found=(u(cv), u(iv)), stmt='chunk selection')
    # slices: [slice(0, nrefs)] or list(chunk_slices(nrefs, chunksize))
    sdefs = [s for s in stmts_in(fi.node.body) if isinstance(s, ast.Assign) and u(s.targets[0]) == u(chunk_loop.iter)]
    vals = {u(s.value) for s in sdefs}
    nrefs = next((u(s.targets[0]) for s in fi.node.body if isinstance(s, ast.Assign) and isinstance(s.value, ast.IfExp) and u(s.value.body) == f'len({rp})'), None)
    oks = vals == {f'[slice(0, {nrefs})]', f'list(chunk_slices({nrefs}, chunksize))'}
    rep.add('B5', fi.site(sdefs[0] if sdefs else chunk_loop), 'column chunks are one full slice or the chunk_slices tiling of [0, nrefs)', oks, expected=f'[slice(0, {nrefs})] | list(chunk_slices({nrefs}, chunksize))', found=sorted(vals), stmt='chunk list')
    nd = next((s.value for s in fi.node.body if isinstance(s, ast.Assign) and u(s.targets[0]) == nrefs), None)
    okn = isinstance(nd, ast.IfExp) and atoms(nd.test) == {('is', 'None', rip)} and u(nd.body) == f'len({rp})' and u(nd.orelse) == f'len({rip})'
    rep.add('B5', fi.site(nd), 'number of columns = number of selected references', okn, expected=f'len({rp}) if {rip} is None else len({rip})', found=u(nd), stmt='column count')
    alloc = [s for s in stmts_in(fi.node.body) if isinstance(s, ast.Assign) and u(s.targets[0]) == 'out']
    nq = next((u(s.targets[0]) for s in fi.node.body if isinstance(s, ast.Assign) and u(s.value) == f'len({qp})'), None)
    rep.add('B5', fi.site(alloc[0] if alloc else None), 'the matrix has one row per query and one column per selected reference', len(alloc) == 1 and u(get_arg(alloc[0].value, 0, 'shape')) == f'({nq}, {nrefs})', expected=f'({nq}, {nrefs})',
            found=[u(a.value) for a in alloc], stmt='matrix shape')
    wrap = [s for s in fi.node.body if isinstance(s, ast.If) and any(isinstance(x, ast.Assign) and u(x.targets[0]) == rp for x in s.body)]
    okw = len(wrap) == 1 and u(wrap[0].body[0].value) == f'SignatureList({rp})' and ('false', f'isinstance({rp}, AbstractSignatureArray)') in path_atoms(gm[wrap[0].body[0]])
    rep.add('B5', fi.site(wrap[0] if wrap else None), 'a plain list of references is wrapped order-preservingly to support index selections', okw, expected=f'{rp} = SignatureList({rp})', found=[u(w)[:70] for w in wrap], stmt='list wrap')
    # chunk_slices
    fc = m.func('gambit.util.misc.chunk_slices')
    rep.functions.add(fc.qualname)
    n, size = fc.params()[:2]
    gmc = guard_map(fc.node)
    rs = [s for s in stmts_in(fc.node.body) if isinstance(s, ast.Raise)]
    rep.add('B5', fc.site(rs[0] if rs else None), 'a non-positive chunk size is rejected (no infinite loop / empty tiling)', len(rs) == 1 and path_atoms(gmc[rs[0]]) == {('le', size, '0')}, expected=f'raise under {size} <= 0',
            found=[sorted(path_atoms(gmc[r])) for r in rs], stmt='chunk size guard')
    loops = [s for s in fc.node.body if isinstance(s, ast.While)]
    rep.require(len(loops) == 1, 'chunk_slices: expected one while loop')
    lp = loops[0]
    cur = None
    a = atoms(lp.test)
    if a and len(a) == 1:
        (op, l, r), = a
        cur = l if op == 'lt' and r == n else None
    init = [s for s in fc.node.body if isinstance(s, ast.Assign) and u(s.targets[0]) == cur and s.lineno < lp.lineno]
    env = {cur: sym('start'), size: sym('size')}
    ys = [x for x in ast.walk(lp) if isinstance(x, ast.Yield)]
    okt = cur is not None and len(init) == 1 and is_const(init[0].value, 0) and len(ys) == 1
    stop_env = dict(env)
    nxt = None
    for s in lp.body:
        if isinstance(s, ast.Assign) and isinstance(s.targets[0], ast.Name):
            v = Aff.try_of(s.value, stop_env)
            if s.targets[0].id == cur:
                nxt = v
            elif v is not None:
                stop_env[s.targets[0].id] = v
    if okt:
        y = ys[0].value
        okt = isinstance(y, ast.Call) and u(y.func) == 'slice' and len(y.args) == 2 and Aff.try_of(y.args[0], stop_env) == sym('start') and Aff.try_of(y.args[1], stop_env) == sym('start').add(sym('size')) \
            and nxt == sym('start').add(sym('size'))
    rep.add('B5', fc.site(lp), 'chunk_slices tiles [0, n): starts at 0, yields [start, start+size), continues at the previous stop while start < n (no gap, no overlap)', okt,
            expected='start = 0; while start < n: yield slice(start, start + size); start = start + size', found=[u(s) for s in lp.body], stmt='tiling')


def check_pairwise(ctx):
    rep, m = ctx.rep, ctx.model
    fi = m.func(f'{MET}.jaccarddist_pairwise')
    gm = guard_map(fi.node)
    sp, ip = fi.params()[:2]
    calls = [c for c in calls_in(fi.node) if m.resolve_call(fi, c) == f'{MET}.jaccarddist_array']
    rep.require(len(calls) == 1, 'jaccarddist_pairwise: expected one jaccarddist_array call')
    c = calls[0]
    st = next(s for s in stmts_in(fi.node.body) if isinstance(s, ast.Expr) and s.value is c)
    bp = block_path(fi.node, st)
    loop = next((o for (_, _, o) in reversed(bp) if isinstance(o, ast.For)), None)
    rep.require(loop is not None and isinstance(loop.target, ast.Name), 'jaccarddist_pairwise: row loop not found')
    i = loop.target.id
    nname = next((u(s.targets[0]) for s in fi.node.body if isinstance(s, ast.Assign) and isinstance(s.value, ast.IfExp) and u(s.value.body) == f'len({sp})'), None)
    rep.require(nname is not None, 'jaccarddist_pairwise: n not found')
    env = {nname: sym('n'), i: sym('i')}
    rng = Aff.try_of(loop.iter.args[0], env) if isinstance(loop.iter, ast.Call) and u(loop.iter.func) == 'range' and len(loop.iter.args) == 1 else None
    rep.add('B6', fi.site(loop), 'rows 0 .. n-2 are computed (the last row has no columns to its right)', rng == sym('n').plus(-1), expected='range(n - 1)', found=u(loop.iter), stmt='row range')
    locs = {}
    for s in loop.body:
        if isinstance(s, ast.Assign) and isinstance(s.targets[0], ast.Name):
            locs[s.targets[0].id] = s.value
    cols = next((k for k, v in locs.items() if isinstance(v, ast.Call) and u(v.func) == 'slice'), None)
    rep.require(cols is not None, 'jaccarddist_pairwise: column slice not found')
    cs = locs[cols]
    okc = len(cs.args) == 2 and Aff.try_of(cs.args[0], env) == sym('i').plus(1) and Aff.try_of(cs.args[1], env) == sym('n')
    rep.add('B6', fi.site(cs), 'columns of row i are slice(i + 1, n)', okc, expected='slice(i + 1, n)', found=u(cs), stmt='cols')
    ncol = next((k for k, v in locs.items() if Aff.try_of(v, env) == sym('n').sub(sym('i')).plus(-1)), None)
    rep.add('B6', fi.site(loop), 'ncol == n - i - 1 == length of that slice', ncol is not None, expected='n - i - 1', found={k: u(v) for k, v in locs.items() if k not in (cols,)}, stmt='ncol')

    def both(v, direct, via):
        return isinstance(v, ast.IfExp) and ((atoms(v.test) == {('is', 'None', ip)} and u(v.body) == direct and u(v.orelse) == via)
                                              or (atoms(v.test) == {('isnot', 'None', ip)} and u(v.orelse) == direct and u(v.body) == via))
    row = locs.get(u(c.args[0]))
    col = locs.get(u(c.args[1]))
    rep.add('B6', fi.site(c), 'row signature is signature i (directly or through the index selection)', both(row, f'{sp}[{i}]', f'{sp}[{ip}[{i}]]'), expected=f'{sp}[{i}] | {sp}[{ip}[{i}]]', found=u(row), stmt='row signature')
    rep.add('B6', fi.site(c), 'column signatures are selected by the same cols slice (directly or through the index selection)', both(col, f'{sp}[{cols}]', f'{sp}[{ip}[{cols}]]'), expected=f'{sp}[{cols}] | {sp}[{ip}[{cols}]]',
            found=u(col), stmt='column signatures')
    o = get_arg(c, 2, 'out')
    ov = locs.get(u(o))
    okr = isinstance(ov, ast.IfExp) and u(ov.test) == 'flat' and u(ov.orelse) == f'out[{i}, {cols}]' and isinstance(ov.body, ast.Subscript) and isinstance(ov.body.slice, ast.Slice)
    nxt = None
    if okr:
        lo, hi = ov.body.slice.lower, ov.body.slice.upper
        nxt = u(lo)
        okr = isinstance(lo, ast.Name) and Aff.try_of(hi, {nxt: sym('off'), ncol: sym('ncol')}) == sym('off').add(sym('ncol'))
    rep.add('B6', fi.site(c), 'row block = out[i, cols] (square) or out[next : next + ncol] (condensed)', okr, expected=f'out[{i}, {cols}] | out[next:next + ncol]', found=u(ov), stmt='row block')
    if nxt:
        init = [s for s in stmts_in(fi.node.body) if isinstance(s, ast.Assign) and u(s.targets[0]) == nxt]
        adv = [s for s in stmts_in(loop.body) if isinstance(s, ast.AugAssign) and u(s.target) == nxt]
        oka = len(init) == 1 and is_const(init[0].value, 0) and ('true', 'flat') in path_atoms(gm[init[0]]) and len(adv) == 1 and isinstance(adv[0].op, ast.Add) and u(adv[0].value) == ncol \
            and ('true', 'flat') in path_atoms(gm[adv[0]]) and adv[0].lineno > st.lineno
        rep.add('B6', fi.site(adv[0] if adv else loop), 'condensed offset starts at 0 and advances by ncol after each row (scipy squareform layout)', oka, expected=f'{nxt} = 0; {nxt} += {ncol}', found=[u(s) for s in init + adv], stmt='flat offset')
    mir = [s for s in stmts_in(loop.body) if isinstance(s, ast.Assign) and isinstance(s.targets[0], ast.Subscript) and _root(s.targets[0]) == 'out']
    okm = len(mir) == 1 and u(mir[0].targets[0]) == f'out[{cols}, {i}]' and u(mir[0].value) == f'out[{i}, {cols}]' and ('false', 'flat') in path_atoms(gm[mir[0]]) and mir[0].lineno > st.lineno
    rep.add('B6', fi.site(mir[0] if mir else loop), 'the square matrix is made symmetric by copying the row just written to the transposed column', okm, expected=f'out[{cols}, {i}] = out[{i}, {cols}] (after the row is computed, square only)',
            found=[u(s) for s in mir], stmt='mirror')
    fd = [c2 for c2 in calls_in(fi.node) if u(c2.func) == 'np.fill_diagonal']
    okd = len(fd) == 1 and ('false', 'flat') in path_atoms(gm[next(s for s in stmts_in(fi.node.body) if isinstance(s, ast.Expr) and s.value is fd[0])])
    rep.add('B6', fi.site(fd[0] if fd else None), 'zero diagonal is written in square mode', okd, expected='np.fill_diagonal(out, 0) when not flat', found=[u(x) for x in fd], stmt='diagonal')
    fn = m.func(f'{MET}.num_pairs')
    rep.functions.add(fn.qualname)
    r = [s for s in fn.node.body if isinstance(s, ast.Return)]
    n = fn.params()[0]
    v = r[0].value if r else None
    okn = isinstance(v, ast.BinOp) and isinstance(v.op, ast.FloorDiv) and is_const(v.right, 2) and isinstance(v.left, ast.BinOp) and isinstance(v.left.op, ast.Mult) \
        and {str(Aff.try_of(v.left.left)), str(Aff.try_of(v.left.right))} == {n, f'{n} - 1'}
    rep.add('B6', fn.site(), 'condensed length = n(n-1)/2', okn, expected=f'{n} * ({n} - 1) // 2', found=u(v), stmt='num_pairs')
    allocs_p = [s for s in stmts_in(fi.node.body) if isinstance(s, ast.Assign) and u(s.targets[0]) == 'out' and isinstance(s.value, ast.Call) and u(s.value.func) == 'np.empty']
    shape_name = u(get_arg(allocs_p[0].value, 0, 'shape')) if allocs_p else None
    shp = [s for s in fi.node.body if isinstance(s, ast.Assign) and u(s.targets[0]) == shape_name]
    oksh = len(shp) == 1 and isinstance(shp[0].value, ast.IfExp) and u(shp[0].value.test) == 'flat' and u(shp[0].value.orelse) == f'({nname}, {nname})'
    rep.add('B6', fi.site(shp[0] if shp else None), 'output is n x n (square) or num_pairs(n) long (condensed)', oksh, expected=f'(npairs,) if flat else ({nname}, {nname})', found=[u(s.value) for s in shp], stmt='pairwise shape')


def check_threads(ctx):
    rep, m = ctx.rep, ctx.model
    f = m.func('gambit._cython.threads.omp_set_num_threads')
    rep.functions.add(f.qualname)
    calls = [c for c in calls_in(f.node)]
    names = {u(c.func) for c in calls}
    gm = guard_map(f.node)
    oc = [c for c in calls if u(c.func) == 'openmp.omp_set_num_threads']
    ok = len(oc) == 1 and [u(a) for a in oc[0].args] == [f.params()[0]] and names <= {'openmp.omp_set_num_threads', 'ValueError'}
    rep.add('B7', f.site(), 'setting the thread count only forwards an integer to OpenMP (no data path into a distance)', ok and len(f.params()) == 1, expected='openmp.omp_set_num_threads(n)', found=sorted(names), stmt='thread setter')
    st = next((s for s in stmts_in(f.node.body) if isinstance(s, ast.Expr) and oc and s.value is oc[0]), None)
    rep.add('B7', f.site(st), 'a non-positive thread count is rejected', st is not None and ('lt', '0', f.params()[0]) in path_atoms(gm[st]), expected='n > 0', found=sorted(path_atoms(gm[st])) if st is not None else None, stmt='thread count guard')


def check(ctx):
    rep = ctx.rep
    rep.rule('B1', 'closed list of output-cell stores: kernel value, copy of a cell, delegation with out= view, parallel kernel, zero diagonal; buffers float32, returned unchanged')
    rep.rule('B2', 'prange body: single store out[i]; other assigned names are function-local scalars; no augmented assignment; callee nogil and pure; cell i = kernel(query, ref i)')
    rep.rule('B3', 'fast path: SignatureArray only; (query, values, bounds, out) from one collection in kernel parameter order; bounds dtype')
    rep.rule('B4', 'slow path: out[i] with (i, ref) from one enumerate')
    rep.rule('B5', 'matrix: same slice for references and columns; enumerate(queries); chunk_slices tiling; shapes')
    rep.rule('B6', 'pairwise: cols = slice(i+1, n); ncol; mirror; condensed offsets; num_pairs')
    rep.rule('B7', 'thread setters carry no data')
    rep.trusted += ['Cython prange privatises variables assigned in the loop body', 'NumPy basic-index views out[i, sl] write through', 'h5py slice reads return the stored values']
    rep.assumptions += ['Kernel correctness itself is C02; the zero diagonal equals d(x,x) by C02-M1..M4.']
    check_stores(ctx)
    check_prange(ctx)
    check_array(ctx)
    check_matrix(ctx)
    check_pairwise(ctx)
    check_threads(ctx)
    # "every explicit selection or ordering of reference indices", "every container": the reference chunk refs[idx] must be
    # exactly the selected signatures in the selected order - the C20 selection clauses, re-evaluated
    from . import c20
    rep.rule('X3', 'C20-X3 re-evaluated: index normalisation'); rep.rule('X4', 'C20-X4 re-evaluated: element / slice arithmetic of concatenated collections')
    rep.rule('X5', 'C20-X5 re-evaluated: index-array selections keep order, repeats and dtype; no shortcut return')
    c20.check_arith(ctx)
    c20.check_subcollections(ctx)


from ..variants import V  # noqa: E402

_P = 'src/gambit/metric.py'
_X = 'src/gambit/_cython/metric.pyx'
_U = 'src/gambit/util/misc.py'
VARIANTS = [
    V('output columns from a fresh slice', 'B', _P, "jaccarddist_array(query, ref_chunk, out=out[i, ref_slice])", "jaccarddist_array(query, ref_chunk, out=out[i, slice(0, len(ref_chunk))])", 'B5'),
    V('prange writes out[i + 1]', 'B', _X, "\t\tout[i] = c_jaccarddist(query, ref_coords[begin:end])", "\t\tout[i + 1] = c_jaccarddist(query, ref_coords[begin:end])", 'B2'),
    V('shared accumulator in prange', 'B', _X, "\t\tout[i] = c_jaccarddist(query, ref_coords[begin:end])", "\t\tout[i] = c_jaccarddist(query, ref_coords[begin:end])\n\t\ttotal += out[i]", 'B2',
      also=[(_X, "\tcdef int i\n\n\tfor i in prange", "\tcdef int i\n\tcdef float total = 0\n\n\tfor i in prange")]),
    V('cell rounded', 'B', _P, "\t\t\tout[i] = _cmetric.jaccarddist(query, ref)", "\t\t\tout[i] = np.float32(round(_cmetric.jaccarddist(query, ref), 6))", 'B1'),
    V('flat offset advances by ncol + 1', 'B', _P, "\t\t\t\tnext_out += ncol\n", "\t\t\t\tnext_out += ncol + 1\n", 'B6'),
    V('mirror to the wrong column', 'B', _P, "out[cols, i] = out[i, cols]", "out[cols, i + 1] = out[i, cols]", 'B6'),
    V('chunk gap', 'B', _U, "\t\tyield slice(start, stop)\n\t\tstart = stop\n", "\t\tyield slice(start, stop)\n\t\tstart = stop + 1\n", 'B5'),
    V('chunk overlap', 'B', _U, "\t\tstop = start + size\n", "\t\tstop = start + size + 1\n", 'B5'),
    V('end bound of the same reference', 'B', _X, "\t\tend = ref_bounds[i+1]", "\t\tend = ref_bounds[i]", 'B2'),
    V('bounds and values from different objects', 'B', _P, "values = _cast_sigs_array(refs.values)", "values = _cast_sigs_array(refs.values[::-1])", 'B3'),
    V('ref_indices applied twice', 'B', _P, "idx = ref_slice if ref_indices is None else ref_indices[ref_slice]", "idx = ref_slice if ref_indices is None else ref_indices[ref_indices[ref_slice]]", 'B5'),
    V('cols start at i', 'B', _P, "cols = slice(i + 1, n)", "cols = slice(i, n)", 'B6'),
    V('column signatures ignore the index selection', 'B', _P, "col_sigs = sigs[cols] if indices is None else sigs[indices[cols]]", "col_sigs = sigs[cols]", 'B6'),
    V('result post-processed', 'B', _P, "\t\t\t\tmeter.increment(len(ref_chunk))\n\n\treturn out", "\t\t\t\tmeter.increment(len(ref_chunk))\n\n\treturn np.round(out, 6)", 'B1'),
    V('out allocated as float64', 'B', _P, "out = np.empty((nqueries, nrefs), SCORE_DTYPE)", "out = np.empty((nqueries, nrefs), np.float64)", 'B1'),
    V('diagonal not zeroed', 'B', _P, "\t\tnp.fill_diagonal(out, 0)", "\t\tpass", 'B6'),
    V('consecutive-run fast path judged by the endpoints only (seeded C05a)', 'B', 'src/gambit/sigs/base.py',
      "\tdef _getitem_int_array(self, indices):\n\t\tout = SignatureArray.uninitialized(",
      "\tdef _getitem_int_array(self, indices):\n\t\tn = len(indices)\n\t\tif n > 1 and int(indices[-1]) - int(indices[0]) == n - 1:\n\t\t\treturn self._getitem_slice(slice(int(indices[0]), int(indices[-1]) + 1))\n\t\tout = SignatureArray.uninitialized(", 'X5'),
    V('E: ncol = n - (i + 1)', 'E', _P, "ncol = n - i - 1", "ncol = n - (i + 1)"),
    V('E: cols = slice(1 + i, n)', 'E', _P, "cols = slice(i + 1, n)", "cols = slice(1 + i, n)"),
    V('E: begin/end inlined differently named', 'E', _X, "\t\tbegin = ref_bounds[i]\n\t\tend = ref_bounds[i+1]\n\t\tout[i] = c_jaccarddist(query, ref_coords[begin:end])",
      "\t\tbegin = ref_bounds[i]\n\t\tend = ref_bounds[1 + i]\n\t\tout[i] = c_jaccarddist(query, ref_coords[begin:end])"),
]
