"""C10 - strict classification reports an order-independent consensus of all matches.

Necessary conditions, decided structurally:
N1 find_matches classifies each genome with the same matching_taxon and records the enumerate index under its matched taxon
N2 conflict latch: the consensus fold carries a lineage; every SPECIALISING update (lineage := incoming taxon's own lineage)
   must be control-dependent on a loop-carried flag that is set on every path performing a GENERALISING update
   (lineage := proper suffix of itself) and never cleared inside the loop.  Without it the fold re-specialises after a
   conflict and its result depends on the order of the input (genuine defect on the pinned tree, repaired).
N3 `others` = input taxa not on the final trunk; no-common-ancestor and empty exits
N4 warnings / failure flags guarded by exactly the right sets; no-match exit first
N5 primary match: candidates at or below the consensus, nearest by strict < from +inf, same index for genome
"""
import ast

from ..astutil import (u, atoms, guard_map, path_atoms, stmts_in, calls_in, callee, callee_attr, reaching_def, def_value,
                       PARAM, AMBIGUOUS, get_arg, get_kw, is_none, is_const, assigns_to, block_path, find_parent_map)
from ..report import Undecided

CL = 'gambit.classify'


def _is_own_lineage(v, name):
    """list(<name>.ancestors(incself=True)) / [*name.ancestors(True)]"""
    if isinstance(v, ast.Call) and u(v.func) == 'list' and len(v.args) == 1:
        v = v.args[0]
    if isinstance(v, ast.Call) and callee_attr(v) == 'ancestors':
        inc = get_arg(v, 0, 'incself')
        base = u(v.func.value)
        return (base == name or name is None) and inc not in (None, Ellipsis) and is_const(inc, True), base
    return False, None


def check_find_matches(ctx):
    rep, m = ctx.rep, ctx.model
    fi = m.func(f'{CL}.find_matches')
    rep.functions.add(fi.qualname)
    itr = fi.params()[0]
    fors = [s for s in fi.node.body if isinstance(s, ast.For)]
    rep.require(len(fors) == 1, 'find_matches: expected one loop')
    loop = fors[0]
    ok = isinstance(loop.iter, ast.Call) and u(loop.iter.func) == 'enumerate' and [u(a) for a in loop.iter.args] == [itr] and isinstance(loop.target, ast.Tuple) \
        and len(loop.target.elts) == 2 and isinstance(loop.target.elts[1], ast.Tuple) and len(loop.target.elts[1].elts) == 2
    rep.add('N1', fi.site(loop), 'pairs are enumerated once, index bound with its (genome, distance)', ok, expected=f'for i, (g, d) in enumerate({itr})', found=u(loop.iter) + ' -> ' + u(loop.target), stmt='enumerate')
    rep.require(ok, 'find_matches: loop shape')
    i = u(loop.target.elts[0])
    g, d = (u(e) for e in loop.target.elts[1].elts)
    mts = [c for c in calls_in(loop) if m.resolve_call(fi, c) == f'{CL}.matching_taxon']
    okm = len(mts) == 1 and [u(a) for a in mts[0].args] == [f'{g}.taxon', d]
    rep.add('N1', fi.site(mts[0] if mts else loop), 'each genome matches through the same rule as the default mode, with its own taxon and distance', okm, expected=f'matching_taxon({g}.taxon, {d})',
            found=[u(c) for c in mts], stmt='match rule')
    mst = next((s for s in loop.body if isinstance(s, ast.Assign) and mts and s.value is mts[0]), None)
    mv = u(mst.targets[0]) if mst is not None else None
    gm = guard_map(fi.node)
    recs = [c for c in calls_in(loop) if callee_attr(c) == 'append']
    okr = False
    found = [u(c) for c in recs]
    if len(recs) == 1 and mv:
        c = recs[0]
        recv = c.func.value
        okr = [u(a) for a in c.args] == [i] and isinstance(recv, ast.Call) and callee_attr(recv) == 'setdefault' and u(recv.args[0]) == mv \
            and isinstance(recv.args[1], ast.List) and not recv.args[1].elts
        st = next(s for s in stmts_in(loop.body) if isinstance(s, ast.Expr) and s.value is c)
        at = path_atoms(gm[st])
        okr = okr and at == {('isnot', 'None', mv)}
        found = (u(c), sorted(at))
    rep.add('N1', fi.site(recs[0] if recs else loop), 'the index of every genome that matched is recorded under its matched taxon (unmatched genomes skipped)', okr,
            expected=f'if {mv} is not None: matches.setdefault({mv}, []).append({i})', found=found, stmt='record')
    fc = m.func(f'{CL}.classify')
    calls = [c for c in calls_in(fc.node) if m.resolve_call(fc, c) == f'{CL}.find_matches']
    refs, dists = fc.params()[:2]
    okc = len(calls) == 1 and isinstance(calls[0].args[0], ast.Call) and u(calls[0].args[0].func) in ('zip_strict', 'zip') \
        and [u(a) for a in calls[0].args[0].args] == [refs, dists]
    rep.add('N1', fc.site(calls[0] if calls else None), 'strict mode feeds every (reference genome, its distance) pair, index-aligned', okc, expected=f'find_matches(zip_strict({refs}, {dists}))',
            found=[u(c) for c in calls], stmt='pairs')


def check_consensus(ctx):
    rep, m = ctx.rep, ctx.model
    fi = m.func(f'{CL}.consensus_taxon')
    rep.functions.add(fi.qualname)
    fn = fi.node
    gm = guard_map(fn)
    taxa = fi.params()[0]
    outer = [s for s in fn.body if isinstance(s, ast.For)]
    rep.require(len(outer) == 1 and isinstance(outer[0].target, ast.Name), 'consensus_taxon: expected one top-level fold loop')
    loop = outer[0]
    tv = loop.target.id
    # carried lineage: a name assigned before the loop from <taxa[0]>'s own lineage and reassigned inside the loop
    carried = None
    for s in fn.body:
        if s is loop:
            break
        if isinstance(s, ast.Assign) and isinstance(s.targets[0], ast.Name):
            own, base = _is_own_lineage(s.value, None)
            if own and any(isinstance(x, ast.Assign) and u(x.targets[0]) == s.targets[0].id for x in stmts_in(loop.body)):
                carried = (s.targets[0].id, s, base)
    if carried is None:
        raise Undecided('consensus_taxon: no lineage-carrying fold found (rule N2 has no instance; extend the accepted idioms)')
    L, linit, base0 = carried
    rep.add('N2', fi.site(linit), 'the fold starts from the lineage of the first taxon and then folds in the rest', base0 == f'{taxa}[0]' and u(loop.iter) == f'{taxa}[1:]',
            expected=f'{L} = list({taxa}[0].ancestors(incself=True)); for t in {taxa}[1:]', found=(base0, u(loop.iter)), stmt='fold start')
    spec, gen, other = [], [], []
    for s in stmts_in(loop.body):
        if isinstance(s, ast.Assign) and u(s.targets[0]) == L:
            own, base = _is_own_lineage(s.value, tv)
            if own:
                spec.append(s)
            elif isinstance(s.value, ast.Subscript) and u(s.value.value) == L and isinstance(s.value.slice, ast.Slice) and s.value.slice.upper is None and s.value.slice.step is None:
                gen.append(s)
            else:
                other.append(s)
    rep.require(not other, f'consensus_taxon: lineage update outside the vocabulary: {[u(o) for o in other]}')
    rep.floor('N2', 'generalising updates (trunk = trunk[i:])', len(gen), 1)
    if not spec:
        raise Undecided('consensus_taxon: fold never specialises (rule N2 has no instance; extend the accepted idioms)')
    # candidate latch variables: names tested (as a whole truth value) on the path to every specialising update
    cands = None
    for s in spec:
        at = path_atoms(gm[s])
        names = {a[1] for a in at if a[0] in ('true', 'false') and a[1].isidentifier()}
        cands = names if cands is None else cands & names
    latch = None
    detail = ''
    for c in sorted(cands or ()):
        pol_needed = {a[0] for s in spec for a in path_atoms(gm[s]) if a[1] == c and a[0] in ('true', 'false')}
        if len(pol_needed) != 1:
            continue
        clear_pol = pol_needed.pop()           # specialise only while the flag is in its initial ("no conflict") state
        init_val = (clear_pol == 'true')
        set_val = not init_val
        inits = [s for s in fn.body if isinstance(s, ast.Assign) and u(s.targets[0]) == c and s.lineno < loop.lineno]
        if not (len(inits) == 1 and is_const(inits[0].value, init_val)):
            detail = f'{c}: not initialised to {init_val} before the loop'
            continue
        in_loop = [s for s in stmts_in(loop.body) if isinstance(s, (ast.Assign, ast.AugAssign)) and any(isinstance(x, ast.Name) and x.id == c for t in (s.targets if isinstance(s, ast.Assign) else [s.target]) for x in ast.walk(t))]
        if any(not (isinstance(s, ast.Assign) and is_const(s.value, set_val)) for s in in_loop):
            detail = f'{c}: cleared or recomputed inside the loop'
            continue
        # every generalising update has a set of the flag in its own block
        ok_all = True
        for g in gen:
            blk = block_path(fn, g)[-1][0]
            if not any(s in blk for s in in_loop):
                ok_all = False
                detail = f'{c}: generalising update `{u(g)}` does not set it'
        if ok_all:
            latch = c
            break
    found = f'latch={latch}' if latch else ('no flag guards the specialising update' if not cands else detail)
    for s in spec:
        rep.add('N2', fi.site(s), 'after a conflict has generalised the consensus, a later descendant must not re-specialise it: the descend step is guarded by a conflict latch',
                latch is not None, expected='specialising update under `not <conflict flag>`; flag set wherever the trunk is truncated, never cleared', found=found + f'; guards={sorted(path_atoms(gm[s]))}',
                stmt=s, construct=fi.qualname)
    # the specialising update happens only when the incoming taxon descends from the current consensus (meets the trunk at index 0)
    for s in spec:
        at = path_atoms(gm[s])
        idx0 = any(a[0] == 'eq' and '0' in a[1:] for a in at)
        rep.add('N2', fi.site(s), 'the consensus descends only to a taxon whose lineage meets the trunk at its tip (index 0)', idx0, expected='i == 0', found=sorted(at), stmt='descend guard')
    # index i is trunk.index(a) for a walking the incoming taxon's strict ancestors bottom-up; first hit taken
    idx_calls = [c for c in calls_in(loop) if callee_attr(c) == 'index' and u(c.func.value) == L]
    rep.floor('N2', 'trunk.index() lookups', len(idx_calls), 1)
    inner = [s for s in stmts_in(loop.body) if isinstance(s, ast.For)]
    rep.require(len(inner) == 1, 'consensus_taxon: expected one inner ancestor walk')
    il = inner[0]
    own, base = _is_own_lineage(il.iter, None)
    inc = get_arg(il.iter, 0, 'incself') if isinstance(il.iter, ast.Call) else None
    okw = isinstance(il.iter, ast.Call) and callee_attr(il.iter) == 'ancestors' and u(il.iter.func.value) == tv
    rep.add('N2', fi.site(il), "the meeting point is searched along the incoming taxon's ancestors, nearest first", okw and [u(a) for a in idx_calls[0].args] == [u(il.target)],
            expected=f'for a in {tv}.ancestors(...): i = {L}.index(a)', found=(u(il.iter), u(idx_calls[0])), stmt='meeting point search')
    # after an update the inner walk stops (break) so the nearest meeting point wins
    for s in spec + gen:
        blk_path = block_path(fn, s)
        # find the statement list of the inner loop body and check a break follows on this path
        body_level = next(((b, i) for (b, i, o) in blk_path if o is il), None)
        has_break = body_level is not None and any(isinstance(x, ast.Break) for x in body_level[0][body_level[1] + 1:]) or \
            any(isinstance(x, ast.Break) for x in blk_path[-1][0][blk_path[-1][1] + 1:])
        rep.add('N2', fi.site(s), 'the ancestor walk stops at the nearest meeting point', has_break, expected='break after the update', found=has_break, stmt=f'break after {u(s)[:30]}')
    skip = [s for s in loop.body if isinstance(s, ast.If) and atoms(s.test) == {('in', tv, L)} and len(s.body) == 1 and isinstance(s.body[0], ast.Continue)]
    rep.add('N2', fi.site(skip[0] if skip else loop), 'a taxon already on the trunk leaves the consensus unchanged', len(skip) == 1, expected=f'if {tv} in {L}: continue', found=[u(s)[:40] for s in skip],
            stmt='on-trunk skip')
    # N3
    rets = [s for s in stmts_in(fn.body) if isinstance(s, ast.Return)]
    final = fn.body[-1]
    okf = isinstance(final, ast.Return) and isinstance(final.value, ast.Tuple) and len(final.value.elts) == 2 and u(final.value.elts[0]) == f'{L}[0]'
    rep.add('N3', fi.site(final), 'the consensus is the tip of the final trunk', okf, expected=f'({L}[0], others)', found=u(final)[:60], stmt='consensus result')
    if okf:
        ov = final.value.elts[1]
        od = ov
        if isinstance(ov, ast.Name):
            d = reaching_def(fn, ov.id, final)
            od = def_value(d) if d not in (None, PARAM, AMBIGUOUS) else None
        oko = isinstance(od, ast.SetComp) and len(od.generators) == 1 and u(od.generators[0].iter) == taxa and len(od.generators[0].ifs) == 1 \
            and atoms(od.generators[0].ifs[0]) == {('notin', u(od.generators[0].target), L)} and u(od.elt) == u(od.generators[0].target)
        rep.add('N3', fi.site(final), 'the conflicting set = input taxa that are not on the final trunk (i.e. strictly below the consensus)', oko, expected=f'{{t for t in {taxa} if t not in {L}}}', found=u(od),
                stmt='others')
    else_rets = [s for s in rets if s is not final and len(block_path(fn, s)) > 1 and any(o is loop for (_, _, o) in block_path(fn, s))]
    okn = len(else_rets) == 1 and u(else_rets[0].value) in (f'(None, set({taxa}))',) and else_rets[0] in il.orelse
    rep.add('N3', fi.site(else_rets[0] if else_rets else loop), 'no common ancestor: no consensus, every input taxon reported', okn, expected=f'for-else: return (None, set({taxa}))', found=[u(r) for r in else_rets],
            stmt='no common ancestor')
    empty = [s for s in rets if s is not final and s not in else_rets]
    oke = len(empty) == 1 and u(empty[0].value) == '(None, set())' and path_atoms(gm[empty[0]]) == {('false', taxa)}
    rep.add('N3', fi.site(empty[0] if empty else fn), 'empty input: no consensus, empty set', oke, expected=f'if not {taxa}: return (None, set())', found=[u(r) for r in empty], stmt='empty input')
    rep.account_returns('N3', fi, [final] + else_rets + empty, 'consensus')
    lst = [s for s in fn.body if isinstance(s, ast.Assign) and u(s.targets[0]) == taxa]
    rep.add('N3', fi.site(lst[0] if lst else fn), 'the input is materialised once (it is iterated several times)', len(lst) == 1 and u(lst[0].value) == f'list({taxa})' and lst[0].lineno < linit.lineno,
            expected=f'{taxa} = list({taxa})', found=[u(x) for x in lst], stmt='materialise')


def check_strict(ctx):
    rep, m = ctx.rep, ctx.model
    fi = m.func(f'{CL}.classify')
    rep.functions.add(fi.qualname)
    fn = fi.node
    gm = guard_map(fn)
    refs, dists = fi.params()[:2]
    cons_calls = [s for s in fn.body if isinstance(s, ast.Assign) and isinstance(s.value, ast.Call) and m.resolve_call(fi, s.value) == f'{CL}.consensus_taxon']
    rep.require(len(cons_calls) == 1 and isinstance(cons_calls[0].targets[0], ast.Tuple), 'classify: consensus_taxon result is not unpacked')
    cs = cons_calls[0]
    cons, others = (u(e) for e in cs.targets[0].elts)
    fm = [s for s in fn.body if isinstance(s, ast.Assign) and isinstance(s.value, ast.Call) and m.resolve_call(fi, s.value) == f'{CL}.find_matches']
    rep.require(len(fm) == 1, 'classify: find_matches result not assigned')
    matches = u(fm[0].targets[0])
    rep.add('N4', fi.site(cs), 'the consensus is taken over exactly the matched taxa', [u(a) for a in cs.value.args] in ([f'{matches}.keys()'], [matches], [f'list({matches})']), expected=f'consensus_taxon({matches}.keys())',
            found=u(cs.value), stmt='consensus input')
    at_cs = path_atoms(gm[cs])
    rep.add('N4', fi.site(cs), 'strict processing runs only in strict mode', ('true', 'strict') in at_cs, expected='strict on the path', found=sorted(at_cs), stmt='strict gate')
    results = [c for c in calls_in(fn) if m.resolve_call(fi, c) == f'{CL}.ClassifierResult']
    nm = []
    main = []
    for c in results:
        st = next(s for s in stmts_in(fn.body) if any(x is c for x in ast.walk(s)) and isinstance(s, (ast.Return, ast.Assign)))
        at = path_atoms(gm[st])
        if ('false', matches) in at:
            nm.append((c, st))
        elif ('true', 'strict') in at:
            main.append((c, st))
    okn = len(nm) == 1 and isinstance(nm[0][1], ast.Return)
    if okn:
        kw = {k.arg: k.value for k in nm[0][0].keywords}
        okn = is_none(kw.get('predicted_taxon')) and is_none(kw.get('primary_match')) and is_const(kw.get('success'), True) and 'closest_match' in kw
    rep.add('N4', fi.site(nm[0][1] if nm else fn), 'no match at all: successful result without prediction', okn, expected='return ClassifierResult(success=True, predicted_taxon=None, primary_match=None, ...)',
            found=[u(c)[:80] for c, _ in nm], stmt='no-match exit')
    rep.require(len(main) == 1 and isinstance(main[0][1], ast.Assign), 'classify: strict result construction not found')
    rc, rst = main[0]
    res = u(rst.targets[0])
    kw = {k.arg: k.value for k in rc.keywords}
    rep.add('N4', fi.site(rc), 'the strict prediction is the consensus', u(kw.get('predicted_taxon')) == cons, expected=cons, found=u(kw.get('predicted_taxon')), stmt='strict prediction')
    pmname = u(kw.get('primary_match'))
    # warnings / flags
    warn = [s for s in stmts_in(fn.body) if isinstance(s, ast.Expr) and isinstance(s.value, ast.Call) and u(s.value.func) == f'{res}.warnings.append']
    incons = [s for s in warn if ('true', others) in path_atoms(gm[s])]
    base = at_cs | {('true', matches)}
    okw = len(incons) == 1 and path_atoms(gm[incons[0]]) - base == {('true', others)}
    rep.add('N4', fi.site(incons[0] if incons else rc), 'the inconsistency warning is issued exactly when some matched taxon lies strictly below the prediction', okw, expected=f'if {others}: warnings.append(...)',
            found=[(u(s)[:40], sorted(path_atoms(gm[s]) - base)) for s in warn], stmt='inconsistency warning')
    if incons:
        blk = block_path(fn, incons[0])[-1][0]
        names_msg = any(others in u(x) and 'short_repr' in u(x) or (others in u(x) and 'join' in u(x)) for x in blk)
        rep.add('N4', fi.site(incons[0]), 'the warning names the conflicting taxa', names_msg, expected=f'message built from {others}', found=[u(x)[:60] for x in blk], stmt='warning text')
    fails = [s for s in stmts_in(fn.body) if isinstance(s, ast.Assign) and u(s.targets[0]) == f'{res}.success']
    okf = len(fails) == 1 and is_const(fails[0].value, False) and path_atoms(gm[fails[0]]) - base == {('is', 'None', cons)}
    rep.add('N4', fi.site(fails[0] if fails else rc), 'the result is flagged failed exactly when the matched taxa share no ancestor', okf, expected=f'if {cons} is None: {res}.success = False',
            found=[(u(s), sorted(path_atoms(gm[s]) - base)) for s in fails], stmt='failure flag')
    errs = [s for s in stmts_in(fn.body) if isinstance(s, ast.Assign) and u(s.targets[0]) == f'{res}.error']
    rep.add('N4', fi.site(errs[0] if errs else rc), 'a failed result carries an error message', len(errs) == 1 and fails and block_path(fn, errs[0])[-1][0] is block_path(fn, fails[0])[-1][0], expected='error set with the flag',
            found=[u(e) for e in errs], stmt='error message')
    okk = is_const(kw.get('success'), True)
    rep.add('N4', fi.site(rc), 'otherwise the strict result is successful', okk, expected='success=True', found=u(kw.get('success')), stmt='success default')
    last = fn.body[-1]
    rep.account_returns('N4', fi, [s for s in stmts_in(fn.body) if isinstance(s, ast.Return) and (s is last or any(x is c for (c, _) in nm for x in ast.walk(s)) or ('false', 'strict') in path_atoms(gm[s]))], 'strict classification result')
    rep.add('N4', fi.site(last), 'the strict result object is what is returned', isinstance(last, ast.Return) and u(last.value) == res, expected=f'return {res}', found=u(last), stmt='strict return')

    # N5 primary match
    pm_defs = [s for s in stmts_in(fn.body) if isinstance(s, ast.Assign) and u(s.targets[0]) == pmname]
    none_def = [s for s in pm_defs if is_none(s.value)]
    gm_def = [s for s in pm_defs if isinstance(s.value, ast.Call) and m.resolve_call(fi, s.value) == f'{CL}.GenomeMatch']
    okp = len(none_def) == 1 and path_atoms(gm[none_def[0]]) - at_cs - {('true', matches)} == {('is', 'None', cons)}
    rep.add('N5', fi.site(none_def[0] if none_def else rc), 'no primary match when there is no consensus', okp, expected=f'if {cons} is None: primary_match = None', found=[u(s) for s in none_def], stmt='primary none')
    rep.require(len(gm_def) == 1, 'classify: primary GenomeMatch construction not found')
    pg = gm_def[0]
    pkw = {k.arg: k.value for k in pg.value.keywords}
    outer = [s for s in stmts_in(fn.body) if isinstance(s, ast.For) and isinstance(s.iter, ast.Call) and u(s.iter.func) == f'{matches}.items' and s.lineno < pg.lineno]
    rep.require(len(outer) == 1 and isinstance(outer[0].target, ast.Tuple), 'classify: primary-match candidate loop not found')
    ol = outer[0]
    tx, idxs = (u(e) for e in ol.target.elts)
    inner = [s for s in stmts_in(ol.body) if isinstance(s, ast.For) and u(s.iter) == idxs]
    rep.require(len(inner) == 1, 'classify: inner index loop not found')
    il = inner[0]
    iv = u(il.target)
    at_in = path_atoms(gm[il]) - path_atoms(gm[ol])
    # candidate filter: consensus in taxon.ancestors(incself=True)
    filt = [a for a in at_in if a[0] == 'in' and a[1] == cons]
    okfl = len(filt) == 1 and filt[0][2].replace(' ', '') in (f'{tx}.ancestors(incself=True)', f'{tx}.ancestors(True)') and len(at_in) == 1
    rep.add('N5', fi.site(il), 'candidates are genomes whose matched taxon lies at or below the prediction', okfl, expected=f'{cons} in {tx}.ancestors(incself=True)', found=sorted(at_in), stmt='candidate filter')
    upd = [s for s in stmts_in(il.body) if isinstance(s, ast.Assign)]
    upd_at = [path_atoms(gm[s]) - path_atoms(gm[il]) for s in upd]
    best_i = u(get_arg(pg.value, 0, 'genome').slice) if isinstance(get_arg(pg.value, 0, 'genome'), ast.Subscript) else None
    best_d = u(pkw.get('distance'))
    best_t = u(pkw.get('matched_taxon'))
    vals = {u(s.targets[0]): u(s.value) for s in upd}
    oku = vals.get(best_i) == iv and vals.get(best_d) == f'{dists}[{iv}]' and vals.get(best_t) == tx and all(a == {('lt', f'{dists}[{iv}]', best_d)} for a in upd_at) and len(upd) == 3
    rep.add('N5', fi.site(il), 'the nearest candidate is kept: index, distance and taxon updated together under a strict improvement', oku,
            expected=f'if {dists}[{iv}] < {best_d}: {best_i} = {iv}; {best_d} = {dists}[{iv}]; {best_t} = {tx}', found=(vals, [sorted(a) for a in upd_at]), stmt='nearest update')
    init = {u(s.targets[0]): u(s.value) for s in stmts_in(fn.body) if isinstance(s, ast.Assign) and u(s.targets[0]) in (best_i, best_d, best_t) and s.lineno < ol.lineno}
    rep.add('N5', fi.site(ol), 'the search starts from +infinity', init.get(best_d) in ("float('inf')", 'float("inf")', 'np.inf', 'math.inf'), expected="float('inf')", found=init, stmt='nearest init')
    gsub = get_arg(pg.value, 0, 'genome')
    rep.add('N5', fi.site(pg), 'the primary match is built from the reference genome at the winning index', isinstance(gsub, ast.Subscript) and u(gsub.value) == refs and u(gsub.slice) == best_i,
            expected=f'{refs}[{best_i}]', found=u(gsub), stmt='primary genome')


def check(ctx):
    rep = ctx.rep
    rep.rule('N1', 'find_matches: enumerate index recorded under matching_taxon(g.taxon, d) when not None; fed zip_strict(ref_genomes, dists)')
    rep.rule('N2', 'conflict latch on the consensus fold (program-dependence rule); meeting-point search; on-trunk skip')
    rep.rule('N3', 'others / no-common-ancestor / empty exits')
    rep.rule('N4', 'strict classify: gates, no-match exit, warning under `others`, failure under `consensus is None`')
    rep.rule('N5', 'primary match: filter at-or-below consensus, strict-< minimum from +inf, same index')
    rep.assumptions += ['Necessary conditions only: correctness of the LCA search (trunk.index, suffix slicing) for every forest is a hand argument (DESIGN.md 5/C10).']
    check_find_matches(ctx)
    check_consensus(ctx)
    check_strict(ctx)


from ..variants import V  # noqa: E402

_C = 'src/gambit/classify.py'
VARIANTS = [
    V('latch test dropped (the repaired defect)', 'B', _C, "if i == 0 and not conflict:", "if i == 0:", 'N2'),
    V('latch never set', 'B', _C, "\t\t\t\ttrunk = trunk[i:]\n\t\t\t\tconflict = True\n", "\t\t\t\ttrunk = trunk[i:]\n", 'N2'),
    V('latch cleared on descend', 'B', _C, "\t\t\t\ttrunk = list(taxon.ancestors(incself=True))\n", "\t\t\t\ttrunk = list(taxon.ancestors(incself=True))\n\t\t\t\tconflict = False\n", None),
    V('descend on i <= 1', 'B', _C, "if i == 0 and not conflict:", "if i <= 1 and not conflict:", 'N2'),
    V('warning under the wrong set', 'B', _C, "\tif others:\n\t\tmsg = f'Query matched", "\tif consensus is None:\n\t\tmsg = f'Query matched", 'N4'),
    V('success flag never cleared', 'B', _C, "\t\tresult.success = False\n", "", 'N4'),
    V('primary filter inverted', 'B', _C, "if consensus not in taxon.ancestors(incself=True):\n\t\t\t\tcontinue", "if consensus in taxon.ancestors(incself=True):\n\t\t\t\tcontinue", 'N5'),
    V('primary filter dropped', 'B', _C, "\t\t\tif consensus not in taxon.ancestors(incself=True):\n\t\t\t\tcontinue\n", "", 'N5'),
    V('primary genome from closest index', 'B', _C, "genome=ref_genomes[best_i],", "genome=ref_genomes[closest],", 'N5'),
    V('find_matches records a running count', 'B', _C, "matches.setdefault(match, []).append(i)", "matches.setdefault(match, []).append(len(matches))", 'N1'),
    V('others = taxa on the trunk', 'B', _C, "others = {t for t in taxa if t not in trunk}", "others = {t for t in taxa if t in trunk}", 'N3'),
    V('no common ancestor returns first taxon', 'B', _C, "\t\t\treturn (None, set(taxa))", "\t\t\treturn (taxa[0], set(taxa))", 'N3'),
    V('nearest uses <=', 'B', _C, "\t\t\t\tif dists[i] < best_d:", "\t\t\t\tif dists[i] <= best_d:", 'N5'),
    V('E: latch named differently', 'E', _C, "conflict", "diverged", count=3),
    V('E: nested latch test', 'E', _C, "\t\t\tif i == 0 and not conflict:\n\t\t\t\t# Directly descended from current consensus, this taxon becomes new consensus\n\t\t\t\ttrunk = list(taxon.ancestors(incself=True))\n\n\t\t\telse:",
      "\t\t\tif not conflict and i == 0:\n\t\t\t\ttrunk = list(taxon.ancestors(incself=True))\n\n\t\t\telse:"),
]
