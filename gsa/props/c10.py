"""C10 - strict classification reports an order-independent consensus of all matches.

Decision procedure.  The clauses of the property are decided by MEANING: the anchor functions (as the rules see them, i.e. after
helper expansion N8 and canonicalisation) are evaluated by a small interpreter over a finite model of the taxonomy domain
(every rooted forest up to a node bound x every sequence of distinct matched taxa, in every order; a fixed forest with
thresholds x every short list of (reference genome, distance) pairs) and every result is compared with an oracle written from
the property text.  Nothing of the repository is imported or executed: the interpreter (class `Ev`) walks the parsed AST, the
domain objects (taxa, genomes, distance vector) are the checker's own, and anything outside the interpreter's vocabulary raises
`Undecided` (exit 2), never a guess.  Because the functions are decided by what they compute, the spelling of the fold
(`taxa[0]` / `first, *rest`, `trunk = trunk[i:]` / `del trunk[:i]`, an inline for/try search or a search helper, if/else or
guard clauses, mutation of the result object or a constructor call with the final values ...) does not matter.

Rules (same ids and clauses as before; the finite-domain evaluation replaces the former text-shape comparison):
N1 find_matches classifies each genome with the same matching_taxon and records the enumerate index under its matched taxon
N2 the consensus fold: most specific taxon of a single lineage / lowest common ancestor of the most specific ones, for EVERY order
   of the input.  In addition the structural conflict-latch rule is kept for folds that carry a lineage: every SPECIALISING
   update (lineage := incoming taxon's own lineage) must be control-dependent on a loop-carried flag that is set on every path
   performing a GENERALISING update (lineage := proper suffix of itself, by slice assignment or by deleting the prefix in place)
   and never cleared or recomputed inside the loop (genuine defect on the pinned tree, repaired).
N3 `others` = input taxa strictly below the consensus; no-common-ancestor and empty exits; iterable input consumed once
N4 strict classify(): prediction = consensus of the matched taxa, no-match exit, warning naming the conflicting taxa exactly
   when there are some, failure flag + error exactly when the matched taxa share no ancestor, default mode unaffected
N5 primary match: none without consensus; otherwise the first nearest genome among those matched at or below the consensus,
   built from the same index (genome, distance, matched taxon)
"""
import ast
import builtins
import collections
import functools
import itertools
import math
import operator

from ..astutil import u, guard_map, path_atoms, stmts_in, is_const, block_path, walk_no_nested, find_parent_map, callee_attr
from ..report import Undecided

CL = 'gambit.classify'
TAXON = 'gambit.db.models.Taxon'
GENOME = 'gambit.db.models.AnnotatedGenome'


# ====================================================================================================================
# A small interpreter for the Python subset the anchors are written in (finite-domain evaluation, cf. gsa/mini.py which
# does the same for the integer tables of the .pyx kernels; this one knows loops, exceptions, containers and objects).
# ====================================================================================================================

class PyExc(Exception):
    """An exception raised BY THE EVALUATED PROGRAM (carries the real Python exception instance)."""

    def __init__(self, exc, line=None):
        Exception.__init__(self, repr(exc))
        self.exc = exc
        self.line = line

    @property
    def name(self):
        return type(self.exc).__name__


_BREAK, _CONTINUE = object(), object()


class Frame:
    __slots__ = ('vars', 'parent', 'fi', 'yields', 'comp')

    def __init__(self, fi, parent=None, comp=False):
        self.vars = {}
        self.parent = parent
        self.fi = fi
        self.yields = None
        self.comp = comp          # comprehension scope (walrus targets bind in the enclosing function scope)


class Rec:
    """Instance of a class of the analysed package: either built by the checker (finite model of ORM rows: `open`, unknown
    attributes are outside the model -> Undecided) or by evaluating an attrs class instantiation (`closed`)."""

    def __init__(self, ev, ci, fields, closed):
        self._ev, self._ci, self._f, self._closed = ev, ci, fields, closed

    def __eq__(self, other):
        if self._closed and isinstance(other, Rec) and other._ci is self._ci:     # attrs: field-wise equality
            return self._f == other._f
        return self is other

    def __ne__(self, other):
        return not self.__eq__(other)

    def __hash__(self):
        if self._closed:
            raise TypeError(f"unhashable type: '{self._ci.name}'")
        return id(self)

    def __repr__(self):
        m = self._ev.m.find_method(self._ci.qualname, '__repr__')
        if m is not None and not self._ev.in_repr:
            self._ev.in_repr = True
            try:
                return str(self._ev.call_func(FuncV(self._ev, m, None, self), (), {}))
            finally:
                self._ev.in_repr = False
        return f'<{self._ci.name} object>'

    __str__ = __repr__


class FuncV:
    """A function of the analysed package (or a nested def / lambda) as a callable value."""

    def __init__(self, ev, fi, closure=None, bound=None, node=None):
        self.ev, self.fi, self.closure, self.bound, self.node = ev, fi, closure, bound, node or fi.node

    def __call__(self, *args, **kwargs):
        return self.ev.call_func(self, args, kwargs)


class ClassV:
    def __init__(self, ev, ci):
        self.ev, self.ci = ev, ci

    def __call__(self, *args, **kwargs):
        return self.ev.instantiate(self.ci, args, kwargs)


class ExtV:
    """A name of an external library that is not in the table of modelled externals: may be passed around, not used."""

    def __init__(self, dotted):
        self.dotted = dotted


class NDArr:
    """One-dimensional numeric array (the distance vector, index arrays, masks): only the operations below are modelled."""

    def __init__(self, values, kind='f'):
        self.kind = kind
        conv = float if kind == 'f' else (bool if kind == 'b' else int)
        self.v = [conv(x) for x in values]

    ndim = 1

    def __len__(self):
        return len(self.v)

    def __iter__(self):
        return iter(self.v)

    def __getitem__(self, i):
        if isinstance(i, slice):
            return NDArr(self.v[i], self.kind)
        if isinstance(i, NDArr):
            i = i.v if i.kind != 'b' else [k for k, t in enumerate(i.v) if t]
        if isinstance(i, (list, tuple)):
            if i and all(isinstance(k, bool) for k in i):
                if len(i) != len(self.v):
                    raise IndexError('boolean index did not match indexed array')
                return NDArr([x for x, t in zip(self.v, i) if t], self.kind)
            return NDArr([self.v[k] for k in i], self.kind)
        if isinstance(i, bool) or not isinstance(i, int):
            raise Undecided(f'evaluator: ndarray index of type {type(i).__name__} is not modelled')
        return self.v[i]

    def __setitem__(self, i, x):
        if isinstance(i, bool) or not isinstance(i, int):
            raise Undecided('evaluator: ndarray store with a non-integer index is not modelled')
        self.v[i] = float(x) if self.kind == 'f' else x

    def copy(self):
        return NDArr(self.v, self.kind)

    def tolist(self):
        return list(self.v)

    def _cmp(self, other, op):
        o = other.v if isinstance(other, NDArr) else [other] * len(self.v)
        if len(o) != len(self.v):
            raise ValueError('operands could not be broadcast together')
        return NDArr([op(a, b) for a, b in zip(self.v, o)], 'b')

    def __bool__(self):
        if len(self.v) == 1:
            return bool(self.v[0])
        raise ValueError('The truth value of an array with more than one element is ambiguous')

    __hash__ = None


class _DTypeV:
    def __init__(self, kind):
        self.kind, self.itemsize = kind, 8


def _argmin(a, *rest, **kw):
    if rest or kw:
        raise Undecided('evaluator: numpy.argmin with extra arguments is not modelled')
    v = list(a)
    if not v:
        raise ValueError('attempt to get argmin of an empty sequence')
    return min(range(len(v)), key=lambda i: v[i])      # first minimum (numpy semantics, no NaN in the model)


STABLE_SORT_KINDS = ('stable', 'mergesort')


def _as_list(a):
    return list(a.v) if isinstance(a, NDArr) else list(a)


def _argsort(a, axis=-1, kind=None, order=None):
    """kind stable/mergesort: ascending, ties by position.  Any other kind: NumPy promises nothing about ties - modelled
    ADVERSARIALLY (ties in reverse position), so a result that depends on the tie order of an unstable sort shows up as a deviation."""
    v = _as_list(a)
    if kind in STABLE_SORT_KINDS:
        return NDArr(sorted(range(len(v)), key=lambda i: v[i]), 'i')
    return NDArr(sorted(range(len(v)), key=lambda i: (v[i], -i)), 'i')


def _argpartition(a, kth, axis=-1, kind='introselect', order=None):
    """Adversarial model: the kth smallest lands at position kth, smaller-or-equal before it; among equal values the LATER
    positions are preferred and the order inside each side is reversed."""
    v = _as_list(a)
    if isinstance(kth, bool) or not isinstance(kth, int):
        raise Undecided('evaluator: argpartition with a non-integer kth is not modelled')
    if not -len(v) <= kth < len(v):
        raise ValueError(f'kth(={kth}) out of bounds ({len(v)})')
    order_ = sorted(range(len(v)), key=lambda i: (v[i], -i))
    k = kth % len(v)
    return NDArr(list(reversed(order_[:k])) + [order_[k]] + list(reversed(order_[k + 1:])), 'i')


def _partition(a, kth, axis=-1, kind='introselect', order=None):
    v = _as_list(a)
    idx = _argpartition(a, kth)
    return NDArr([v[i] for i in idx.v], 'f')


def _np_array(x, dtype=None, copy=True):
    return NDArr(_as_list(x), x.kind if isinstance(x, NDArr) and dtype is None else ('f' if dtype in (None, float, 'f', 'float64', 'float32') else 'i'))


def _np_asarray(x, dtype=None):
    if isinstance(x, NDArr) and dtype is None:
        return x
    return _np_array(x, dtype)


def _np_empty(shape, dtype=None):
    n = shape if isinstance(shape, int) else (shape[0] if len(shape) == 1 else None)
    if n is None:
        raise Undecided('evaluator: numpy.empty of a non-1D shape is not modelled')
    return NDArr([0] * n, 'f' if dtype in (None, float) else 'i')


def _np_sort(a, axis=-1, kind=None, order=None):
    return NDArr(sorted(_as_list(a)), a.kind if isinstance(a, NDArr) else 'f')


def _zip_strict(*its):
    return zip(*its, strict=True)


# externals with a native model (trusted base): dotted name -> value
NATIVES = {
    'numpy.argmin': _argmin, 'numpy.inf': float('inf'), 'math.inf': float('inf'), 'math.isinf': math.isinf,
    'numpy.argsort': _argsort, 'numpy.argpartition': _argpartition, 'numpy.partition': _partition, 'numpy.array': _np_array, 'numpy.asarray': _np_asarray,
    'numpy.empty': _np_empty, 'numpy.sort': _np_sort, 'numpy.flatnonzero': lambda a: NDArr([i for i, t in enumerate(_as_list(a)) if t], 'i'),
    'numpy.arange': lambda *a: NDArr(list(range(*a)), 'i'), 'numpy.intp': int, 'numpy.int64': int, 'numpy.float64': float, 'numpy.float32': float,
    'numpy.ndarray': NDArr, 'numpy.integer': int, 'numpy.isnan': lambda x: (x != x) if not isinstance(x, NDArr) else NDArr([y != y for y in x.v], 'b'),
    'gambit.util.misc.zip_strict': _zip_strict,
    'collections.defaultdict': collections.defaultdict, 'collections.OrderedDict': collections.OrderedDict,
    'itertools.chain': itertools.chain, 'itertools.islice': itertools.islice, 'itertools.takewhile': itertools.takewhile,
    'itertools.dropwhile': itertools.dropwhile, 'functools.reduce': functools.reduce, 'operator.itemgetter': operator.itemgetter,
    'collections.deque': collections.deque, 'itertools.filterfalse': itertools.filterfalse, 'itertools.compress': itertools.compress,
    'itertools.accumulate': itertools.accumulate, 'itertools.count': itertools.count, 'itertools.repeat': itertools.repeat,
    'itertools.zip_longest': itertools.zip_longest, 'itertools.starmap': itertools.starmap, 'itertools.tee': itertools.tee,
    'itertools.groupby': itertools.groupby, 'itertools.product': itertools.product, 'operator.attrgetter': operator.attrgetter,
    'operator.not_': operator.not_, 'operator.is_': operator.is_, 'operator.is_not': operator.is_not, 'operator.contains': operator.contains,
    'operator.le': operator.le, 'operator.lt': operator.lt, 'operator.ge': operator.ge, 'operator.gt': operator.gt, 'operator.eq': operator.eq, 'operator.ne': operator.ne,
    'functools.partial': functools.partial,
}

_NATIVE_TYPES = (list, tuple, dict, set, frozenset, str, int, float, bool, type(None), type({}.keys()), type({}.values()),
                 type({}.items()), range)

_BINOPS = {ast.Add: operator.add, ast.Sub: operator.sub, ast.Mult: operator.mul, ast.Div: operator.truediv, ast.FloorDiv: operator.floordiv,
           ast.Mod: operator.mod, ast.Pow: operator.pow, ast.BitAnd: operator.and_, ast.BitOr: operator.or_, ast.BitXor: operator.xor,
           ast.LShift: operator.lshift, ast.RShift: operator.rshift}
_CMPOPS = {ast.Eq: operator.eq, ast.NotEq: operator.ne, ast.Lt: operator.lt, ast.LtE: operator.le, ast.Gt: operator.gt, ast.GtE: operator.ge,
           ast.Is: operator.is_, ast.IsNot: operator.is_not, ast.In: lambda a, b: a in b, ast.NotIn: lambda a, b: a not in b}
_EXC_NAMES = ('Exception', 'BaseException', 'ValueError', 'KeyError', 'IndexError', 'TypeError', 'AttributeError', 'StopIteration', 'AssertionError',
              'LookupError', 'RuntimeError', 'ZeroDivisionError', 'NotImplementedError', 'ArithmeticError', 'NameError')


class Ev:
    BUDGET = 200000

    def __init__(self, model):
        self.m = model
        self.steps = 0
        self.evaluations = 0
        self._modframes = {}
        self.in_repr = False
        self._attrs_cache = {}
        self._sigs = {}
        self._eh, self._sh, self._meth = {}, {}, {}
        self.watch = {}           # qualname -> callback(args tuple) -> args tuple: observation of calls between anchors
        self.seen_stmt = set()    # coverage of the evaluated functions (side-condition of the bounded evaluation)
        self.seen_test = {}
        self.entered = {}
        b = {n: getattr(builtins, n) for n in (
            'list', 'tuple', 'set', 'frozenset', 'dict', 'len', 'enumerate', 'zip', 'range', 'sorted', 'reversed', 'min', 'max', 'sum', 'any',
            'all', 'next', 'iter', 'float', 'int', 'str', 'bool', 'abs', 'map', 'filter', 'repr', 'round', 'divmod') + _EXC_NAMES}
        b['isinstance'] = self._isinstance
        b['type'] = lambda v: ClassV(self, v._ci) if isinstance(v, Rec) else type(v)
        b['True'], b['False'], b['None'] = True, False, None
        self.builtins = b

    # ------------------------------------------------------------------------------------------------ entry points
    def run(self, fi, *args, **kwargs):
        """Evaluate package function `fi` on model arguments.  Returns ('ok', value) or ('raise', PyExc)."""
        self.steps = 0
        self.evaluations += 1
        try:
            return 'ok', self.call_func(FuncV(self, fi), args, kwargs)
        except PyExc as e:
            return 'raise', e

    def tick(self, node):
        self.steps += 1
        if self.steps > self.BUDGET:
            raise Undecided(f'evaluator: no result within {self.BUDGET} steps (line {getattr(node, "lineno", "?")}): non-terminating loop on a finite input?')

    # ------------------------------------------------------------------------------------------------ names
    def _isinstance(self, v, c):
        cs = c if isinstance(c, tuple) else (c,)
        for k in cs:
            if isinstance(k, ClassV):
                if isinstance(v, Rec) and k.ci.qualname in self.m.mro(v._ci.qualname):
                    return True
            elif isinstance(k, type):
                if isinstance(v, k):
                    return True
            else:
                raise Undecided('evaluator: isinstance() against a class that is not modelled')
        return False

    def dotted_value(self, dotted):
        if dotted in NATIVES:
            return NATIVES[dotted]
        c = self.m.canonical(dotted)
        if c in NATIVES:
            return NATIVES[c]
        if c in self.m.functions:
            return FuncV(self, self.m.functions[c])
        if c in self.m.classes:
            return ClassV(self, self.m.classes[c])
        if c in self.m.modules:
            return ExtV(c)
        if '.' in c:
            head, attr = c.rsplit('.', 1)
            if head in self.m.modules and attr in self.m.modules[head].assigns:
                return self.module_const(self.m.modules[head], attr)
        return ExtV(c)

    def module_const(self, mod, name):
        key = (mod.name, name)
        if key not in self._modframes:
            fr = Frame(_ModFI(mod))
            self._modframes[key] = self.ev(mod.assigns[name], fr)
        return self._modframes[key]

    def lookup(self, name, fr, node):
        f = fr
        while f is not None:
            if name in f.vars:
                return f.vars[name]
            f = f.parent
        mod = fr.fi.module
        if name in mod.functions:
            return FuncV(self, mod.functions[name])
        if name in mod.classes:
            return ClassV(self, mod.classes[name])
        if name in mod.imports:
            return self.dotted_value(mod.imports[name])
        if name in mod.assigns:
            return self.module_const(mod, name)
        if name in self.builtins:
            return self.builtins[name]
        raise PyExc(NameError(f"name '{name}' is not defined"), getattr(node, 'lineno', None))

    # ------------------------------------------------------------------------------------------------ calls
    def native(self, f, args, kwargs, node):
        try:
            return f(*args, **kwargs)
        except (PyExc, Undecided):
            raise
        except RecursionError:
            raise
        except Exception as e:      # the library operation itself failed: that is the program's exception
            raise PyExc(e, getattr(node, 'lineno', None))

    def _sig(self, node):
        sig = self._sigs.get(node)
        if sig is None:
            a = node.args
            pos = [x.arg for x in a.posonlyargs + a.args]
            kwo = [x.arg for x in a.kwonlyargs]
            defaults = [None] * (len(pos) - len(a.defaults)) + list(a.defaults)
            is_gen = not isinstance(node, ast.Lambda) and any(isinstance(x, (ast.Yield, ast.YieldFrom)) for x in walk_no_nested(node))
            if is_gen:
                # generator function: evaluated eagerly (sound for the pure, finite generators of this domain; a body with
                # stores to shared state could observe the difference and is refused)
                for x in walk_no_nested(node):
                    if isinstance(x, (ast.Assign, ast.AugAssign)) and any(not isinstance(t, (ast.Name, ast.Tuple, ast.List)) for t in (x.targets if isinstance(x, ast.Assign) else [x.target])):
                        raise Undecided(f'evaluator: generator {node.name} stores to shared state; lazy evaluation is not modelled')
            sig = self._sigs[node] = (pos, {x.arg for x in a.posonlyargs}, kwo, list(zip(pos, defaults)) + list(zip(kwo, a.kw_defaults)),
                                      a.vararg.arg if a.vararg else None, a.kwarg.arg if a.kwarg else None, is_gen)
        return sig

    def call_func(self, fv, args, kwargs):
        node = fv.node
        pos, posonly, kwo, defaults, vararg, kwarg, is_gen = self._sig(node)
        fr = Frame(fv.fi, fv.closure)
        if node is fv.fi.node:
            self.entered[fv.fi.qualname] = fv.fi
        if self.watch and node is fv.fi.node and fv.fi.qualname in self.watch:
            args = self.watch[fv.fi.qualname](tuple(args))
        if fv.bound is not None:
            args = (fv.bound,) + tuple(args)
        if len(args) > len(pos) and vararg is None:
            raise PyExc(TypeError(f'{getattr(node, "name", "<lambda>")}() takes {len(pos)} positional arguments but {len(args)} were given'))
        vs = fr.vars
        for n, v in zip(pos, args):
            vs[n] = v
        if vararg is not None:
            vs[vararg] = tuple(args[len(pos):])
        if kwargs or kwarg is not None:
            extra = {}
            for k, v in kwargs.items():
                if k in vs and k in pos:
                    raise PyExc(TypeError(f"got multiple values for argument '{k}'"))
                if (k in pos and k not in posonly) or k in kwo:
                    vs[k] = v
                elif kwarg is not None:
                    extra[k] = v
                else:
                    raise PyExc(TypeError(f"got an unexpected keyword argument '{k}'"))
            if kwarg is not None:
                vs[kwarg] = extra
        for n, d in defaults:
            if n not in vs:
                if d is None:
                    raise PyExc(TypeError(f"missing required argument '{n}'"))
                vs[n] = self.ev(d, Frame(fv.fi, fv.closure))
        if isinstance(node, ast.Lambda):
            return self.ev(node.body, fr)
        if is_gen:
            fr.yields = []
            self.block(node.body, fr)
            return iter(fr.yields)
        r = self.block(node.body, fr)
        if isinstance(r, tuple):
            return r[1]
        return None

    # ------------------------------------------------------------------------------------------------ classes
    def attrs_fields(self, ci):
        """[(name, default_expr|None, factory_expr|None, default_method|None)] of an attrs class, in definition order."""
        if ci.qualname in self._attrs_cache:
            return self._attrs_cache[ci.qualname]
        decos = [u(d.func) if isinstance(d, ast.Call) else u(d) for d in ci.node.decorator_list]
        if not any(d.split('.')[-1] in ('attrs', 's', 'define', 'mutable') for d in decos):
            raise Undecided(f'evaluator: instantiation of {ci.qualname} (not an attrs class, {decos}) is not modelled')
        if len(self.m.mro(ci.qualname)) > 1:
            raise Undecided(f'evaluator: attrs class {ci.qualname} with base classes is not modelled')
        fields = []
        for s in ci.node.body:
            if isinstance(s, ast.AnnAssign) and isinstance(s.target, ast.Name):
                v = s.value
                if isinstance(v, ast.Call) and u(v.func).split('.')[-1] in ('attrib', 'ib', 'field'):
                    kws = {k.arg: k.value for k in v.keywords}
                    unknown = set(kws) - {'default', 'factory', 'repr', 'eq', 'order', 'hash', 'type', 'metadata'}
                    if unknown or v.args:
                        raise Undecided(f'evaluator: attrs field {ci.name}.{s.target.id} uses {sorted(unknown) or "positional arguments"}: not modelled')
                    fields.append([s.target.id, kws.get('default'), kws.get('factory'), None])
                elif v is None:
                    fields.append([s.target.id, None, None, None])
                else:
                    fields.append([s.target.id, v, None, None])
        for s in ci.node.body:
            if isinstance(s, ast.FunctionDef):
                for d in s.decorator_list:
                    if isinstance(d, ast.Attribute) and d.attr == 'default' and isinstance(d.value, ast.Name):
                        for f in fields:
                            if f[0] == d.value.id:
                                f[3] = ci.methods[s.name]
        self._attrs_cache[ci.qualname] = fields
        return fields

    def instantiate(self, ci, args, kwargs):
        decos = [u(d).split('(')[0] for d in ci.node.decorator_list]
        if not decos and all((b or '') in ('object', 'builtins.object') for b in ci.bases):
            # a plain class (a small state holder a refactoring introduced): identity semantics, attributes set by its own methods
            rec = Rec(self, ci, {}, False)
            rec._plain = True
            init = self.m.find_method(ci.qualname, '__init__')
            if init is not None:
                self.call_func(FuncV(self, init, None, rec), args, kwargs)
            elif args or kwargs:
                raise PyExc(TypeError(f'{ci.name}() takes no arguments'))
            return rec
        fields = self.attrs_fields(ci)
        rec = Rec(self, ci, {}, True)
        names = [f[0] for f in fields]
        if len(args) > len(names):
            raise PyExc(TypeError(f'{ci.name}() takes {len(names)} positional arguments but {len(args)} were given'))
        given = dict(zip(names, args))
        for k, v in kwargs.items():
            if k not in names or k in given:
                raise PyExc(TypeError(f"{ci.name}() got an unexpected or repeated keyword argument '{k}'"))
            given[k] = v
        fr = Frame(_ModFI(ci.module))
        for name, default, factory, meth in fields:
            if name in given:
                rec._f[name] = given[name]
            elif meth is not None:
                rec._f[name] = self.call_func(FuncV(self, meth, None, rec), (), {})
            elif factory is not None:
                rec._f[name] = self.call(self.ev(factory, fr), [], {}, factory)
            elif default is not None:
                rec._f[name] = self.ev(default, fr)
            else:
                raise PyExc(TypeError(f"{ci.name}() missing required argument '{name}'"))
        return rec

    def getattr(self, v, attr, node):
        if isinstance(v, Rec):
            if attr in v._f:
                return v._f[attr]
            mk = (v._ci.qualname, attr)
            if mk not in self._meth:
                self._meth[mk] = self.m.find_method(v._ci.qualname, attr)
            meth = self._meth[mk]
            if meth is not None:
                decos = [u(d) for d in meth.decorators]
                if not decos:
                    return FuncV(self, meth, None, v)
                if decos == ['property']:
                    return self.call_func(FuncV(self, meth, None, v), (), {})
                if decos == ['staticmethod']:
                    return FuncV(self, meth)
                raise Undecided(f'evaluator: {v._ci.name}.{attr} is decorated with {decos}: not modelled')
            if v._closed or getattr(v, '_plain', False):
                raise PyExc(AttributeError(f"'{v._ci.name}' object has no attribute '{attr}'"), getattr(node, 'lineno', None))
            raise Undecided(f'evaluator: attribute {v._ci.name}.{attr} is not part of the finite model')
        if isinstance(v, ExtV):
            return self.dotted_value(f'{v.dotted}.{attr}')
        if isinstance(v, ClassV):
            if attr in ('__name__', '__qualname__'):
                return v.ci.name
            raise Undecided(f'evaluator: class attribute {v.ci.name}.{attr} is not modelled')
        if isinstance(v, _DTypeV):
            if attr in ('kind', 'itemsize'):
                return getattr(v, attr)
            raise Undecided(f'evaluator: dtype.{attr} is not modelled')
        if isinstance(v, NDArr):
            if attr == 'argmin':
                return lambda *a, **k: _argmin(v, *a, **k)
            if attr == 'argsort':
                return lambda *a, **k: _argsort(v, *a, **k)
            if attr in ('tolist', 'copy'):
                return getattr(v, attr)
            if attr == 'shape':
                return (len(v),)
            if attr in ('size',):
                return len(v)
            if attr == 'ndim':
                return 1
            if attr == 'dtype':
                return _DTypeV(v.kind)
            if attr == 'sort':
                def _inplace(*a, **k):
                    v.v.sort()
                return _inplace
            raise Undecided(f'evaluator: ndarray.{attr} is not modelled')
        if attr.startswith('__') and not (attr in ('__contains__', '__getitem__', '__len__', '__iter__') and isinstance(v, _NATIVE_TYPES)):
            raise Undecided(f'evaluator: special attribute {attr} is not modelled')
        if isinstance(v, _NATIVE_TYPES) or hasattr(v, '__next__'):
            try:
                return getattr(v, attr)
            except AttributeError as e:
                raise PyExc(e, getattr(node, 'lineno', None))
        raise Undecided(f'evaluator: attribute {attr} of a {type(v).__name__} value is not modelled')

    def call(self, f, args, kwargs, node):
        if isinstance(f, (FuncV, ClassV)):
            return f(*args, **kwargs)
        if isinstance(f, ExtV):
            raise Undecided(f'evaluator: external callable {f.dotted} is not modelled')
        if isinstance(f, Rec):
            raise Undecided(f'evaluator: calling an instance of {f._ci.name} is not modelled')
        if callable(f):
            return self.native(f, args, kwargs, node)
        raise PyExc(TypeError(f"'{type(f).__name__}' object is not callable"), getattr(node, 'lineno', None))

    # ------------------------------------------------------------------------------------------------ expressions
    def truth(self, v):
        if v is True or v is False or v is None:
            return bool(v)
        if isinstance(v, Rec):
            mk = (v._ci.qualname, '__bool__')
            if mk not in self._meth:
                self._meth[mk] = self.m.find_method(v._ci.qualname, '__bool__') or self.m.find_method(v._ci.qualname, '__len__')
            if self._meth[mk] is not None:
                raise Undecided(f'evaluator: {v._ci.name}.__bool__/__len__ is not modelled')
            return True
        if isinstance(v, (FuncV, ClassV)):
            return True
        if isinstance(v, ExtV):
            raise Undecided(f'evaluator: truth value of external {v.dotted}')
        return bool(v)

    def ev(self, e, fr):
        h = self._eh.get(type(e))
        if h is None:
            h = self._eh[type(e)] = getattr(self, 'e_' + type(e).__name__, self._e_unknown)
        return h(e, fr)

    def _e_unknown(self, e, fr):
        raise Undecided(f'evaluator: expression `{u(e)[:60]}` ({type(e).__name__}) is outside the vocabulary')

    def e_Constant(self, e, fr):
        return e.value

    def e_Name(self, e, fr):
        return self.lookup(e.id, fr, e)

    def e_Attribute(self, e, fr):
        return self.getattr(self.ev(e.value, fr), e.attr, e)

    def e_Slice(self, e, fr):
        return slice(*(None if x is None else self.ev(x, fr) for x in (e.lower, e.upper, e.step)))

    def e_Subscript(self, e, fr):
        v = self.ev(e.value, fr)
        i = self.ev(e.slice, fr)
        if isinstance(v, Rec) or isinstance(v, (FuncV, ClassV, ExtV)):
            raise Undecided(f'evaluator: subscript of {u(e.value)} is not modelled')
        return self.native(operator.getitem, (v, i), {}, e)

    def e_Tuple(self, e, fr):
        return tuple(self.seq(e.elts, fr))

    def e_List(self, e, fr):
        return self.seq(e.elts, fr)

    def e_Set(self, e, fr):
        return self.native(set, (self.seq(e.elts, fr),), {}, e)

    def seq(self, elts, fr):
        out = []
        for x in elts:
            if isinstance(x, ast.Starred):
                out.extend(self.native(list, (self.ev(x.value, fr),), {}, x))
            else:
                out.append(self.ev(x, fr))
        return out

    def e_Dict(self, e, fr):
        d = {}
        for k, v in zip(e.keys, e.values):
            if k is None:
                d.update(self.ev(v, fr))
            else:
                kk = self.ev(k, fr)
                self.native(d.__setitem__, (kk, self.ev(v, fr)), {}, e)
        return d

    def e_UnaryOp(self, e, fr):
        v = self.ev(e.operand, fr)
        if isinstance(e.op, ast.Not):
            return not self.truth(v)
        if isinstance(v, (Rec, NDArr, ExtV)):
            raise Undecided(f'evaluator: `{u(e)}` is not modelled')
        f = {ast.USub: operator.neg, ast.UAdd: operator.pos, ast.Invert: operator.invert}[type(e.op)]
        return self.native(f, (v,), {}, e)

    def e_BinOp(self, e, fr):
        l, r = self.ev(e.left, fr), self.ev(e.right, fr)
        if isinstance(l, (Rec, NDArr, ExtV)) or isinstance(r, (Rec, NDArr, ExtV)) or type(e.op) not in _BINOPS:
            raise Undecided(f'evaluator: `{u(e)[:60]}` is not modelled')
        return self.native(_BINOPS[type(e.op)], (l, r), {}, e)

    def e_BoolOp(self, e, fr):
        is_and = isinstance(e.op, ast.And)
        v = None
        for x in e.values:
            v = self.ev(x, fr)
            if self.truth(v) != is_and:
                return v
        return v

    def e_Compare(self, e, fr):
        left = self.ev(e.left, fr)
        for op, rx in zip(e.ops, e.comparators):
            right = self.ev(rx, fr)
            if isinstance(op, (ast.Is, ast.IsNot)):
                res = (left is right) == isinstance(op, ast.Is)
            else:
                if (isinstance(left, NDArr) or isinstance(right, NDArr)) and isinstance(op, (ast.Lt, ast.LtE, ast.Gt, ast.GtE, ast.Eq, ast.NotEq)) and len(e.ops) == 1:
                    arr, oth, o2 = (left, right, _CMPOPS[type(op)]) if isinstance(left, NDArr) else (right, left, _CMPOPS[type({ast.Lt: ast.Gt, ast.Gt: ast.Lt, ast.LtE: ast.GtE, ast.GtE: ast.LtE}.get(type(op), type(op))())])
                    return self.native(arr._cmp, (oth, o2), {}, e)
                if isinstance(left, (NDArr, ExtV)) or isinstance(right, ExtV) or (isinstance(right, NDArr) and not isinstance(op, (ast.In, ast.NotIn))):
                    raise Undecided(f'evaluator: comparison `{u(e)[:60]}` is not modelled')
                if isinstance(op, (ast.Lt, ast.LtE, ast.Gt, ast.GtE)) and (isinstance(left, Rec) or isinstance(right, Rec)):
                    raise Undecided(f'evaluator: ordering of {u(e)[:60]} is not modelled')
                res = self.native(_CMPOPS[type(op)], (left, right), {}, e)
            if not self.truth(res):
                return False
            left = right
        return True

    def e_IfExp(self, e, fr):
        t = self.truth(self.ev(e.test, fr))
        self.seen_test.setdefault(id(e), set()).add(bool(t))
        return self.ev(e.body, fr) if t else self.ev(e.orelse, fr)

    def e_NamedExpr(self, e, fr):
        v = self.ev(e.value, fr)
        f = fr
        while f.parent is not None and f.comp:
            f = f.parent
        f.vars[e.target.id] = v
        return v

    def e_Lambda(self, e, fr):
        return FuncV(self, fr.fi, fr, None, e)

    def e_JoinedStr(self, e, fr):
        out = []
        for p in e.values:
            if isinstance(p, ast.Constant):
                out.append(p.value)
            else:
                v = self.ev(p.value, fr)
                if p.conversion == ord('r'):
                    v = self.native(repr, (v,), {}, p)
                elif p.conversion == ord('s'):
                    v = self.native(str, (v,), {}, p)
                elif p.conversion != -1:
                    raise Undecided('evaluator: !a conversion is not modelled')
                spec = self.e_JoinedStr(p.format_spec, fr) if p.format_spec is not None else ''
                out.append(self.native(format, (v, spec), {}, p))
        return ''.join(out)

    def e_Call(self, e, fr):
        f = self.ev(e.func, fr)
        args = self.seq(e.args, fr)
        kwargs = {}
        for k in e.keywords:
            if k.arg is None:
                kwargs.update(self.ev(k.value, fr))
            else:
                kwargs[k.arg] = self.ev(k.value, fr)
        return self.call(f, args, kwargs, e)

    # comprehensions: a child scope per comprehension; generator expressions stay lazy (a real Python generator)
    def _comp(self, gens, fr, emit):
        def rec(i, sc):
            if i == len(gens):
                yield emit(sc)
                return
            g = gens[i]
            if g.is_async:
                raise Undecided('evaluator: async comprehension')
            it = self.iterate(self.ev(g.iter, sc if i else fr), g.iter)
            for x in it:
                self.tick(g.iter)
                self.bind(g.target, x, sc)
                if all(self.truth(self.ev(c, sc)) for c in g.ifs):
                    yield from rec(i + 1, sc)
        sc = Frame(fr.fi, fr, True)
        return rec(0, sc)

    def e_ListComp(self, e, fr):
        return list(self._comp(e.generators, fr, lambda sc: self.ev(e.elt, sc)))

    def e_SetComp(self, e, fr):
        return self.native(set, (list(self._comp(e.generators, fr, lambda sc: self.ev(e.elt, sc))),), {}, e)

    def e_DictComp(self, e, fr):
        return self.native(dict, (list(self._comp(e.generators, fr, lambda sc: (self.ev(e.key, sc), self.ev(e.value, sc)))),), {}, e)

    def e_GeneratorExp(self, e, fr):
        first = self.iterate(self.ev(e.generators[0].iter, fr), e.generators[0].iter)    # outermost iterable is evaluated eagerly
        gens = list(e.generators)

        def lazy():
            sc = Frame(fr.fi, fr, True)

            def rec(i):
                if i == len(gens):
                    yield self.ev(e.elt, sc)
                    return
                g = gens[i]
                it = first if i == 0 else self.iterate(self.ev(g.iter, sc), g.iter)
                for x in it:
                    self.tick(g.iter)
                    self.bind(g.target, x, sc)
                    if all(self.truth(self.ev(c, sc)) for c in g.ifs):
                        yield from rec(i + 1)
            yield from rec(0)
        return lazy()

    def iterate(self, v, node):
        if isinstance(v, (Rec, FuncV, ClassV, ExtV)):
            raise Undecided(f'evaluator: iteration over `{u(node)[:40]}` is not modelled')
        return self.native(iter, (v,), {}, node)

    # ------------------------------------------------------------------------------------------------ statements
    def bind(self, t, v, fr):
        if isinstance(t, ast.Name):
            fr.vars[t.id] = v
        elif isinstance(t, (ast.Tuple, ast.List)):
            vals = self.native(list, (v,), {}, t)
            stars = [i for i, x in enumerate(t.elts) if isinstance(x, ast.Starred)]
            if stars:
                k = stars[0]
                after = len(t.elts) - k - 1
                if len(vals) < len(t.elts) - 1:
                    raise PyExc(ValueError(f'not enough values to unpack (expected at least {len(t.elts) - 1}, got {len(vals)})'), t.lineno)
                for x, y in zip(t.elts[:k], vals[:k]):
                    self.bind(x, y, fr)
                self.bind(t.elts[k].value, vals[k:len(vals) - after], fr)
                for x, y in zip(t.elts[k + 1:], vals[len(vals) - after:]):
                    self.bind(x, y, fr)
            else:
                if len(vals) != len(t.elts):
                    raise PyExc(ValueError(f'unpack: expected {len(t.elts)} values, got {len(vals)}'), t.lineno)
                for x, y in zip(t.elts, vals):
                    self.bind(x, y, fr)
        elif isinstance(t, ast.Attribute):
            o = self.ev(t.value, fr)
            if not isinstance(o, Rec):
                raise Undecided(f'evaluator: store to attribute `{u(t)}` of a {type(o).__name__} is not modelled')
            o._f[t.attr] = v
        elif isinstance(t, ast.Subscript):
            o = self.ev(t.value, fr)
            if isinstance(o, (Rec, ExtV)):
                raise Undecided(f'evaluator: store to `{u(t)}` is not modelled')
            self.native(operator.setitem, (o, self.ev(t.slice, fr), v), {}, t)
        else:
            raise Undecided(f'evaluator: assignment target `{u(t)}`')

    def block(self, stmts, fr):
        sh = self._sh
        seen = self.seen_stmt
        for s in stmts:
            seen.add(id(s))
            h = sh.get(type(s))
            if h is None:
                h = sh[type(s)] = getattr(self, 's_' + type(s).__name__, self._s_unknown)
            r = h(s, fr)
            if r is not None:
                return r
        return None

    def _s_unknown(self, s, fr):
        raise Undecided(f'evaluator: statement `{u(s)[:60]}` ({type(s).__name__}) is outside the vocabulary')

    def s_Expr(self, s, fr):
        self.tick(s)
        if isinstance(s.value, ast.Yield):
            if fr.yields is None:
                raise Undecided('evaluator: yield outside a generator body')
            fr.yields.append(None if s.value.value is None else self.ev(s.value.value, fr))
        elif isinstance(s.value, ast.YieldFrom):
            fr.yields.extend(self.iterate(self.ev(s.value.value, fr), s.value))
        else:
            self.ev(s.value, fr)

    def s_Assign(self, s, fr):
        self.tick(s)
        v = self.ev(s.value, fr)
        for t in s.targets:
            self.bind(t, v, fr)

    def s_AnnAssign(self, s, fr):
        self.tick(s)
        if s.value is not None:
            self.bind(s.target, self.ev(s.value, fr), fr)

    def s_AugAssign(self, s, fr):
        self.tick(s)
        load = ast.copy_location(type(s.target)(**{**{k: getattr(s.target, k) for k in s.target._fields}, 'ctx': ast.Load()}), s.target)
        cur = self.ev(load, fr)
        val = self.ev(s.value, fr)
        if isinstance(cur, (Rec, NDArr, ExtV)) or type(s.op) not in _BINOPS:
            raise Undecided(f'evaluator: `{u(s)[:60]}` is not modelled')
        if isinstance(cur, list) and isinstance(s.op, ast.Add):
            self.native(cur.extend, (val,), {}, s)          # in-place, aliasing preserved
            new = cur
        elif isinstance(cur, set) and isinstance(s.op, (ast.BitOr, ast.BitAnd, ast.Sub)):
            self.native({ast.BitOr: cur.update, ast.BitAnd: cur.intersection_update, ast.Sub: cur.difference_update}[type(s.op)], (val,), {}, s)
            new = cur
        else:
            new = self.native(_BINOPS[type(s.op)], (cur, val), {}, s)
        self.bind(s.target, new, fr)

    def s_Pass(self, s, fr):
        return None

    def s_Return(self, s, fr):
        self.tick(s)
        return ('ret', None if s.value is None else self.ev(s.value, fr))

    def s_Break(self, s, fr):
        return _BREAK

    def s_Continue(self, s, fr):
        return _CONTINUE

    def s_If(self, s, fr):
        self.tick(s)
        t = self.truth(self.ev(s.test, fr))
        self.seen_test.setdefault(id(s), set()).add(bool(t))
        return self.block(s.body if t else s.orelse, fr)

    def s_While(self, s, fr):
        while True:
            self.tick(s)
            t = self.truth(self.ev(s.test, fr))
            self.seen_test.setdefault(id(s), set()).add(bool(t))
            if not t:
                break
            r = self.block(s.body, fr)
            if r is _BREAK:
                return None
            if isinstance(r, tuple):
                return r
        return self.block(s.orelse, fr)

    def s_For(self, s, fr):
        it = self.iterate(self.ev(s.iter, fr), s.iter)
        while True:
            self.tick(s)
            try:
                x = next(it)
            except StopIteration:
                break
            except (PyExc, Undecided):
                raise
            except Exception as e:
                raise PyExc(e, s.lineno)
            self.bind(s.target, x, fr)
            r = self.block(s.body, fr)
            if r is _BREAK:
                return None
            if isinstance(r, tuple):
                return r
        return self.block(s.orelse, fr)

    def s_Assert(self, s, fr):
        self.tick(s)
        if not self.truth(self.ev(s.test, fr)):
            raise PyExc(AssertionError(None if s.msg is None else self.ev(s.msg, fr)), s.lineno)

    def s_Raise(self, s, fr):
        self.tick(s)
        if s.exc is None:
            cur = fr.vars.get('$exc')
            if cur is None:
                raise Undecided('evaluator: bare raise outside a handler')
            raise cur
        v = self.ev(s.exc, fr)
        if isinstance(v, type) and issubclass(v, BaseException):
            v = v()
        if not isinstance(v, BaseException):
            raise Undecided(f'evaluator: raise of `{u(s.exc)[:40]}` is not modelled')
        raise PyExc(v, s.lineno)

    def s_Try(self, s, fr):
        self.tick(s)
        try:
            try:
                r = self.block(s.body, fr)
            except PyExc as e:
                for h in s.handlers:
                    if h.type is None:
                        match = True
                    else:
                        t = self.ev(h.type, fr)
                        ts = t if isinstance(t, tuple) else (t,)
                        if not all(isinstance(x, type) and issubclass(x, BaseException) for x in ts):
                            raise Undecided(f'evaluator: except clause `{u(h.type)}` is not modelled')
                        match = isinstance(e.exc, ts)
                    if match:
                        if h.name:
                            fr.vars[h.name] = e.exc
                        saved = fr.vars.get('$exc')
                        fr.vars['$exc'] = e
                        try:
                            return self.block(h.body, fr)
                        finally:
                            fr.vars['$exc'] = saved
                raise
            else:
                if r is not None:
                    return r
                return self.block(s.orelse, fr)
        finally:
            if s.finalbody:
                r2 = self.block(s.finalbody, fr)
                if r2 is not None:
                    raise Undecided('evaluator: control transfer out of a finally block is not modelled')

    def s_Delete(self, s, fr):
        self.tick(s)
        for t in s.targets:
            if isinstance(t, ast.Name):
                if t.id not in fr.vars:
                    raise PyExc(NameError(t.id), s.lineno)
                del fr.vars[t.id]
            elif isinstance(t, ast.Subscript):
                o = self.ev(t.value, fr)
                if isinstance(o, (Rec, NDArr, ExtV)):
                    raise Undecided(f'evaluator: `{u(s)}` is not modelled')
                self.native(operator.delitem, (o, self.ev(t.slice, fr)), {}, s)
            else:
                raise Undecided(f'evaluator: `{u(s)}` is not modelled')

    def s_ImportFrom(self, s, fr):
        if s.level or s.module is None:
            raise Undecided(f'evaluator: relative import inside a function body (`{u(s)}`) is not modelled')
        for a in s.names:
            fr.vars[a.asname or a.name] = self.dotted_value(f'{s.module}.{a.name}')

    def s_Import(self, s, fr):
        for a in s.names:
            if a.asname:
                fr.vars[a.asname] = self.dotted_value(a.name)
            else:
                fr.vars[a.name.split('.')[0]] = self.dotted_value(a.name.split('.')[0])

    def s_FunctionDef(self, s, fr):
        if s.decorator_list:
            raise Undecided(f'evaluator: decorated nested function {s.name} is not modelled')
        fr.vars[s.name] = FuncV(self, fr.fi, fr, None, s)


class _ModFI:
    """Stand-in FuncInfo for module-level evaluation (constants, attrs defaults)."""

    def __init__(self, module):
        self.module = module


# ====================================================================================================================
# Finite model of the domain and the oracles (written from the property text)
# ====================================================================================================================

_NAMES = ['alpha', 'bravo', 'charlie', 'delta', 'foxtrot', 'golf', 'hotel', 'india', 'juliett', 'kilo']


class Domain:
    def __init__(self, ev):
        self.ev = ev
        self.tci = ev.m.cls(TAXON)
        self.gci = ev.m.cls(GENOME)

    def forest(self, parents, thresholds=None):
        """parents[i] in (None, 0..i-1).  Returns the list of taxon objects."""
        taxa = []
        for i, p in enumerate(parents):
            t = Rec(self.ev, self.tci, dict(id=11 + i, key=f'key/{_NAMES[i]}', name=_NAMES[i], rank=None, description=None, report=True, ncbi_id=None,
                                            distance_threshold=None if thresholds is None else thresholds[i], parent=None if p is None else taxa[p], children=[]), False)
            if p is not None:
                taxa[p]._f['children'].append(t)
            taxa.append(t)
        return taxa

    def genome(self, i, taxon):
        return Rec(self.ev, self.gci, dict(id=101 + i, key=f'genome/{i}', taxon=taxon, taxon_id=taxon._f['id']), False)


def lineage(t):
    out = []
    while t is not None:
        out.append(t)
        t = t._f['parent']
    return out


def oracle_consensus(taxa):
    """(consensus, others) for a list of distinct taxa, from the property text."""
    taxa = list(taxa)
    if not taxa:
        return None, set()
    if len({id(lineage(t)[-1]) for t in taxa}) > 1:
        return None, set(taxa)                                  # no common ancestor
    lins = {id(t): lineage(t) for t in taxa}
    most_specific = [t for t in taxa if not any(o is not t and t in lins[id(o)] for o in taxa)]
    if len(most_specific) == 1:
        cons = most_specific[0]                                 # single lineage
    else:
        cons = next(a for a in lins[id(most_specific[0])] if all(a in lins[id(o)] for o in most_specific))   # lowest common ancestor
    below = {t for t in taxa if t is not cons and cons in lins[id(t)]}
    return cons, below


def oracle_match(taxon, d):
    for t in lineage(taxon):
        thr = t._f['distance_threshold']
        if thr is not None and d <= thr:
            return t
    return None


def _nm(x):
    if isinstance(x, Rec):
        return x._f.get('name') or x._f.get('key') or x._ci.name
    if isinstance(x, (set, frozenset)):
        return '{' + ', '.join(sorted(_nm(y) for y in x)) + '}'
    if isinstance(x, (list, tuple)):
        return '[' + ', '.join(_nm(y) for y in x) + ']'
    if isinstance(x, dict):
        return '{' + ', '.join(f'{_nm(k)}: {_nm(v)}' for k, v in x.items()) + '}'
    return repr(x)


def _forest_txt(taxa):
    return ' '.join(f'{t._f["name"]}<{t._f["parent"]._f["name"] if t._f["parent"] is not None else "-"}' for t in taxa)


def canonical_forests(n):
    """One parent array per isomorphism class of rooted forests with n nodes."""
    seen, out = set(), []
    for choice in itertools.product(*[[None] + list(range(i)) for i in range(n)]):
        kids = {i: [] for i in range(n)}
        for i, p in enumerate(choice):
            if p is not None:
                kids[p].append(i)

        def canon(i):
            return '(' + ''.join(sorted(canon(k) for k in kids[i])) + ')'
        key = ''.join(sorted(canon(i) for i, p in enumerate(choice) if p is None))
        if key not in seen:
            seen.add(key)
            out.append(choice)
    return out


def distinct_subsets(parents, k):
    """k-subsets of the nodes of a forest that contain every leaf (a node that is neither matched nor an ancestor of a matched
    taxon cannot be reached through `parent`/`ancestors()` and only duplicates a scenario of a smaller forest), one per orbit of
    the forest's automorphism group."""
    n = len(parents)
    kids = {i: [c for c in range(n) if parents[c] == i] for i in range(n)}
    leaves = {i for i in range(n) if not kids[i]}
    seen, out = set(), []
    for sub in itertools.combinations(range(n), k):
        ss = set(sub)
        if not leaves <= ss:
            continue

        def canon(i):
            return '(' + ('*' if i in ss else '') + ''.join(sorted(canon(c) for c in kids[i])) + ')'
        key = ''.join(sorted(canon(i) for i in range(n) if parents[i] is None))
        if key not in seen:
            seen.add(key)
            out.append(sub)
    return out


class Tally:
    """Collects the outcome of the scenarios of one obligation; keeps the first counterexamples."""

    def __init__(self, rule, key, desc, expected):
        self.rule, self.key, self.desc, self.expected = rule, key, desc, expected
        self.optional = False     # a clause about an intermediate observation (a call between two anchors) that a restructured body need not have
        self.n = 0
        self.bad = []

    def check(self, ok, scenario, found):
        """scenario / found: text, or a callable producing it (only evaluated for a counterexample that is kept)."""
        self.n += 1
        if not ok and len(self.bad) < 3:
            self.bad.append(f'{scenario() if callable(scenario) else scenario}: {found() if callable(found) else found}')
        elif not ok:
            self.bad.append(None)
        return ok

    def emit(self, rep, fi):
        bad = [b for b in self.bad if b]
        if self.n == 0:
            raise Undecided(f'rule {self.rule}: no scenario evaluated for `{self.key}`')
        found = f'holds on all {self.n} evaluated scenarios' if not self.bad else f'{len(self.bad)} of {self.n} scenarios differ, e.g. ' + ' | '.join(bad)
        rep.add(self.rule, fi.site(), self.desc, not self.bad, expected=self.expected, found=found, stmt=self.key, construct=fi.qualname)


def _emit_all(rep, fi, tallies):
    """A clause that no scenario reached because an earlier clause already failed on every scenario is not reported (nothing is
    known about it); a clause without scenarios on an otherwise clean run is an analysis error."""
    tallies = list(tallies)
    failing = any(t.bad for t in tallies)
    for t in tallies:
        if t.n == 0 and (failing or t.optional):
            if t.optional and not failing:
                rep.info[f'{t.rule} {t.key}'] = 'no instance in this shape of the code; covered by the end-to-end clauses'
            continue
        t.emit(rep, fi)


def _outcome(res):
    kind, v = res
    if kind == 'raise':
        return f'raises {v.name}({v.exc}) at line {v.line}'
    return _nm(v) if not isinstance(v, tuple) else '(' + ', '.join(_nm(x) for x in v) + ')'


# ====================================================================================================================
# N2 / N3: the consensus fold, evaluated on every forest x every sequence of distinct taxa
# ====================================================================================================================

def eval_consensus(ctx, ev, dom, max_nodes=5, max_taxa=4, tag=''):
    rep, m = ctx.rep, ctx.model
    fi = m.func(f'{CL}.consensus_taxon')
    rep.functions.add(fi.qualname)
    rep.require(len(fi.params()) >= 1, 'consensus_taxon: no parameter for the matched taxa')
    t_lin = Tally('N2', 'single lineage', 'matched taxa on a single lineage: the consensus is the most specific one, whatever the order they are met in (taxa already on the trunk leave it unchanged, descendants extend it)',
                  'most specific taxon, every order')
    t_lca = Tally('N2', 'conflict', 'matched taxa on different branches: the consensus is the lowest common ancestor of the most specific ones for EVERY order (after a conflict a later descendant does not re-specialise it; the nearest meeting point with the trunk is taken)',
                  'lowest common ancestor of the most specific taxa, every order')
    t_oth = Tally('N3', 'others', 'the conflicting set = input taxa strictly below the consensus (empty on a single lineage)', 'set of input taxa that are strict descendants of the consensus')
    t_nca = Tally('N3', 'no common ancestor', 'no common ancestor: no consensus, every input taxon reported', '(None, set(taxa))')
    t_emp = Tally('N3', 'empty input', 'empty input: no consensus, empty set', '(None, set())')
    t_itr = Tally('N3', 'materialise', 'the input may be any iterable (a dict key view, a one-shot iterator): it is consumed once', 'same result for a list, a key view and an iterator')

    def judge(res, exp_c, exp_o):
        kind, v = res
        if kind != 'ok' or not isinstance(v, (tuple, list)) or len(v) != 2:
            return False, False
        c, o = v
        if not isinstance(o, (set, frozenset)):
            return c is exp_c, False
        return c is exp_c, o == exp_o

    for mk in (list, lambda s: dict.fromkeys(s).keys(), iter):
        res = ev.run(fi, mk([]))
        okc, oko = judge(res, None, set())
        (t_emp if mk is list else t_itr).check(okc and oko, 'taxa=[]', _outcome(res))
    n_eval = 0
    for n in range(1, max_nodes + 1):
        for parents in canonical_forests(n):
            taxa = dom.forest(parents)
            for k in range(1, min(n, max_taxa) + 1):
                for sub in distinct_subsets(parents, k):            # one representative per automorphism class of (forest, subset)
                    for seq in itertools.permutations([taxa[i] for i in sub]):
                        exp_c, exp_o = oracle_consensus(seq)
                        res = ev.run(fi, dict.fromkeys(seq).keys())          # the form classify() passes: a key view
                        n_eval += 1
                        okc, oko = judge(res, exp_c, exp_o)

                        def sc(taxa=taxa, seq=seq):
                            return f'forest[{_forest_txt(taxa)}] taxa={_nm(list(seq))}'

                        def found(res=res, exp_c=exp_c, exp_o=exp_o):
                            return f'{_outcome(res)}, expected ({_nm(exp_c)}, {_nm(exp_o)})'
                        if exp_c is None:
                            t_nca.check(okc and oko, sc, found)
                        else:
                            (t_lca if exp_o else t_lin).check(okc, sc, found)
                            if okc or res[0] != 'ok':
                                t_oth.check(oko, sc, found)
                        if n <= 3:
                            for mk in (list, iter):
                                r2 = ev.run(fi, mk(seq))
                                a, b = judge(r2, exp_c, exp_o)
                                t_itr.check(a and b, lambda: sc() + f' as {"list" if mk is list else "iterator"}', lambda: f'{_outcome(r2)}, expected ({_nm(exp_c)}, {_nm(exp_o)})')
    for t in (t_lin, t_lca, t_oth, t_nca, t_emp, t_itr):
        t.key += tag
    _emit_all(rep, fi, (t_lin, t_lca, t_oth, t_nca, t_emp, t_itr))
    rep.info['consensus_fold_domain' + tag] = f'rooted forests <= {max_nodes} nodes x sets of <= {max_taxa} distinct taxa (one per automorphism class) x all orders: {n_eval} evaluations'


# ====================================================================================================================
# N2 (structural part): the conflict latch, a program-dependence rule on lineage-carrying folds
# ====================================================================================================================

def _is_own_lineage(v, name):
    """list(<name>.ancestors(incself=True)) / [*name.ancestors(True)] -> (is own lineage, base text)"""
    if isinstance(v, ast.Call) and u(v.func) == 'list' and len(v.args) == 1:
        v = v.args[0]
    elif isinstance(v, ast.List) and len(v.elts) == 1 and isinstance(v.elts[0], ast.Starred):
        v = v.elts[0].value
    if isinstance(v, ast.Call) and isinstance(v.func, ast.Attribute) and v.func.attr == 'ancestors':
        inc = v.args[0] if v.args else next((k.value for k in v.keywords if k.arg == 'incself'), None)
        base = u(v.func.value)
        return (base == name or name is None) and inc is not None and is_const(inc, True), base
    return False, None


def _binds_name(s, name):
    tg = s.targets if isinstance(s, ast.Assign) else [s.target] if isinstance(s, (ast.AugAssign, ast.AnnAssign)) else []
    return any(isinstance(x, ast.Name) and x.id == name for t in tg for x in ast.walk(t))


def check_latch(ctx):
    """Applies whenever the fold carries a lineage in a local list; a fold written differently has no instance of this rule and
    is decided by the exhaustive evaluation alone."""
    rep, m = ctx.rep, ctx.model
    fi = m.func(f'{CL}.consensus_taxon')
    fn = fi.node
    gm = guard_map(fn)
    loops = [s for s in fn.body if isinstance(s, ast.For) and isinstance(s.target, ast.Name)]
    instances = 0
    for loop in loops:
        tv = loop.target.id
        for init in fn.body:
            if init is loop:
                break
            if not (isinstance(init, ast.Assign) and isinstance(init.targets[0], ast.Name) and _is_own_lineage(init.value, None)[0]):
                continue
            L = init.targets[0].id
            spec, gen = [], []
            for s in stmts_in(loop.body):
                if isinstance(s, ast.Assign) and u(s.targets[0]) == L:
                    if _is_own_lineage(s.value, tv)[0]:
                        spec.append(s)
                    elif isinstance(s.value, ast.Subscript) and u(s.value.value) == L and isinstance(s.value.slice, ast.Slice) and s.value.slice.upper is None and s.value.slice.step is None \
                            and s.value.slice.lower is not None:
                        gen.append(s)
                elif isinstance(s, ast.Delete) and len(s.targets) == 1 and isinstance(s.targets[0], ast.Subscript) and u(s.targets[0].value) == L \
                        and isinstance(s.targets[0].slice, ast.Slice) and s.targets[0].slice.lower is None and s.targets[0].slice.step is None and s.targets[0].slice.upper is not None:
                    gen.append(s)       # del trunk[:i]  ==  trunk = trunk[i:] on a list owned by the function
            if not spec or not gen:
                continue
            instances += 1
            cands = None
            for s in spec:
                names = {a[1] for a in path_atoms(gm[s]) if a[0] in ('true', 'false') and a[1].isidentifier()}
                cands = names if cands is None else cands & names
            # only names that are assigned somewhere inside the loop or initialised to a bool constant before it can be a latch
            cands = {c for c in cands if any(_binds_name(s, c) for s in stmts_in(loop.body)) or
                     any(isinstance(s, ast.Assign) and _binds_name(s, c) and isinstance(s.value, ast.Constant) and isinstance(s.value.value, bool) for s in fn.body)}
            latch, detail = None, ''
            for c in sorted(cands):
                pol = {a[0] for s in spec for a in path_atoms(gm[s]) if a[1] == c and a[0] in ('true', 'false')}
                if len(pol) != 1:
                    continue
                init_val = (pol.pop() == 'true')          # specialise only while the flag is in its initial ("no conflict") state
                inits = [s for s in fn.body if isinstance(s, ast.Assign) and _binds_name(s, c) and s.lineno < loop.lineno]
                if not (len(inits) == 1 and is_const(inits[0].value, init_val)):
                    detail = f'{c}: not initialised to {init_val} before the loop'
                    continue
                in_loop = [s for s in stmts_in(loop.body) if _binds_name(s, c)]
                if any(not (isinstance(s, ast.Assign) and is_const(s.value, not init_val)) for s in in_loop):
                    detail = f'{c}: cleared or recomputed inside the loop'
                    continue
                missing = [g for g in gen if not any(s in block_path(fn, g)[-1][0] for s in in_loop)]
                if missing:
                    detail = f'{c}: generalising update `{u(missing[0])}` does not set it'
                    continue
                latch = c
                break
            for s in spec:
                if latch is None and not cands:
                    # no flag-shaped state at all on the path: the second state component, if any, is encoded differently;
                    # nothing concrete to point at -> this rule has no opinion, the evaluation above decides
                    rep.info['latch_rule'] = 'no flag-shaped latch recognised; order-independence decided by the exhaustive evaluation only'
                    continue
                rep.add('N2', fi.site(s), 'after a conflict has generalised the consensus, a later descendant must not re-specialise it: the descend step is guarded by a conflict latch',
                        latch is not None, expected='specialising update under `not <conflict flag>`; flag set wherever the trunk is truncated, never cleared',
                        found=(f'latch={latch}' if latch else detail) + f'; guards={sorted(path_atoms(gm[s]))}', stmt=s, construct=fi.qualname)
    rep.info['latch_rule_instances'] = instances


# ====================================================================================================================
# N1 / N4 / N5: find_matches and the strict branch of classify(), evaluated on a forest with thresholds
# ====================================================================================================================

#          alpha      bravo      charlie     delta      foxtrot    golf       hotel
# parents: -          alpha      bravo       alpha      -          foxtrot    -
# thr:     0.6        0.4        0.2         0.4        None       0.4        None
_PARENTS = (None, 0, 1, 0, None, 4, None)
_THRESH = (0.6, 0.4, 0.2, 0.4, None, 0.4, None)
# the same forest with thresholds that do NOT widen towards the root (the property allows any thresholds): bravo is wider than its
# parent alpha, so a genome of charlie at 0.4 / 0.5 matches bravo although it is beyond alpha's threshold
_THRESH_NM = (0.3, 0.5, 0.2, 0.4, None, 0.4, None)
# ... and with a ZERO threshold (a single-genome species: only an identical genome matches it; a threshold of 0.0 is a threshold - seeded C10f)
_THRESH_Z = (0.6, 0.4, 0.0, 0.4, None, 0.4, None)
_LETTERS_Z = ((2, 0.0), (2, 0.1), (1, 0.1), (3, 0.1), (0, 0.05), (5, 0.1), (6, 0.1))
# (genome's taxon, distance): every way a genome can match in this forest - its own taxon (below / exactly on the threshold), an
# ancestor one or two levels up, nothing (beyond every threshold / lineage without thresholds)
# ... and a genome filed directly under the inner taxon alpha, nearer than anything else: the consensus of a conflict can itself be a
# matched taxon, and its genome the nearest candidate (seeded C10e)
_LETTERS = ((2, 0.1), (2, 0.4), (2, 0.5), (2, 0.7), (1, 0.1), (1, 0.4), (3, 0.1), (3, 0.5), (5, 0.1), (5, 0.5), (6, 0.1), (0, 0.05), (0, 0.5), (0, 0.7), (4, 0.1))
_LETTERS3 = ((2, 0.1), (1, 0.4), (3, 0.1), (3, 0.5), (5, 0.1), (6, 0.1), (0, 0.05))


def _scenarios(full_len=2, sub_len=3):
    out = []
    for k in range(1, full_len + 1):
        out += list(itertools.product(_LETTERS, repeat=k))
    for k in range(full_len + 1, sub_len + 1):
        out += list(itertools.product(_LETTERS3, repeat=k))
    return out


def _expected(taxa, genomes, dists):
    matched = [oracle_match(g._f['taxon'], d) for g, d in zip(genomes, dists)]
    groups = {}
    for i, t in enumerate(matched):
        if t is not None:
            groups.setdefault(t, []).append(i)
    cons, others = oracle_consensus(list(groups))
    return matched, groups, cons, others


def eval_find_matches(ctx, ev, dom, scenarios, thresh=_THRESH, tag=''):
    rep, m = ctx.rep, ctx.model
    fi = m.func(f'{CL}.find_matches')
    rep.functions.add(fi.qualname)
    t_rule = Tally('N1', 'match rule', 'each genome matches through the most specific threshold-bearing taxon of its lineage whose threshold covers its distance (unmatched genomes are skipped)',
                   'keys = matched taxa')
    t_rec = Tally('N1', 'record', 'the enumerate index of every genome that matched is recorded, once, under its matched taxon', '{matched taxon: [indices of the genomes matched to it]}')
    for t_ in (t_rule, t_rec):
        t_.key += tag
    taxa = dom.forest(_PARENTS, thresh)
    for sc in [()] + scenarios:
        genomes = [dom.genome(i, taxa[t]) for i, (t, _) in enumerate(sc)]
        dists = [d for _, d in sc]
        matched, groups, _, _ = _expected(taxa, genomes, dists)
        res = ev.run(fi, zip(genomes, dists))
        txt = 'pairs=[' + ', '.join(f'{taxa[t]._f["name"]}@{d}' for t, d in sc) + ']'
        kind, v = res
        okk = kind == 'ok' and isinstance(v, dict) and set(v) == set(groups)
        t_rule.check(okk, txt, f'{_outcome(res)}, expected {_nm(groups)}')
        if okk:
            t_rec.check(all(isinstance(v[k], list) and sorted(v[k]) == groups[k] for k in groups), txt, f'{_outcome(res)}, expected {_nm(groups)}')
    _emit_all(rep, fi, (t_rule, t_rec))


def eval_classify(ctx, ev, dom, scenarios, thresh=_THRESH, tag=''):
    rep, m = ctx.rep, ctx.model
    fi = m.func(f'{CL}.classify')
    rep.functions.add(fi.qualname)
    params = fi.params()
    rep.require(len(params) >= 3 and 'strict' in params, 'classify: no `strict` parameter')
    rci = m.cls(f'{CL}.ClassifierResult')
    gci = m.cls(f'{CL}.GenomeMatch')
    T = {k: Tally(r, k, d, e) for (r, k, d, e) in [
        ('N1', 'pairs', 'strict mode feeds find_matches every (reference genome, its distance) pair, index-aligned and in reference order', 'find_matches(<pairs (ref_genomes[i], dists[i]) for every i>)'),
        ('N4', 'strict prediction', 'the strict prediction is the consensus of the matched taxa (a result is produced for every valid input)', 'predicted_taxon = consensus'),
        ('N4', 'no-match exit', 'no match at all: successful result without prediction and without primary match', 'success=True, predicted_taxon=None, primary_match=None'),
        ('N4', 'inconsistency warning', 'a warning naming the conflicting taxa is issued exactly when some matched taxon lies strictly below the prediction', 'one warning containing the names of exactly those taxa, none otherwise'),
        ('N4', 'failure flag', 'the result is flagged failed, with an error message, exactly when the matched taxa share no ancestor; otherwise it is successful without error', 'success = (common ancestor exists); error set iff failed'),
        ('N4', 'strict gate', 'strict processing runs only in strict mode: with strict=False the prediction is the match of the closest genome alone', 'predicted_taxon = matched taxon of the nearest genome'),
        ('N5', 'primary none', 'no primary match when there is no consensus', 'primary_match=None'),
        ('N5', 'nearest candidate', 'the primary match is the first nearest genome among those whose matched taxon lies at or below the prediction', 'first minimum of the distances over the candidate genomes'),
        ('N5', 'primary genome', 'the primary match is built from the reference genome, distance and matched taxon of the winning index', 'GenomeMatch(ref_genomes[best], dists[best], matched taxon of best)'),
    ]}
    T['pairs'].optional = True
    for t_ in T.values():
        t_.key += tag
    taxa = dom.forest(_PARENTS, thresh)
    tnames = [t._f['name'] for t in taxa]

    def field(r, name):
        return r._f.get(name, Ellipsis)

    for sc in scenarios:
        genomes = [dom.genome(i, taxa[t]) for i, (t, _) in enumerate(sc)]
        dists = [d for _, d in sc]
        matched, groups, cons, others = _expected(taxa, genomes, dists)
        txt = 'genomes=[' + ', '.join(f'{taxa[t]._f["name"]}@{d}' for t, d in sc) + ']'
        fed = []

        def observe(args, fed=fed):
            if len(args) == 1 and not isinstance(args[0], (Rec, NDArr, FuncV, ClassV, ExtV)):
                try:
                    seen = list(args[0])
                except TypeError:
                    return args
                fed.append(seen)
                return (iter(seen),)
            return args
        ev.watch = {f'{CL}.find_matches': observe}
        res = ev.run(fi, list(genomes), NDArr(dists), strict=True)
        ev.watch = {}
        if fed:
            want = list(zip(genomes, dists))
            T['pairs'].check(len(fed) == 1 and len(fed[0]) == len(want) and all(isinstance(p, tuple) and len(p) == 2 and p[0] is w[0] and p[1] == w[1] for p, w in zip(fed[0], want)),
                             txt, lambda: f'find_matches received {[_nm(list(x)) for x in fed]}')
        kind, r = res
        good = kind == 'ok' and isinstance(r, Rec) and r._ci is rci
        if not good:
            out = _outcome(res)
            # no result object at all: neither the prediction nor (where one is due) the primary match is delivered
            (T['no-match exit'] if not groups else T['strict prediction']).check(False, txt, out)
            if groups and cons is not None:
                T['nearest candidate'].check(False, txt, out)
            continue
        pred, prim, succ, err, warns = (field(r, k) for k in ('predicted_taxon', 'primary_match', 'success', 'error', 'warnings'))
        summary = f'predicted={_nm(pred)} success={succ!r} primary={_nm(field(prim, "genome")) if isinstance(prim, Rec) else prim!r} warnings={warns!r}'
        if not groups:
            T['no-match exit'].check(pred is None and prim is None and succ is True and err is None and not warns, txt, summary)
            continue
        okp = T['strict prediction'].check(pred is cons, txt, f'{summary}, expected prediction {_nm(cons)}')
        T['failure flag'].check(succ is (cons is not None) and (err is None) == (cons is not None) and (err is None or isinstance(err, str)), txt, f'{summary} error={err!r}, expected success={cons is not None}')
        # warning: identified by naming at least one matched taxon
        ws = [w for w in (warns if isinstance(warns, (list, tuple)) else []) if isinstance(w, str) and any(n in w for n in tnames)]
        on = {t._f['name'] for t in others}
        okw = (len(ws) == 1 and {n for n in tnames if n in ws[0]} == on) if others else not ws
        T['inconsistency warning'].check(okw and isinstance(warns, list), txt, f'{summary}, expected ' + (f'one warning naming {sorted(on)}' if others else 'no inconsistency warning'))
        if cons is None:
            T['primary none'].check(prim is None, txt, summary)
            continue
        if not okp:
            continue
        lin = {id(t): lineage(t) for t in groups}
        cand = [i for t, idxs in groups.items() if cons in lin[id(t)] for i in idxs]        # dict order, then index order
        dmin = min(dists[i] for i in cand)
        firsts = {next(i for i in cand if dists[i] == dmin), min(i for i in cand if dists[i] == dmin)}
        okg = isinstance(prim, Rec) and prim._ci is gci
        got = next((i for i, g in enumerate(genomes) if okg and field(prim, 'genome') is g), None)
        exp = f'expected genome #{sorted(firsts)} among candidates {cand} (distances {dists})'
        if T['nearest candidate'].check(got in firsts, txt, f'{summary} (genome #{got}), {exp}'):
            T['primary genome'].check(field(prim, 'distance') == dists[got] and field(prim, 'matched_taxon') is matched[got], txt,
                                      f'distance={field(prim, "distance")!r} matched_taxon={_nm(field(prim, "matched_taxon"))}, expected {dists[got]} / {_nm(matched[got])}')
    for sc in scenarios:
        if len(sc) > 2:
            continue
        genomes = [dom.genome(i, taxa[t]) for i, (t, _) in enumerate(sc)]
        dists = [d for _, d in sc]
        res = ev.run(fi, list(genomes), NDArr(dists), strict=False)
        kind, r = res
        best = min(range(len(dists)), key=lambda i: dists[i])
        exp = oracle_match(genomes[best]._f['taxon'], dists[best])
        txt = 'strict=False genomes=[' + ', '.join(f'{taxa[t]._f["name"]}@{d}' for t, d in sc) + ']'
        T['strict gate'].check(kind == 'ok' and isinstance(r, Rec) and field(r, 'predicted_taxon') is exp, txt,
                               (f'predicted={_nm(field(r, "predicted_taxon"))}' if kind == 'ok' and isinstance(r, Rec) else _outcome(res)) + f', expected {_nm(exp)}')
    _emit_all(rep, fi, T.values())



def check_match_guards(ctx):
    """Structural companion of the evaluated N1 clauses (the evaluation is bounded; this is not): inside the loop of find_matches the
    only thing that may decide whether a genome is recorded is the outcome of the match rule for that genome.  Every statement that
    ends an iteration early (continue / break / return / raise) and every statement that records an index must be control-dependent
    only on tests over the match result and the result mapping - a pre-filter, a cut-off, a cache that skips genomes is a violation."""
    rep, m = ctx.rep, ctx.model
    fi = m.func(f'{CL}.find_matches')
    fors = [s for s in fi.node.body if isinstance(s, (ast.For, ast.While))]
    if len(fors) != 1 or not isinstance(fors[0], ast.For):
        rep.info['N1 guards'] = 'find_matches is not a single for loop; the guard rule has no instance (the evaluation decides)'
        return
    loop = fors[0]
    loopvars = {n.id for n in ast.walk(loop.target) if isinstance(n, ast.Name)}
    # names bound (only) from the match rule / the mapping inside the loop, and the mapping itself
    mapping = {u(s.targets[0]) for s in fi.node.body if isinstance(s, ast.Assign) and len(s.targets) == 1 and isinstance(s.targets[0], ast.Name)
               and (isinstance(s.value, ast.Dict) or (isinstance(s.value, ast.Call) and u(s.value.func) in ('dict', 'defaultdict', 'collections.defaultdict', 'OrderedDict')))}
    match_names = set()
    for s in stmts_in(loop.body):
        if isinstance(s, ast.Assign) and len(s.targets) == 1 and isinstance(s.targets[0], ast.Name):
            calls = [c for c in ast.walk(s.value) if isinstance(c, ast.Call)]
            if any(m.resolve_call(fi, c) == f'{CL}.matching_taxon' for c in calls) or (isinstance(s.value, ast.Attribute) and s.value.attr == 'matched_taxon'):
                match_names.add(s.targets[0].id)
    if not match_names:
        rep.info['N1 guards'] = 'the match result is not bound to a local in find_matches; the guard rule has no instance (the evaluation decides)'
        return
    allowed = match_names | mapping | {'None', 'True', 'False'}
    pm = find_parent_map(fi.node)

    def tests_of(stmt):
        out = []
        cur = stmt
        while cur is not loop and cur in pm:
            par = pm[cur]
            if isinstance(par, (ast.If, ast.While)) and cur is not par.test:
                out.append(par.test)
            elif isinstance(par, ast.IfExp):
                out.append(par.test)
            cur = par
        return out

    sites = []
    for s in stmts_in(loop.body):
        if isinstance(s, (ast.Continue, ast.Break, ast.Return, ast.Raise)):
            sites.append((s, 'ends the iteration early'))
        elif isinstance(s, ast.Expr) and isinstance(s.value, ast.Call) and callee_attr(s.value) in ('append', 'add', 'extend', 'insert'):
            sites.append((s, 'records'))
        elif isinstance(s, (ast.Assign, ast.AugAssign)) and any(isinstance(t, ast.Subscript) and u(t.value) in mapping for t in (s.targets if isinstance(s, ast.Assign) else [s.target])):
            sites.append((s, 'records'))
    # an except handler that skips (continue) is control-dependent on the try body raising: the try body must then only hold the match rule / mapping accesses
    for s, what in sites:
        foreign = []
        for t in tests_of(s):
            names = {n.id for n in ast.walk(t) if isinstance(n, ast.Name)} - {n.func.id for n in ast.walk(t) if isinstance(n, ast.Call) and isinstance(n.func, ast.Name)}
            extra = names - allowed
            if extra:
                foreign.append((u(t), sorted(extra)))
        cur = s
        while cur is not loop and cur in pm:
            par = pm[cur]
            if isinstance(par, ast.ExceptHandler):
                tr = pm[par]
                tnames = set()
                for b in tr.body:
                    tnames |= {n.id for n in ast.walk(b) if isinstance(n, ast.Name) and isinstance(n.ctx, ast.Load)}
                extra = tnames - allowed - loopvars - {c.func.id for b in tr.body for c in ast.walk(b) if isinstance(c, ast.Call) and isinstance(c.func, ast.Name)}
                if extra:
                    foreign.append((f'except after try: {u(tr.body[0])[:60]}', sorted(extra)))
            cur = par
        rep.add('N1', fi.site(s), f'find_matches: whether a genome is recorded depends only on the match rule for that genome (the statement that {what} is guarded only by tests over the match result / the result mapping)',
                not foreign, expected=f'tests over {sorted(match_names | mapping)} only', found=foreign or 'guards over the match result only', stmt=s)
    rep.floor('N1', 'guarded record / skip statements in find_matches', len(sites), 1)


def check_coverage(ctx, ev):
    """Side-condition of the bounded evaluation: the scenario domain must exercise every statement, and every test outcome that
    code hangs on, of every function of gambit.classify it entered.  Code the domain never reaches (a special case for more taxa
    than enumerated, an environment switch ...) cannot be vouched for: the run is undecided, never a pass."""
    unc = []
    from ..inline import known_symbols
    known = known_symbols()
    subject = {f'{CL}.consensus_taxon', f'{CL}.find_matches', f'{CL}.classify', f'{CL}.matching_taxon'}
    for q, fi in sorted(ev.entered.items()):
        if not q.startswith(CL + '.'):
            continue
        if q in known and q not in subject:
            continue          # a function of the reference tree that is another property's subject (next_taxon is C03's), entered only through a default
        for s in stmts_in(fi.node.body):
            if isinstance(s, (ast.FunctionDef, ast.AsyncFunctionDef, ast.ClassDef, ast.Pass)) or (isinstance(s, ast.Expr) and isinstance(s.value, ast.Constant)):
                continue
            if id(s) not in ev.seen_stmt:
                unc.append(f'{q}: statement never reached on the evaluated domain: `{u(s)[:70]}` (line {s.lineno})')
        for n in ast.walk(fi.node):
            if isinstance(n, (ast.If, ast.While, ast.IfExp)) and not isinstance(n.test, ast.Constant):
                got = ev.seen_test.get(id(n))
                if got is not None and len(got) < 2:
                    if True in got and isinstance(n, ast.If) and not n.orelse:
                        continue      # nothing hangs on the untaken outcome
                    if isinstance(n, ast.While) and got == {False}:
                        pass
                    unc.append(f'{q}: test `{u(n.test)[:70]}` is always {sorted(got)[0]} on the evaluated domain (line {n.lineno})')
    ctx.rep.info['evaluated_functions'] = sorted(q for q in ev.entered if q.startswith(CL + '.'))
    if unc:
        raise Undecided('bounded evaluation does not cover the code: ' + '; '.join(unc[:3]))

def check(ctx):
    rep = ctx.rep
    rep.rule('N1', 'find_matches: enumerate index recorded under matching_taxon(g.taxon, d) when not None; strict mode feeds every (genome, distance) pair (finite-domain evaluation)')
    rep.rule('N2', 'consensus fold = most specific taxon / lowest common ancestor for every order (exhaustive finite-domain evaluation) + conflict latch (program-dependence rule)')
    rep.rule('N3', 'others / no-common-ancestor / empty exits / input consumed once (finite-domain evaluation)')
    rep.rule('N4', 'strict classify: prediction, no-match exit, warning exactly under a non-empty conflicting set, failure exactly without common ancestor (finite-domain evaluation)')
    rep.rule('N5', 'primary match: none without consensus; first nearest genome at or below the consensus, same index (finite-domain evaluation)')
    # the outcome is a function of the database and the query at hand: the per-row computation (get_result_item -> classify -> lineage
    # walks) writes nothing outside its own locals and the modules keep no mutable state (a memo keyed by row ids would carry one
    # database's thresholds into the next) - C08-A6 re-evaluated under this property, before the bounded evaluation
    from . import c08 as _c08
    rep.rule('A6', 'C08-A6 re-evaluated: effect analysis over the per-row call-graph closure: no write outside locals; no module-level mutable state')
    _c08.check_independence(ctx)
    rep.rule('N6', 'gambit query --strict: the flag becomes QueryParams.classify_strict, that object is what query() / query_parse() get, query_parse() forwards it; query() -> classify(strict=params.classify_strict) is C03-D6 re-evaluated')
    from ..clirules import check_query_cli_params
    check_query_cli_params(rep, ctx.model, 'N6')
    rep.assumptions += ['Finite-domain evaluation: the anchors are interpreted (not executed) on every rooted forest up to 5 nodes x every sequence of up to 4 distinct taxa (6 nodes / 5 taxa in the thorough tier), and on a '
                        '7-taxon forest with thresholds x every list of up to 2 (a sub-alphabet up to 3) (genome, distance) pairs; behaviour on larger inputs is extrapolated (small-scope argument).',
                        'Trusted base of the evaluation: Python container semantics, numpy.argmin = first minimum, zip_strict = zip(strict=True), attrs field/default semantics; ORM rows are finite records.']
    ev = Ev(ctx.model)
    dom = Domain(ev)
    eval_consensus(ctx, ev, dom)
    check_latch(ctx)
    sc = _scenarios()
    eval_find_matches(ctx, ev, dom, sc)
    eval_classify(ctx, ev, dom, sc)
    eval_find_matches(ctx, ev, dom, sc, thresh=_THRESH_NM, tag=' (thresholds not monotone)')
    eval_classify(ctx, ev, dom, sc, thresh=_THRESH_NM, tag=' (thresholds not monotone)')
    scz = [c for k in (1, 2, 3) for c in itertools.product(_LETTERS_Z, repeat=k)]
    eval_find_matches(ctx, ev, dom, scz, thresh=_THRESH_Z, tag=' (a zero threshold)')
    eval_classify(ctx, ev, dom, scz, thresh=_THRESH_Z, tag=' (a zero threshold)')
    check_match_guards(ctx)
    rep.info['finite_domain_evaluations'] = ev.evaluations
    if not rep.violations:
        check_coverage(ctx, ev)


def thorough(ctx):
    ev = Ev(ctx.model)
    eval_consensus(ctx, ev, Domain(ev), max_nodes=6, max_taxa=5, tag=' (thorough domain)')
    ctx.rep.info['finite_domain_evaluations_thorough'] = ev.evaluations


from ..variants import V  # noqa: E402

_C = 'src/gambit/classify.py'

# ---- the three anchors in other, behaviour-preserving shapes (E) and the same shapes with one realistic bug each (B twins)
_FOLD_OLD = "\t# Current consensus and ancestors, bottom to top\n\ttrunk = list(taxa[0].ancestors(incself=True))\n\t# Whether taxa seen so far have been found on different branches (consensus is their common ancestor)\n\tconflict = False\n\n\tfor taxon in taxa[1:]:\n\t\t# Taxon in current trunk, nothing to do\n\t\tif taxon in trunk:\n\t\t\tcontinue\n\n\t\t# Find where ancestry of taxon meets current trunk\n\t\tfor a in taxon.ancestors(incself=False):\n\t\t\ttry:\n\t\t\t\ti = trunk.index(a)\n\t\t\texcept ValueError:\n\t\t\t\t# Current ancestor not in trunk, continue to parent\n\t\t\t\tcontinue\n\n\t\t\tif i == 0 and not conflict:\n\t\t\t\t# Directly descended from current consensus, this taxon becomes new consensus\n\t\t\t\ttrunk = list(taxon.ancestors(incself=True))\n\n\t\t\telse:\n\t\t\t\t# Meets the trunk further up (or consensus is already a common ancestor of taxa on\n\t\t\t\t# different branches) - intersection is new consensus\n\t\t\t\ttrunk = trunk[i:]\n\t\t\t\tconflict = True\n\n\t\t\tbreak\n\n\t\telse:\n\t\t\t# No common ancestor exists\n\t\t\treturn (None, set(taxa))\n\n\tothers = {t for t in taxa if t not in trunk}\n\treturn (trunk[0], others)\n"


def _fold(rest='tail', walk='taxon.ancestors(incself=False)', notfound='meet is None', gencond='conflict or meet > 0', cut='meet', others='{t for t in taxa if t not in trunk}'):
    """star-unpacked start, meeting-point search in a helper that returns from inside its loop, guard-clause exit, De Morgan'd
    branch, in-place truncation, consensus bound to a local"""
    helper = ("def _meeting_index(trunk, taxon):\n\tfor anc in " + walk + ":\n\t\tif anc in trunk:\n\t\t\treturn trunk.index(anc)\n\treturn None\n\n\ndef consensus_taxon(")
    body = ("\thead, *tail = taxa\n\ttrunk = list(head.ancestors(incself=True))\n\tconflict = False\n\n\tfor taxon in " + rest + ":\n\t\tif taxon in trunk:\n\t\t\tcontinue\n\n"
            "\t\tmeet = _meeting_index(trunk, taxon)\n\t\tif " + notfound + ":\n\t\t\treturn (None, set(taxa))\n\n\t\tif " + gencond + ":\n\t\t\tdel trunk[:" + cut + "]\n\t\t\tconflict = True\n"
            "\t\telse:\n\t\t\ttrunk = list(taxon.ancestors(incself=True))\n\n\tconsensus = trunk[0]\n\tothers = " + others + "\n\treturn (consensus, others)\n")
    return dict(old=_FOLD_OLD, new=body, also=((_C, "def consensus_taxon(", helper),))


_STRICT_OLD = "\t# Find all matches and attempt to get consensus\n\tmatches = find_matches(zip_strict(ref_genomes, dists))\n\tconsensus, others = consensus_taxon(matches.keys())\n\n\t# No matches found\n\tif not matches:\n\t\treturn ClassifierResult(\n\t\t\tsuccess=True,\n\t\t\tpredicted_taxon=None,\n\t\t\tprimary_match=None,\n\t\t\tclosest_match=closest_match,\n\t\t)\n\n\t# Find primary match\n\tif consensus is None:\n\t\tprimary_match = None\n\n\telse:\n\t\tbest_i = None\n\t\tbest_d = float('inf')\n\t\tbest_taxon = None\n\n\t\tfor taxon, idxs in matches.items():\n\t\t\tif consensus not in taxon.ancestors(incself=True):\n\t\t\t\tcontinue\n\n\t\t\tfor i in idxs:\n\t\t\t\tif dists[i] < best_d:\n\t\t\t\t\tbest_i = i\n\t\t\t\t\tbest_d = dists[i]\n\t\t\t\t\tbest_taxon = taxon\n\n\t\tassert best_i is not None\n\t\tprimary_match = GenomeMatch(\n\t\t\tgenome=ref_genomes[best_i],\n\t\t\tdistance=best_d,\n\t\t\tmatched_taxon=best_taxon,\n\t\t)\n\n\tresult = ClassifierResult(\n\t\tsuccess=True,\n\t\tpredicted_taxon=consensus,\n\t\tprimary_match=primary_match,\n\t\tclosest_match=closest_match,\n\t)\n\n\t# Warn of inconsistent matches\n\tif others:\n\t\tmsg = f'Query matched {len(others)} inconsistent taxa: '\n\t\tmsg += ', '.join(sorted(other.short_repr() for other in others))\n\t\tmsg += '. Reporting lowest common ancestor of this set.'\n\t\tresult.warnings.append(msg)\n\n\t# No consensus found - matches do not have common ancestor\n\tif consensus is None:\n\t\tresult.success = False\n\t\tresult.error = 'Matched taxa have no common ancestor.'\n\n\t# Primary match is not closest\n\tif primary_match is not None and primary_match.genome != closest_match.genome:\n\t\tresult.warnings.append('Primary genome match is not closest match.')\n\n\treturn result\n"


def _nearest_helper(skip='continue', keep='(i, d, taxon)', better='d < best[1]'):
    return ("def _nearest_match(ref_genomes, dists, matches, consensus):\n\tbest = None\n\tfor taxon, idxs in matches.items():\n\t\tif consensus not in taxon.ancestors(incself=True):\n\t\t\t" + skip + "\n"
            "\t\tfor i in idxs:\n\t\t\td = dists[i]\n\t\t\tif best is None or " + better + ":\n\t\t\t\tbest = " + keep + "\n\tassert best is not None\n"
            "\treturn GenomeMatch(genome=ref_genomes[best[0]], distance=best[1], matched_taxon=best[2])\n\n\ndef classify(")


def _strict(failwarn='notes', warncond='others', failcond='consensus is None', **helper):
    """no-match exit before the consensus call, warnings collected in a local list and passed to the constructor, the failure
    as an early return with the final field values, primary-match search in a helper (running best as a tuple, no +inf)"""
    body = ("\tmatches = find_matches(zip_strict(ref_genomes, dists))\n\tif not matches:\n\t\treturn ClassifierResult(success=True, predicted_taxon=None, primary_match=None, closest_match=closest_match)\n\n"
            "\tconsensus, others = consensus_taxon(matches.keys())\n\tnotes = []\n\tif " + warncond + ":\n\t\tnames = sorted(other.short_repr() for other in others)\n"
            "\t\tnotes.append(f'Query matched {len(others)} inconsistent taxa: ' + ', '.join(names) + '. Reporting lowest common ancestor of this set.')\n\n"
            "\tif " + failcond + ":\n\t\treturn ClassifierResult(\n\t\t\tsuccess=False,\n\t\t\tpredicted_taxon=None,\n\t\t\tprimary_match=None,\n\t\t\tclosest_match=closest_match,\n\t\t\twarnings=" + failwarn + ",\n"
            "\t\t\terror='Matched taxa have no common ancestor.',\n\t\t)\n\n\tprimary_match = _nearest_match(ref_genomes, dists, matches, consensus)\n\tif primary_match.genome != closest_match.genome:\n"
            "\t\tnotes.append('Primary genome match is not closest match.')\n\n\treturn ClassifierResult(success=True, predicted_taxon=consensus, primary_match=primary_match, closest_match=closest_match, warnings=notes)\n")
    return dict(old=_STRICT_OLD, new=body, also=((_C, "def classify(", _nearest_helper(**helper)),))


_PRIMARY_OLD = _STRICT_OLD[_STRICT_OLD.index("\t# Find primary match\n"):_STRICT_OLD.index("\tresult = ClassifierResult(\n")]


def _primary_ifexp(test='consensus is None'):
    return dict(old=_PRIMARY_OLD, new="\tprimary_match = None if " + test + " else _nearest_match(ref_genomes, dists, matches, consensus)\n\n", also=((_C, "def classify(", _nearest_helper()),))


_FM_OLD = "\t\tif match is not None:\n\t\t\tmatches.setdefault(match, []).append(i)\n"


def _fm(first='matches[match] = [i]', later='matches[match].append(i)', skip='match is None'):
    return dict(old=_FM_OLD, new="\t\tif " + skip + ":\n\t\t\tcontinue\n\t\tif match in matches:\n\t\t\t" + later + "\n\t\telse:\n\t\t\t" + first + "\n")


VARIANTS = [
    V('latch test dropped (the repaired defect)', 'B', _C, "if i == 0 and not conflict:", "if i == 0:", 'N2'),
    V('latch never set', 'B', _C, "\t\t\t\ttrunk = trunk[i:]\n\t\t\t\tconflict = True\n", "\t\t\t\ttrunk = trunk[i:]\n", 'N2'),
    V('latch cleared on descend', 'B', _C, "\t\t\t\ttrunk = list(taxon.ancestors(incself=True))\n", "\t\t\t\ttrunk = list(taxon.ancestors(incself=True))\n\t\t\t\tconflict = False\n", None),
    V('descend on i <= 1', 'B', _C, "if i == 0 and not conflict:", "if i <= 1 and not conflict:", 'N2'),
    V('warning under the wrong set', 'B', _C, "\tif others:\n\t\tmsg = f'Query matched", "\tif consensus is None:\n\t\tmsg = f'Query matched", 'N4'),
    V('success flag never cleared', 'B', _C, "\t\tresult.success = False\n", "", 'N4'),
    V('the --strict flag is dropped at QueryParams (mutation probe)', 'B', 'src/gambit/cli/query.py', "params = QueryParams(classify_strict=strict)", "params = QueryParams()", 'N6'),
    V('--strict defaults to on', 'B', 'src/gambit/cli/query.py', "\t'--strict/--no-strict',\n\tdefault=False,", "\t'--strict/--no-strict',\n\tdefault=True,", 'N6'),
    V('the signature-file query runs with default parameters', 'B', 'src/gambit/cli/query.py', "results = query(db, sigs, params, inputs=inputs, progress=pconf)", "results = query(db, sigs, inputs=inputs, progress=pconf)", 'N6'),
    V('query_parse() does not forward the parameters', 'B', 'src/gambit/query.py', "return query(db, query_sigs, params, inputs=inputs, progress=pconf, **kw)", "return query(db, query_sigs, inputs=inputs, progress=pconf, **kw)", 'N6'),
    V('E: parameters passed by keyword, built inline', 'E', 'src/gambit/cli/query.py', "results = query(db, sigs, params, inputs=inputs, progress=pconf)", "results = query(db, sigs, params=params, inputs=inputs, progress=pconf)"),
    V('primary filter inverted', 'B', _C, "if consensus not in taxon.ancestors(incself=True):\n\t\t\t\tcontinue", "if consensus in taxon.ancestors(incself=True):\n\t\t\t\tcontinue", 'N5'),
    V('primary filter dropped', 'B', _C, "\t\t\tif consensus not in taxon.ancestors(incself=True):\n\t\t\t\tcontinue\n", "", 'N5'),
    V('primary genome from closest index', 'B', _C, "genome=ref_genomes[best_i],", "genome=ref_genomes[closest],", 'N5'),
    V('find_matches records a running count', 'B', _C, "matches.setdefault(match, []).append(i)", "matches.setdefault(match, []).append(len(matches))", 'N1'),
    V('others = taxa on the trunk', 'B', _C, "others = {t for t in taxa if t not in trunk}", "others = {t for t in taxa if t in trunk}", 'N3'),
    V('no common ancestor returns first taxon', 'B', _C, "\t\t\treturn (None, set(taxa))", "\t\t\treturn (taxa[0], set(taxa))", 'N3'),
    V('nearest uses <=', 'B', _C, "\t\t\t\tif dists[i] < best_d:", "\t\t\t\tif dists[i] <= best_d:", 'N5'),
    V('E: latch named differently', 'E', _C, "conflict", "diverged", count=3),
    V('E: nested latch test', 'E', _C, "\t\t\tif i == 0 and not conflict:\n\t\t\t\t# Directly descended from current consensus, this taxon becomes new consensus\n\t\t\t\ttrunk = list(taxon.ancestors(incself=True))\n\n\t\t\telse:",
      "\t\t\tif not conflict and i == 0:\n\t\t\t\ttrunk = list(taxon.ancestors(incself=True))\n\n\t\t\telse:"),
    # single-site mutants that no rule reported before the evaluation (mutation probe)
    V('latch starts set', 'B', _C, "\tconflict = False\n", "\tconflict = True\n", 'N2'),
    V('ancestor search gives up at the first ancestor off the trunk', 'B', _C, "\t\t\t\t# Current ancestor not in trunk, continue to parent\n\t\t\t\tcontinue\n", "\t\t\t\tbreak\n", 'N2'),
    V('primary search stops at the first matched taxon outside the consensus subtree', 'B', _C, "\t\t\tif consensus not in taxon.ancestors(incself=True):\n\t\t\t\tcontinue\n", "\t\t\tif consensus not in taxon.ancestors(incself=True):\n\t\t\t\tbreak\n", 'N5'),
    V('initial trunk without the first taxon itself', 'B', _C, "trunk = list(taxa[0].ancestors(incself=True))", "trunk = list(taxa[0].ancestors(incself=False))", 'N2'),
    V('descended trunk without the taxon itself', 'B', _C, "\t\t\t\ttrunk = list(taxon.ancestors(incself=True))\n", "\t\t\t\ttrunk = list(taxon.ancestors(incself=False))\n", 'N2'),
    V('strict pairs swapped', 'B', _C, "find_matches(zip_strict(ref_genomes, dists))", "find_matches(zip_strict(dists, ref_genomes))", 'N4'),
    V('primary search asserts the opposite', 'B', _C, "\t\tassert best_i is not None\n", "\t\tassert best_i is None\n", 'N5'),
    V('E: ancestor walk includes the taxon itself (it is not on the trunk at that point)', 'E', _C, "for a in taxon.ancestors(incself=False):", "for a in taxon.ancestors(incself=True):"),
    V('E: fold loops over every taxon (the first one is on its own trunk)', 'E', _C, "for taxon in taxa[1:]:", "for taxon in taxa:"),
    # the fold in another shape, and its broken twins
    V('E: fold restructured (star-unpack, search helper, guard clause, in-place truncation, local consensus)', 'E', _C, **_fold()),
    V('restructured fold: second taxon skipped', 'B', _C, expect='N2', **_fold(rest='tail[1:]')),
    V('restructured fold: helper returns the farthest meeting point', 'B', _C, expect='N2', **_fold(walk='reversed(list(taxon.ancestors(incself=False)))')),
    V('restructured fold: index 0 taken for "not found"', 'B', _C, expect='N2', **_fold(notfound='not meet')),
    V('restructured fold: De Morgan slip (and for or)', 'B', _C, expect='N2', **_fold(gencond='conflict and meet > 0')),
    V('restructured fold: truncation off by one', 'B', _C, expect='N2', **_fold(cut='meet + 1')),
    V('restructured fold: latch test lost in the rewrite', 'B', _C, expect='N2', **_fold(gencond='meet > 0')),
    V('restructured fold: others = everything but the consensus', 'B', _C, expect='N3', **_fold(others='{t for t in taxa if t is not consensus}')),
    # find_matches in another shape
    V('E: find_matches with guard clause, membership test and first insert', 'E', _C, **_fm()),
    V('membership form: later genomes overwrite the list', 'B', _C, expect='N1', **_fm(later='matches[match] = [i]')),
    V('membership form: first genome of a taxon not recorded', 'B', _C, expect='N1', **_fm(first='matches[match] = []')),
    V('membership form: guard inverted', 'B', _C, expect='N1', **_fm(skip='match is not None')),
    # the strict branch of classify() in another shape
    V('E: strict branch with early returns, warnings passed to the constructor, search helper', 'E', _C, **_strict()),
    V('early-return form: failure result drops the collected warning', 'B', _C, expect='N4', **_strict(failwarn='[]')),
    V('early-return form: warning under the wrong condition', 'B', _C, expect='N4', **_strict(warncond='consensus is None')),
    V('early-return form: failure exit under `others`', 'B', _C, expect='N4', **_strict(failcond='others')),
    V('search helper: taxon of the match replaced by the consensus', 'B', _C, expect='N5', **_strict(keep='(i, d, consensus)')),
    V('search helper: last nearest wins', 'B', _C, expect='N5', **_strict(better='d <= best[1]')),
    V('search helper: stops at the first taxon outside the subtree', 'B', _C, expect='N5', **_strict(skip='break')),
    V('E: primary match as a conditional expression over a helper', 'E', _C, **_primary_ifexp()),
    V('conditional expression: arms swapped', 'B', _C, expect='N5', **_primary_ifexp('consensus is not None')),
]
