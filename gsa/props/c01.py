"""C01 - a signature is exactly the set of prefix-anchored k-mers on both strands.

K1 search trace per strand (window, restart, exit on the miss, yielded position/strand)   K2 slice arithmetic (+K2.0 harvest)
K3 composition and bounds   K4 strand dispatch   K5 skip discipline   K6 case folding
K7 accumulator siblings   K8 dtype table (evaluated for every k in 1..32)   K9 per-sequence loop   K10 input types
"""
import ast
import copy
import re

from ..affine import Aff, sym, const
from ..astutil import (u, atoms, guard_map, path_atoms, stmts_in, calls_in, callee_attr, reaching_def, def_value,
                       PARAM, AMBIGUOUS, raised_name, assigns_to, get_arg, is_const, is_none, block_path,
                       always_exits, walk_ordered, assigned_targets, names_in)
from ..mini import Mini, Return
from ..report import Undecided
from . import c07

K, P = sym('K'), sym('P')
SPEC_ENV_SUFFIX = {'k': K, 'prefix_len': P, 'total_len': K.add(P)}


def spec_env(base):
    """Affine env for attribute reads of a KmerSpec reachable as `base` (e.g. 'kmerspec', 'self.kmerspec')."""
    env = {f'{base}.{a}': v for a, v in SPEC_ENV_SUFFIX.items()}
    env[f'len({base}.prefix)'] = P
    return env


# ------------------------------------------------------------------------------------------------ symbolic evaluation
# The rules below do not match statement shapes.  They evaluate the anchor functions symbolically: locals are replaced by
# the expressions that define them (so `stop = pos - P + 1; slice(stop - K, stop)` and the spelled-out slice are the same
# value), control flow is followed per path (an if/else statement, a guard clause with early return and a conditional
# expression are the same thing: a value under a path condition), and what is compared is the value that reaches the
# anchor (a return, a call argument, a find() bound) together with the condition under which it does.

class _Subst(ast.NodeTransformer):
    def __init__(self, env, skip=()):
        self.env, self.skip = env, set(skip)

    def visit_Name(self, node):
        if isinstance(node.ctx, ast.Load) and node.id in self.env and node.id not in self.skip:
            return copy.deepcopy(self.env[node.id])
        return node


def _scoped_names(expr):
    out = set()
    for n in ast.walk(expr):
        if isinstance(n, ast.comprehension):
            out |= {x.id for x in ast.walk(n.target) if isinstance(x, ast.Name)}
        elif isinstance(n, ast.Lambda):
            a = n.args
            out |= {x.arg for x in a.posonlyargs + a.args + a.kwonlyargs}
    return out


def subst(expr, env):
    """expr with every local replaced by its defining expression (names bound inside expr itself are left alone)."""
    if expr is None:
        return None
    return _Subst(env, _scoped_names(expr)).visit(copy.deepcopy(expr))


_NEG = {'true': 'false', 'false': 'true', 'eq': 'ne', 'ne': 'eq', 'is': 'isnot', 'isnot': 'is', 'in': 'notin', 'notin': 'in'}


_PURE_CALLS = {'isinstance', 'len', 'hasattr', 'callable', 'issubclass', 'type'}


def _neg(a):
    if a[0] in ('lt', 'le'):
        return ('le' if a[0] == 'lt' else 'lt', a[2], a[1])
    return (_NEG[a[0]],) + tuple(a[1:])


def decide(test, at, key=u):
    """Truth value of `test` implied by the facts `at` (True / False / None = not implied)."""
    if isinstance(test, ast.Constant):
        return bool(test.value)
    if any(isinstance(n, ast.Call) and u(n.func) not in _PURE_CALLS for n in ast.walk(test)):
        return None          # the same text may evaluate differently the second time
    t, f = atoms(test, True, key), atoms(test, False, key)
    if t and t <= at:
        return True
    if f and f <= at:
        return False
    if t and any(_neg(a) in at for a in t):
        return False
    if f and any(_neg(a) in at for a in f):
        return True
    return None


class _Fold(ast.NodeTransformer):
    """`A if <constant> else B` -> the arm taken; `not <constant>` -> constant (after substitution of a literal flag)."""

    def visit_IfExp(self, node):
        self.generic_visit(node)
        if isinstance(node.test, ast.Constant):
            return node.body if node.test.value else node.orelse
        return node

    def visit_UnaryOp(self, node):
        self.generic_visit(node)
        if isinstance(node.op, ast.Not) and isinstance(node.operand, ast.Constant):
            return ast.Constant(value=not node.operand.value)
        return node


def fold_consts(e):
    return _Fold().visit(e) if e is not None else None


class _Repl(ast.NodeTransformer):
    def __init__(self, old, new):
        self.old, self.new = old, new

    def visit(self, node):
        if node is self.old:
            return self.new
        return self.generic_visit(node)


def lift(expr, at, guards=()):
    """Resolve every conditional expression inside expr: yields (expr', facts', guards') per feasible combination."""
    idx = next((i for i, n in enumerate(walk_ordered(expr)) if isinstance(n, ast.IfExp)), None)
    if idx is None:
        yield expr, at, tuple(guards)
        return
    node = next(n for i, n in enumerate(walk_ordered(expr)) if i == idx)
    d = decide(node.test, at)
    for pol in ([d] if d is not None else [True, False]):
        e2 = copy.deepcopy(expr)
        n2 = next(n for i, n in enumerate(walk_ordered(e2)) if i == idx)
        arm = n2.body if pol else n2.orelse
        e3 = arm if idx == 0 else _Repl(n2, arm).visit(e2)
        yield from lift(e3, at | (atoms(node.test, pol) or set()), tuple(guards) + ((node.test, pol),))


def _pure(e):
    """no call (len() of something pure excepted: it neither has an effect nor creates an object whose identity matters)"""
    return not any(isinstance(n, (ast.Yield, ast.YieldFrom, ast.Await, ast.NamedExpr)) or
                   (isinstance(n, ast.Call) and not (isinstance(n.func, ast.Name) and n.func.id == 'len' and len(n.args) == 1 and not n.keywords)) for n in ast.walk(e))


class SPath:
    """One feasible path through a function: how it ends, the value it returns (locals substituted), the facts that hold
    on it, and the calls / loops it performs on the way."""

    def __init__(self, kind, stmt, value, env, at, guards, effects):
        self.kind, self.stmt, self.value, self.env, self.atoms, self.guards, self.effects = kind, stmt, value, env, at, guards, effects


def enum_paths(fi, what, subst_calls=True, limit=64):
    """Enumerate the paths of a loop-free function body (for loops are recorded as effects, not entered).
    subst_calls=False keeps the identity of call results: a local bound to a call is represented by a token `name@line:col`
    (two evaluations of the same call text are then different objects); tokens -> (value, stmt) in the returned table."""
    out, tokens = [], {}

    def bind(env, name, val, stmt):
        if subst_calls or _pure(val):
            env[name] = val
        else:
            tok = f'{name}@{stmt.lineno}:{stmt.col_offset}'
            tokens[tok] = (val, stmt)
            env[name] = ast.Name(id=tok, ctx=ast.Load())

    def assign(targets, val, env, stmt, effects=None):
        for t in targets:
            if isinstance(t, ast.Name):
                bind(env, t.id, val, stmt)
            elif isinstance(t, (ast.Tuple, ast.List)) and all(isinstance(e, ast.Name) for e in t.elts) \
                    and isinstance(val, (ast.Tuple, ast.List)) and len(val.elts) == len(t.elts):
                for e, v in zip(t.elts, val.elts):
                    bind(env, e.id, v, stmt)
            elif isinstance(t, (ast.Attribute, ast.Subscript)) and effects is not None:
                effects.append(('store', stmt, subst(t, env), val))     # recorded: the caller decides what a store means
            else:
                raise Undecided(f'{what}: store `{u(t)} = {u(val)[:60]}` is outside the evaluated vocabulary')

    def go(todo, env, at, guards, effects):
        if len(out) > limit:
            raise Undecided(f'{what}: more than {limit} paths')
        while todo:
            s, todo = todo[0], todo[1:]
            if isinstance(s, ast.Pass) or (isinstance(s, ast.Expr) and isinstance(s.value, ast.Constant)):
                continue
            if isinstance(s, (ast.Assign, ast.AnnAssign)):
                if s.value is None:
                    continue
                targets = s.targets if isinstance(s, ast.Assign) else [s.target]
                val = subst(s.value, env)
                eager = isinstance(val, ast.IfExp) and (any(isinstance(t, (ast.Tuple, ast.List)) for t in targets) or not (subst_calls or _pure(val)))
                if not eager:
                    assign(targets, val, env, s, effects)
                    continue
                for arm, at2, g2 in _top_lift(val, at, guards):
                    env2, eff2 = dict(env), list(effects)
                    assign(targets, arm, env2, s, eff2)
                    go(todo, env2, at2, g2, eff2)
                return
            if isinstance(s, ast.AugAssign) and isinstance(s.target, ast.Name):
                env[s.target.id] = ast.BinOp(left=subst(ast.Name(id=s.target.id, ctx=ast.Load()), env), op=s.op, right=subst(s.value, env))
                continue
            if isinstance(s, ast.If):
                for test, at2, g2 in lift(subst(s.test, env), at, guards):
                    d = decide(test, at2)
                    for pol in ([d] if d is not None else [True, False]):
                        go((s.body if pol else s.orelse) + todo, dict(env), at2 | (atoms(test, pol) or set()), g2 + ((test, pol),), list(effects))
                return
            if isinstance(s, ast.Return):
                out.append(SPath('return', s, subst(s.value, env), env, at, guards, effects))
                return
            if isinstance(s, ast.Raise):
                out.append(SPath('raise', s, subst(s.exc, env), env, at, guards, effects))
                return
            if isinstance(s, ast.Expr) and isinstance(s.value, ast.Call):
                c = s.value
                if isinstance(c.func, ast.Attribute) and c.func.attr == 'sort' and isinstance(c.func.value, ast.Name) and not c.args and not c.keywords \
                        and c.func.value.id in env and subst_calls:
                    # x.sort(): from here on x is the sorted array
                    env[c.func.value.id] = ast.Call(func=ast.Name(id='__sorted_in_place__', ctx=ast.Load()), args=[env[c.func.value.id]], keywords=[])
                    continue
                alts = list(lift(subst(c, env), at, guards))
                if len(alts) == 1:
                    effects.append(('expr', s, alts[0][0], None))
                    continue
                for e2, at2, g2 in alts:
                    go(todo, dict(env), at2, g2, effects + [('expr', s, e2, None)])
                return
            if isinstance(s, ast.For) and not s.orelse:
                bound = {n.id for st in stmts_in(s.body) for t in assigned_targets(st) for n in ast.walk(t) if isinstance(n, ast.Name)}
                bound |= {n.id for n in ast.walk(s.target) if isinstance(n, ast.Name)}
                inner = {k: v for k, v in env.items() if k not in bound}
                alts = list(lift(subst(s.iter, env), at, guards))
                for k in bound:
                    env[k] = ast.Name(id=f'{k}@after:{s.lineno}', ctx=ast.Load())
                if len(alts) == 1:
                    effects.append(('for', s, alts[0][0], inner))
                    continue
                for e2, at2, g2 in alts:
                    go(todo, dict(env), at2, g2, effects + [('for', s, e2, inner)])
                return
            raise Undecided(f'{what}: statement `{u(s).splitlines()[0][:60]}` is outside the evaluated vocabulary')
        out.append(SPath('fall', None, None, env, at, guards, effects))

    def _top_lift(val, at, guards):
        if not isinstance(val, ast.IfExp):
            yield val, at, guards
            return
        d = decide(val.test, at)
        for pol in ([d] if d is not None else [True, False]):
            yield from _top_lift(val.body if pol else val.orelse, at | (atoms(val.test, pol) or set()), tuple(guards) + ((val.test, pol),))

    go(list(fi.node.body), {}, set(), (), [])
    return out, tokens


def return_values(paths, what):
    """(value, facts, guards, return stmt) for every way a value is returned (conditional expressions resolved)."""
    out = []
    for p in paths:
        if p.kind == 'return' and p.value is not None:
            for v, at, g in lift(p.value, p.atoms, p.guards):
                out.append((v, at, g, p.stmt))
        elif p.kind != 'raise':
            raise Undecided(f'{what}: a path ends without returning a value')
    return out


# ------------------------------------------------------------------------------------------------ K2.0
def harvest_kmerspec(ctx):
    rep, m = ctx.rep, ctx.model
    fi = m.func('gambit.kmers.KmerSpec.__init__')
    rep.functions.add(fi.qualname)
    calls = [c for c in calls_in(fi.node) if callee_attr(c) == '__attrs_init__']
    rep.require(len(calls) == 1, 'KmerSpec.__init__: no single __attrs_init__ call')
    call = calls[0]
    params = fi.params()
    rep.require(params[:3] == ['self', 'k', 'prefix'], f'KmerSpec.__init__ parameters changed: {params}')
    # the keyword values as they reach __attrs_init__: locals substituted, results of calls kept as tokens (the stored prefix is
    # one object; P is *its* length, whether spelled len(prefix) at the call or bound to a local first)
    paths, tokens = enum_paths(fi, 'KmerSpec.__init__', subst_calls=False)
    live = [p for p in paths if p.kind != 'raise']
    rep.require(len(live) == 1, f'KmerSpec.__init__: {len(live)} paths construct the object (expected one)')
    p0 = live[0]
    inits = [(st, e) for (k_, st, e, _i) in p0.effects if k_ == 'expr' and callee_attr(e) == '__attrs_init__']
    rep.require(len(inits) == 1 and not any(k.arg is None for k in inits[0][1].keywords), 'KmerSpec.__init__: __attrs_init__ is not called exactly once with explicit keywords')
    kw = {k.arg: k.value for k in inits[0][1].keywords}

    def deref(e):
        return tokens[e.id][0] if isinstance(e, ast.Name) and e.id in tokens else e
    pv = kw.get('prefix')
    env = {'k': K, f'len({u(pv)})': P} if isinstance(pv, ast.Name) else {'k': K}
    want = {'k': K, 'prefix_len': P, 'total_len': K.add(P)}
    for name, w in want.items():
        v = Aff.try_of(kw[name], env) if name in kw else None
        rep.add('K2.0', fi.site(call), f'KmerSpec.{name} is defined as {w}', v == w, expected=w, found=v if v is not None else u(deref(kw[name]) if name in kw else None),
                stmt=f'__attrs_init__({name}=)')
    # prefix attribute: upper-cased bytes of the argument, validated
    v = deref(pv) if pv is not None else None
    ok = isinstance(v, ast.Call) and callee_attr(v) == 'upper' and not v.args and not v.keywords and isinstance(v.func.value, ast.Call) \
        and m.resolve_call(fi, v.func.value) == 'gambit.seq.seq_to_bytes' and [u(a) for a in v.func.value.args] == ['prefix'] and not v.func.value.keywords
    rep.add('K6', fi.site(call), 'the stored prefix is the upper-cased byte form of the argument (needle is upper-case)', ok,
            expected='seq_to_bytes(prefix).upper()', found=u(v), stmt='__attrs_init__(prefix=)')
    val = [e for (k_, st, e, _i) in p0.effects if k_ == 'expr' and m.resolve_call(fi, e) == 'gambit.seq.validate_dna_seq_bytes']
    okv = bool(val) and all([u(a) for a in c.args] == [u(pv)] and not c.keywords for c in val)
    rep.add('K2.0', fi.site(call), 'the prefix is validated to contain only ACGT', okv, expected='validate_dna_seq_bytes(<the stored prefix>)',
            found=[u(deref(c.args[0]) if c.args else c) for c in val], stmt='validate prefix')
    at = p0.atoms
    rep.add('K2.0', fi.site(call), 'k >= 1 is enforced', ('le', '1', 'k') in at or ('lt', '0', 'k') in at, expected='k >= 1', found=sorted(at), stmt='k guard')
    # index_dtype / nkmers attributes come from the functions analysed under K8
    for name, fn in (('index_dtype', 'gambit.kmers.index_dtype'), ('nkmers', 'gambit.kmers.nkmers')):
        v = deref(kw[name]) if name in kw else None
        ok = isinstance(v, ast.Call) and m.resolve_call(fi, v) == fn and [u(a) for a in v.args] == ['k'] and not v.keywords
        rep.add('K2.0', fi.site(call), f'KmerSpec.{name} = {fn.rsplit(".", 1)[1]}(k)', ok, expected=f'{name}(k)', found=u(v), stmt=f'__attrs_init__({name}=)')


# ------------------------------------------------------------------------------------------------ K1
# The search of one strand is decided on its *trace*, not on the loop syntax.  find_kmers is executed symbolically along the
# path on which every find() hits; each find() result is a symbol r1, r2, ...; two iterations of every search loop are
# unrolled and the loop-carried state after the second must be the state after the first with the hit symbols shifted by one
# (so every later iteration repeats the second).  The trace of a strand must then read
#       F(start=S0, end=E) T(r1) Y(pos(r1))  F(start=r1+1, end=E) T(r2) Y(pos(r2))  [F(start=r2+1, end=E)] ...
# with F = find call (receiver, needle, start, end as affine forms), T = the test that separates a hit (r >= 0) from the miss
# (r == -1) and whose miss side leaves the loop without producing anything, Y = yield of the match for that hit.
# `start = S0; while True: r = find(start); if r < 0: break; yield; start = r + 1` and
# `r = find(S0); while r >= 0: yield; r = find(r + 1)` (and a generator helper expanded in place) have the same trace.
_RSYM = re.compile(r'__r(\d+)')


def _is_find(n):
    return isinstance(n, ast.Call) and isinstance(n.func, ast.Attribute) and n.func.attr == 'find'


def _has(node, pred):
    return any(pred(n) for n in ast.walk(node))


def _loop_ctrl(stmts):
    """break / continue statements that belong to the loop enclosing stmts (not to a loop nested in them)."""
    out = []
    for s in stmts:
        if isinstance(s, (ast.Break, ast.Continue)):
            out.append(s)
        elif isinstance(s, (ast.For, ast.While, ast.AsyncFor, ast.FunctionDef, ast.AsyncFunctionDef, ast.ClassDef)):
            continue
        else:
            for f in ('body', 'orelse', 'finalbody'):
                out += _loop_ctrl(getattr(s, f, None) or [])
            if isinstance(s, ast.Try):
                for h in s.handlers:
                    out += _loop_ctrl(h.body)
    return out


class _LoopMark:
    pass


class SearchExec:
    def __init__(self, ctx, fi, spec, seqp):
        self.rep, self.m, self.fi, self.fn, self.spec, self.seqp = ctx.rep, ctx.model, fi, fi.node, spec, seqp
        self.events = []
        self.nr = 0
        self.status = {}          # hit symbol -> 'unknown' | 'hit' | 'miss'
        self.rest = []            # continuation: remaining statements of the enclosing blocks (innermost last), _LoopMark at loop level
        self.segments = []        # one per search loop: dict(loop=, events=, periodic=, abort=)
        self.consumed = 0
        self.early = []           # (if stmt, substituted test, return stmts)
        self.sig_stmt = None
        self.top_signal = None
        self.nosubst = {n.func.value.id for n in ast.walk(self.fn) if _is_find(n) and isinstance(n.func.value, ast.Name)}
        # ... and the locals handed to a generator of the package as the object it calls find() on
        for n in ast.walk(self.fn):
            g = self.package_generator(n) if isinstance(n, ast.Call) else None
            if g is not None:
                gps = g.params()
                for c in ast.walk(g.node):
                    if _is_find(c) and isinstance(c.func.value, ast.Name) and c.func.value.id in gps:
                        i = gps.index(c.func.value.id)
                        if i < len(n.args) and isinstance(n.args[i], ast.Name):
                            self.nosubst.add(n.args[i].id)
        self.gen_stack = []
        self.nopaque = 0
        self.in_miss = 0
        self.top_returns = []

    # ---- helpers
    def und(self, msg):
        raise Undecided(f'find_kmers: {msg}')

    def sub(self, e, env):
        e = fold_consts(subst(e, {k: v for k, v in env.items() if k not in self.nosubst}))
        return self.fold_fields(e) if e is not None else None

    def record_fields(self, call):
        """field names (in order) and class defaults when `call` constructs a typing.NamedTuple class of the package, else None"""
        if not isinstance(call, ast.Call) or any(isinstance(a, ast.Starred) for a in call.args) or any(k.arg is None for k in call.keywords):
            return None
        q = self.m.resolve(self.fi.module, call.func)
        c = self.m.classes.get(q) if q else None
        if c is None or not any(b in ('typing.NamedTuple', 'NamedTuple') or b.endswith('.NamedTuple') for b in c.bases) or c.methods.get('__new__'):
            return None
        names = [st.target.id for st in c.node.body if isinstance(st, ast.AnnAssign) and isinstance(st.target, ast.Name)]
        defaults = {st.target.id: st.value for st in c.node.body if isinstance(st, ast.AnnAssign) and isinstance(st.target, ast.Name) and st.value is not None}
        return names, defaults

    def record_values(self, call):
        """the field values of a NamedTuple construction, in field order (None when not evaluable)"""
        rf = self.record_fields(call)
        if rf is None:
            return None
        names, defaults = rf
        vals = dict(zip(names, call.args))
        if len(call.args) > len(names):
            return None
        for k in call.keywords:
            if k.arg not in names or k.arg in vals:
                return None
            vals[k.arg] = k.value
        for n in names:
            if n not in vals:
                if n not in defaults:
                    return None
                vals[n] = defaults[n]
        return names, [vals[n] for n in names]

    def fold_fields(self, e):
        """`Record(a, b).field` -> the argument bound to that field; `(a, b)[0]` -> a  (after substitution of a table row)"""
        ex = self

        class F(ast.NodeTransformer):
            def visit_Attribute(s2, node):
                s2.generic_visit(node)
                if isinstance(node.value, ast.Call):
                    rv = ex.record_values(node.value)
                    if rv is not None and node.attr in rv[0]:
                        return copy.deepcopy(rv[1][rv[0].index(node.attr)])
                return node

            def visit_Subscript(s2, node):
                s2.generic_visit(node)
                i = node.slice
                if isinstance(i, ast.Constant) and type(i.value) is int:
                    elts = node.value.elts if isinstance(node.value, (ast.Tuple, ast.List)) else None
                    if elts is None and isinstance(node.value, ast.Call):
                        rv = ex.record_values(node.value)
                        elts = rv[1] if rv is not None else None
                    if elts is not None and not any(isinstance(x, ast.Starred) for x in elts) and -len(elts) <= i.value < len(elts):
                        return copy.deepcopy(elts[i.value])
                return node
        if not any(isinstance(n, (ast.Attribute, ast.Subscript)) and isinstance(getattr(n, 'value', None), (ast.Call, ast.Tuple, ast.List)) for n in ast.walk(e)):
            return e
        return fold_consts(F().visit(e))

    def bind_row(self, target, value, env, s):
        """bind a (possibly nested) loop target to a table row: tuples / lists element-wise, NamedTuple constructions field-wise"""
        if isinstance(target, ast.Name):
            env[target.id] = value
            return
        if isinstance(target, (ast.Tuple, ast.List)) and not any(isinstance(t, ast.Starred) for t in target.elts):
            elts = value.elts if isinstance(value, (ast.Tuple, ast.List)) else None
            if elts is None and isinstance(value, ast.Call):
                rv = self.record_values(value)
                elts = rv[1] if rv is not None else None
            if elts is not None and len(elts) == len(target.elts) and not any(isinstance(x, ast.Starred) for x in elts):
                for t, x in zip(target.elts, elts):
                    self.bind_row(t, x, env, s)
                return
        self.und(f'`for {u(s.target)} in {u(s.iter)[:40]}`: row `{u(value)[:40]}` cannot be unpacked statically')

    def dict_rows(self, s, it):
        """rows of `for ... in <dict display>.items() / .values() / .keys()` (or the dict itself, or dict(<literal pairs>)): a dict keeps
        one entry per distinct key, so the table equals its list of entries only if the keys are provably pairwise distinct.
        Returns the rows (after recording a violation when two keys can coincide), or None when `it` is not such a table."""
        view = 'keys'
        d = it
        if isinstance(it, ast.Call) and isinstance(it.func, ast.Attribute) and it.func.attr in ('items', 'values', 'keys') and not it.args and not it.keywords:
            view, d = it.func.attr, it.func.value
        pairs = None
        if isinstance(d, ast.Dict):
            if any(k is None for k in d.keys):
                self.und(f'`{u(s.iter)[:40]}`: a dict display with ** unpacking as the table of searches')
            pairs = list(zip(d.keys, d.values))
        elif isinstance(d, ast.Call) and isinstance(d.func, ast.Name) and d.func.id == 'dict' and self.m.resolve(self.fi.module, d.func) in (None, 'dict', 'builtins.dict'):
            if not d.args and d.keywords and all(k.arg is not None for k in d.keywords):
                pairs = [(ast.Constant(value=k.arg), k.value) for k in d.keywords]
            elif len(d.args) == 1 and not d.keywords and isinstance(d.args[0], ast.Dict) and all(k is not None for k in d.args[0].keys):
                pairs = list(zip(d.args[0].keys, d.args[0].values))
            elif len(d.args) == 1 and not d.keywords and isinstance(d.args[0], (ast.Tuple, ast.List)) \
                    and all(isinstance(e, (ast.Tuple, ast.List)) and len(e.elts) == 2 for e in d.args[0].elts):
                pairs = [(e.elts[0], e.elts[1]) for e in d.args[0].elts]
        if pairs is None:
            return None
        spec = self.spec

        def strand_of(e):
            if u(e) == f'{spec}.prefix':
                return 'forward'
            if isinstance(e, ast.Call) and self.m.resolve_call(self.fi, e) in ('gambit._cython.kmers.revcomp', 'gambit.seq.revcomp') \
                    and [u(a) for a in e.args] == [f'{spec}.prefix'] and not e.keywords:
                return 'reverse'
            return None
        clashes, unknown = [], []
        for i in range(len(pairs)):
            for j in range(i + 1, len(pairs)):
                a, b = pairs[i][0], pairs[j][0]
                if isinstance(a, ast.Constant) and isinstance(b, ast.Constant):
                    if a.value == b.value:
                        clashes.append(f'keys {u(a)} and {u(b)} are equal: the first entry is always overwritten')
                elif u(a) == u(b):
                    clashes.append(f'key {u(a)} occurs twice: the first entry is always overwritten')
                elif {strand_of(a), strand_of(b)} == {'forward', 'reverse'}:
                    clashes.append('the per-strand table is keyed by the search string: for a prefix equal to its reverse complement the forward entry is '
                                   'overwritten and the forward strand is never searched')
                else:
                    unknown.append(f'{u(a)} / {u(b)}')
        if clashes:
            self.rep.add('K1', self.fi.site(s), 'the entries of the table of searches are all executed (the keys of a dict of searches are distinct for every k-mer spec)', False,
                         expected='distinct constant keys (False / True, names), or a list of rows', found=clashes[0], stmt='search table keys')
        elif unknown:
            self.und(f'`{u(s.iter)[:40]}`: cannot show that the dict keys {unknown[0]} are always distinct (entries with equal keys overwrite each other)')
        else:
            self.rep.add('K1', self.fi.site(s), 'the entries of the table of searches are all executed (the keys of a dict of searches are distinct for every k-mer spec)', True,
                         expected='distinct keys', found=[u(k) for k, _v in pairs], stmt='search table keys')
        if view == 'items':
            return [ast.Tuple(elts=[k, v], ctx=ast.Load()) for k, v in pairs]
        return [v for _k, v in pairs] if view == 'values' else [k for k, _v in pairs]

    def is_search(self, node):
        return _has(node, lambda n: _is_find(n) or isinstance(n, (ast.Yield, ast.YieldFrom, ast.Return)))

    def opaque(self, s, env):
        """A compound statement that neither searches nor produces matches: what it binds is unknown afterwards."""
        for st in stmts_in([s]):
            for t in assigned_targets(st):
                for n in ast.walk(t):
                    if isinstance(n, ast.Name):
                        self.nopaque += 1
                        env[n.id] = ast.Name(id=f'{n.id}@{self.nopaque}', ctx=ast.Load())

    def package_generator(self, call):
        """FuncInfo of the generator function of the package that `call` calls (plain positional parameters), else None"""
        if not isinstance(call, ast.Call) or call.keywords or any(isinstance(a, ast.Starred) for a in call.args):
            return None
        tgt = self.m.resolve_call(self.fi, call)
        if tgt is None or not self.m.has_func(tgt):
            return None
        g = self.m.func(tgt)
        a = g.node.args
        if not isinstance(g.node, ast.FunctionDef) or g.node.decorator_list or a.vararg or a.kwarg or a.kwonlyargs or a.posonlyargs or g.cls is not None \
                or g.node is self.fn or not any(isinstance(n, ast.Yield) for n in ast.walk(g.node)) or any(isinstance(n, ast.YieldFrom) for n in ast.walk(g.node)):
            return None
        np_, nd = len(a.args), len(a.defaults)
        if not (np_ - nd <= len(call.args) <= np_):
            return None
        return g

    def run_generator(self, s, g, call, env):
        """`for <target> in g(args): BODY` executed as g's body with every `yield e` meaning `<target> = e; BODY` and g's `return`
        ending the loop - whatever control flow g uses (the rule then sees the find() loop of g with BODY's yield inside it)."""
        if len(self.gen_stack) >= 2:
            self.und(f'generators nested more than two deep at `{u(call)[:50]}`')
        a = g.node.args
        ps = [x.arg for x in a.args]
        vals = list(call.args) + [copy.deepcopy(d) for d in a.defaults[len(a.defaults) - (len(ps) - len(call.args)):]] if len(call.args) < len(ps) else list(call.args)
        genv = dict(zip(ps, vals))
        self.rep.functions.add(g.qualname)
        ctx = dict(stmt=s, env=env, yields={id(n) for n in ast.walk(g.node) if isinstance(n, ast.Yield)},
                   returns={id(n) for n in ast.walk(g.node) if isinstance(n, ast.Return)}, g=g)
        self.gen_stack.append(ctx)
        try:
            sig = self.block(g.node.body, genv)
        finally:
            self.gen_stack.pop()
        return None if sig in (None, 'gen-stop') else sig

    def gen_yield(self, ctx, value, genv):
        """a yield of the generator being run: bind the loop target in the caller and run the loop body there"""
        s, env = ctx['stmt'], ctx['env']
        val = self.sub(value, genv) if value is not None else ast.Constant(value=None)
        if isinstance(s.target, ast.Name):
            env[s.target.id] = val
        elif isinstance(s.target, (ast.Tuple, ast.List)) and all(isinstance(e, ast.Name) for e in s.target.elts) and isinstance(val, (ast.Tuple, ast.List)) \
                and len(val.elts) == len(s.target.elts):
            for e, x in zip(s.target.elts, val.elts):
                env[e.id] = x
        else:
            self.und(f'`for {u(s.target)} in {u(s.iter)[:40]}`: the yielded value `{u(val)[:40]}` cannot be unpacked statically')
        self.gen_stack.pop()            # the body belongs to the caller
        try:
            sig = self.block(s.body, env)
        finally:
            self.gen_stack.append(ctx)
        if sig == 'break':
            return 'gen-stop'           # leaving the for loop abandons the generator
        return None if sig == 'continue' else sig

    def do_find(self, call, env, stmt):
        if not isinstance(call.func.value, ast.Name) and call.args and isinstance(call.args[0], ast.Name) and u(self.sub(call.func.value, env)).endswith('.prefix'):
            self.rep.add('K1', self.fi.site(call), 'find() is called as haystack.find(needle, start, end)', False, expected='haystack.find(<prefix>, start, end)',
                         found=f'{u(call)}: the sequence is searched for inside the prefix', stmt='find() argument order')
        self.rep.require(isinstance(call.func.value, ast.Name), 'find_kmers: find() receiver is not a local')
        self.rep.require(1 <= len(call.args) <= 3 and not call.keywords and not any(isinstance(a, ast.Starred) for a in call.args),
                         'find_kmers: unexpected find() arguments')
        self.nr += 1
        r = f'__r{self.nr}'
        a = [self.sub(x, env) for x in call.args] + [None, None]
        for x in a:
            if x is not None and _has(x, lambda n: isinstance(n, ast.Attribute) and isinstance(n.value, ast.Call) and self.record_values(n.value) is None
                                      and not (isinstance(n.value.func, ast.Name) and n.value.func.id in ('len',))):
                self.und(f'find() argument `{u(x)[:50]}` reads a field of an object that is not evaluated (only tuples and NamedTuple rows are)')
        recv = self.sub(call.func.value, env)
        self.rep.require(isinstance(recv, ast.Name), f'find_kmers: find() receiver `{u(recv)[:40]}` is not a local of find_kmers')
        anchor = self.gen_stack[0]['stmt'] if self.gen_stack else stmt
        self.events.append(dict(k='F', node=call, stmt=stmt, anchor=anchor, hay=recv.id, needle=a[0], start=a[1], end=a[2], r=r))
        self.status[r] = 'unknown'
        return ast.Name(id=r, ctx=ast.Load())

    def test_of(self, test, env, stmt):
        """Substituted test; a find() bound by a walrus inside the test is executed first."""
        named = [(i, n) for i, n in enumerate(walk_ordered(test)) if isinstance(n, ast.NamedExpr) and _is_find(n.value)]
        if len(named) > 1:
            self.und(f'several find() calls inside one test: `{u(test)}`')
        if named:
            i, n = named[0]
            env[n.target.id] = self.do_find(n.value, env, stmt)
            t2 = copy.deepcopy(test)
            n2 = next(x for j, x in enumerate(walk_ordered(t2)) if j == i)
            name = ast.Name(id=n.target.id, ctx=ast.Load())
            test = name if i == 0 else _Repl(n2, name).visit(t2)
        if _has(test, _is_find):
            self.und(f'the find() result is tested without being bound to a local: `{u(test)}`')
        return self.sub(test, env)

    def classify(self, test, r):
        """'hit' when test <=> r >= 0, 'miss' when test <=> r == -1 (given that find returns -1 or an index >= 0),
        ('wrong', why) for another comparison of r with a constant, 'other' otherwise."""
        env = {r: sym('loc')}

        def key(n):
            a = Aff.try_of(n, env)
            return str(a) if a is not None else u(n)
        a = atoms(test, True, key)
        if a is None or len(a) != 1:
            return 'other'
        (op, x, y), = a

        def num(t):
            try:
                return int(t)
            except (TypeError, ValueError):
                return None
        if op in ('lt', 'le') and x == 'loc' and num(y) is not None:      # loc < c / loc <= c
            c = num(y) if op == 'lt' else num(y) + 1                       # loc < c
            return 'miss' if c == 0 else ('wrong', f'`{u(test)}` is true for hits below {c}' if c > 0 else f'`{u(test)}` is never true for a find() result')
        if op in ('lt', 'le') and y == 'loc' and num(x) is not None:      # c < loc / c <= loc
            c = num(x) if op == 'le' else num(x) + 1                       # c <= loc
            return 'hit' if c == 0 else ('wrong', f'`{u(test)}` is false for hits below {c}' if c > 0 else f'`{u(test)}` is also true for the miss value -1')
        if op in ('eq', 'ne') and 'loc' in (x, y):
            c = num(y if x == 'loc' else x)
            if c is not None:
                if c == -1:
                    return 'miss' if op == 'eq' else 'hit'
                return ('wrong', f'`{u(test)}` compares the find() result with {c}, the miss value is -1')
        return 'other'

    def generator_rows(self, call):
        """`g(args)` where g is a generator of the package whose body is a straight line of `yield <row>` statements (and plain
        assignments): the rows it produces, in order, with the parameters replaced by the arguments - a lazily produced literal table.
        None when the call is not of that kind."""
        if not isinstance(call, ast.Call) or call.keywords or any(isinstance(a, ast.Starred) for a in call.args):
            return None
        tgt = self.m.resolve_call(self.fi, call)
        if tgt is None or not self.m.has_func(tgt):
            return None
        g = self.m.func(tgt)
        ps, a = g.params(), g.node.args
        if not isinstance(g.node, ast.FunctionDef) or g.node.decorator_list or len(ps) != len(call.args) or a.vararg or a.kwarg or a.kwonlyargs or g.cls is not None:
            return None
        genv = dict(zip(ps, call.args))
        rows = []
        for st in g.node.body:
            if isinstance(st, ast.Pass) or (isinstance(st, ast.Expr) and isinstance(st.value, ast.Constant)):
                continue
            if isinstance(st, ast.Expr) and isinstance(st.value, ast.Yield) and st.value.value is not None \
                    and not _has(st.value.value, lambda n: isinstance(n, (ast.Yield, ast.YieldFrom, ast.NamedExpr))):
                rows.append(fold_consts(subst(st.value.value, genv)))
            elif isinstance(st, ast.Assign) and len(st.targets) == 1 and isinstance(st.targets[0], ast.Name) \
                    and not _has(st.value, lambda n: isinstance(n, (ast.Yield, ast.YieldFrom, ast.NamedExpr))):
                genv[st.targets[0].id] = subst(st.value, genv)
            else:
                return None
        if not rows:
            return None
        self.rep.functions.add(g.qualname)
        # names inside the rows are the generator's globals: they must mean the same in find_kmers' module
        if g.module is not self.fi.module:
            for r in rows:
                for n in ast.walk(r):
                    if isinstance(n, ast.Name) and n.id not in ps and self.m.resolve(g.module, n) != self.m.resolve(self.fi.module, n):
                        return None
        return rows

    def conditional_yield(self, s):
        if isinstance(s, ast.If) and (_loop_ctrl([s]) or _has(s, lambda n: isinstance(n, ast.Return))) and any(isinstance(x, _LoopMark) for x in self.rest):
            self.rep.add('K1', self.fi.site(s), 'the search loop is left on the miss only (no other exit condition)', False,
                         expected='if loc < 0: break', found=f'loop exit under the condition `{u(s.test)}`', stmt=f'miss exit {u(s.test)}')
        if isinstance(s, ast.If) and _has(ast.Module(body=s.body + s.orelse, type_ignores=[]), lambda n: isinstance(n, (ast.Yield, ast.YieldFrom))):
            self.rep.add('K1', self.fi.site(s), 'yield and restart are unconditional successors of the hit test in the loop body', False,
                         expected='every hit is yielded', found=f'a match is yielded only under the further condition `{u(s.test)}`', stmt=f'restart placement {u(s.test)}')

    # ---- execution
    def block(self, stmts, env):
        for i, s in enumerate(stmts):
            self.rest.append(stmts[i + 1:])
            try:
                sig = self.stmt(s, env)
            finally:
                self.rest.pop()
            if sig:
                return sig
        return None

    def miss_path(self, branch, env, r):
        """Run the path on which r is the miss value up to the point where it leaves the loop; events are collected apart."""
        saved = (self.events, self.nr, dict(self.status), self.sig_stmt)
        self.events = []
        self.status[r] = 'miss'
        self.sig_stmt = None
        self.in_miss += 1
        env = dict(env)
        try:
            sig = self.block(branch, env)
            if sig is None:
                for rest in reversed(list(self.rest)):
                    if isinstance(rest, _LoopMark):
                        sig = 'loop-end'
                        break
                    sig = self.block(list(rest), env)
                    if sig:
                        break
                else:
                    sig = 'fall'
        finally:
            self.in_miss -= 1
        ev, st = self.events, self.sig_stmt
        self.events, self.nr, self.status, self.sig_stmt = saved[0], saved[1], saved[2], saved[3]
        return sig, ev, st

    def cond(self, s, test, env, body, orelse, natural_exit=False):
        """A test on a find() result.  Returns (handled, signal)."""
        rs = _RSYM.findall(u(test))
        if not rs:
            return False, None
        r = f'__r{max(int(x) for x in rs)}'
        cls = self.classify(test, r)
        if isinstance(cls, tuple):
            self.rep.add('K1', self.fi.site(s), 'the test on the find() result separates exactly the miss (-1) from the hits (>= 0)', False,
                         expected='r < 0 / r == -1 / r >= 0 / r != -1', found=cls[1], stmt=f'hit test {u(s.test)}')
            self.und(f'cannot follow the search past the test `{u(s.test)}`')
        if cls == 'other':
            self.conditional_yield(s)
            self.und(f'the condition `{u(s.test)}` on a find() result is outside the evaluated vocabulary (comparison with a constant)')
        st = self.status.get(r)
        if st in ('hit', 'miss'):
            return True, self.block(body if (cls == 'hit') == (st == 'hit') else orelse, env)
        hit_b, miss_b = (body, orelse) if cls == 'hit' else (orelse, body)
        if natural_exit:
            msig, mev, mst = 'exit', [], None
        else:
            msig, mev, mst = self.miss_path(miss_b, env, r)
        self.events.append(dict(k='T', r=r, node=s, test=test, miss_sig=msig, miss_events=mev, miss_stmt=mst))
        self.status[r] = 'hit'
        return True, ('enter' if natural_exit else self.block(hit_b, env))

    def stmt(self, s, env):
        if isinstance(s, ast.Pass) or (isinstance(s, ast.Expr) and isinstance(s.value, ast.Constant)):
            return None
        if isinstance(s, ast.Expr):
            v = s.value
            if isinstance(v, ast.Yield) and self.gen_stack and id(v) in self.gen_stack[-1]['yields']:
                return self.gen_yield(self.gen_stack[-1], v.value, env)
            if isinstance(v, ast.Yield):
                if v.value is not None and _has(v.value, lambda n: _is_find(n) or isinstance(n, (ast.Yield, ast.YieldFrom))):
                    self.und(f'`{u(s)}`: find() / yield inside a yielded expression')
                self.events.append(dict(k='Y', node=v, stmt=s, value=self.sub(v.value, env)))
                return None
            if self.is_search(v):
                self.und(f'`{u(s)[:60]}`: the result of find() / a nested yield is used in an expression statement')
            return None
        if isinstance(s, (ast.Assign, ast.AnnAssign)):
            if s.value is None:
                return None
            targets = s.targets if isinstance(s, ast.Assign) else [s.target]
            if _is_find(s.value):
                self.rep.require(len(targets) == 1 and isinstance(targets[0], ast.Name), 'find_kmers: find() result not assigned to a local')
                env[targets[0].id] = self.do_find(s.value, env, s)
                return None
            if self.is_search(s.value):
                self.und(f'`{u(s)[:60]}`: the find() result is used inside an expression')
            val = self.sub(s.value, env)
            for t in targets:
                if isinstance(t, ast.Name):
                    env[t.id] = val
                elif isinstance(t, (ast.Tuple, ast.List)) and all(isinstance(e, ast.Name) for e in t.elts) and isinstance(val, (ast.Tuple, ast.List)) \
                        and len(val.elts) == len(t.elts):
                    for e, x in zip(t.elts, val.elts):
                        env[e.id] = x
                else:
                    self.opaque(s, env)
            return None
        if isinstance(s, ast.AugAssign):
            if self.is_search(s.value):
                self.und(f'`{u(s)[:60]}`: the find() result is used inside an expression')
            if isinstance(s.target, ast.Name):
                env[s.target.id] = ast.BinOp(left=self.sub(ast.Name(id=s.target.id, ctx=ast.Load()), env), op=s.op, right=self.sub(s.value, env))
            return None
        if isinstance(s, ast.Return) and self.gen_stack and id(s) in self.gen_stack[-1]['returns']:
            self.sig_stmt = s
            return 'gen-stop'               # the generator is exhausted: the for loop over it ends
        if isinstance(s, ast.Return) and not self.in_miss and not any(isinstance(x, _LoopMark) for x in self.rest):
            self.top_returns.append(s)      # reported as an early return; the rest is still evaluated
            return None
        if isinstance(s, (ast.Break, ast.Continue, ast.Return)):
            self.sig_stmt = s
            return {ast.Break: 'break', ast.Continue: 'continue', ast.Return: 'return'}[type(s)]
        if isinstance(s, ast.If):
            test = self.test_of(s.test, env, s)
            handled, sig = self.cond(s, test, env, s.body, s.orelse)
            if handled:
                return sig
            in_loop = any(isinstance(x, _LoopMark) for x in self.rest)
            if in_loop:
                self.conditional_yield(s)
            if not self.is_search(s) and not (in_loop and _loop_ctrl([s])):
                self.opaque(s, env)
                return None
            rets = [x for x in stmts_in(s.body) if isinstance(x, ast.Return)]
            if not s.orelse and always_exits(s.body) and isinstance(s.body[-1], ast.Return) and not _has(ast.Module(body=s.body, type_ignores=[]), lambda n: _is_find(n) or isinstance(n, (ast.Yield, ast.YieldFrom))) \
                    and not _loop_ctrl(s.body) and not in_loop:
                self.early.append((s, test, rets))
                return None
            self.und(f'search statements / loop exits under the condition `{u(s.test)}` (not a test of the find() result) are outside the evaluated vocabulary')
        if isinstance(s, ast.While):
            return self.loop(s, env)
        if isinstance(s, ast.For) and self.is_search(s):
            # a loop over a literal table (one row per search) is its rows executed one after the other
            it = self.sub(s.iter, env)
            ctrl = _loop_ctrl(s.body)
            rows = self.generator_rows(it)
            if rows is None and not s.orelse and not ctrl:
                rows = self.dict_rows(s, it)
            if rows is not None:
                it = ast.Tuple(elts=rows, ctx=ast.Load())
            elif not s.orelse and self.package_generator(it) is not None:
                return self.run_generator(s, self.package_generator(it), it, env)
            if isinstance(it, (ast.Tuple, ast.List)) and not s.orelse and not ctrl and not any(isinstance(e, ast.Starred) for e in it.elts):
                bound = {n.id for n in ast.walk(s.target) if isinstance(n, ast.Name)}
                if any(isinstance(n, ast.Name) and n.id in bound and isinstance(n.ctx, ast.Store) for st in stmts_in(s.body) for t in assigned_targets(st) for n in ast.walk(t)):
                    self.und(f'`for {u(s.target)} in ...`: the row variables are reassigned inside the loop')
                for row in it.elts:
                    self.bind_row(s.target, row, env, s)
                    sig = self.block(s.body, env)
                    if sig:
                        return sig
                return None
        if self.is_search(s) or isinstance(s, ast.Raise):
            self.und(f'`{u(s).splitlines()[0][:60]}`: matches produced inside this statement are not evaluated (only find() loops are)')
        self.opaque(s, env)
        return None

    def loop(self, s, env):
        if not self.is_search(s):
            self.opaque(s, env)
            return None
        self.rep.require(not s.orelse, 'find_kmers: while/else in a search loop')
        t0 = fold_consts(copy.deepcopy(s.test))
        if isinstance(t0, ast.Constant) and not t0.value:
            self.rep.add('K1', self.fi.site(s), 'the search loop runs (its condition is not constantly false)', False, expected='while True / while <hit>',
                         found=f'`while {u(s.test)}`: the loop body, and with it the search, never runs', stmt=f'loop test {u(s.test)}')
            return None
        seg = dict(loop=s, abort=None, periodic=None, test_const=isinstance(t0, ast.Constant) and bool(t0.value), envs=[])
        bound = sorted({n.id for st in stmts_in(s.body) for t in assigned_targets(st) for n in ast.walk(t) if isinstance(n, ast.Name)}
                       | {n.target.id for n in ast.walk(s) if isinstance(n, ast.NamedExpr)})
        for it in (1, 2):
            if not seg['test_const']:
                test = self.test_of(s.test, env, s)
                handled, sig = self.cond(s, test, env, [], [], natural_exit=True)
                if not handled:
                    self.und(f'the loop condition `{u(s.test)}` is not a test of the find() result: the loop has another exit condition')
                if sig != 'enter':
                    self.und(f'the loop condition `{u(s.test)}` does not enter the loop on a hit')
            self.rest.append(_LoopMark())
            try:
                sig = self.block(s.body, env)
            finally:
                self.rest.pop()
            if sig in ('break', 'return', 'gen-stop'):
                seg['abort'] = (sig, self.sig_stmt)
                break
            seg['envs'].append({k: u(env[k]) for k in bound if k in env})
        if len(seg['envs']) == 2:
            e1, e2 = seg['envs']
            # only state that flows into a find() argument, a yielded match or a test matters (a counter nobody reads does not)
            rel = set()
            for n in ast.walk(s):
                if _is_find(n) or isinstance(n, ast.Yield):
                    rel |= names_in(n)
                elif isinstance(n, (ast.If, ast.While, ast.IfExp)):
                    rel |= names_in(n.test)
            grew = True
            while grew:
                grew = False
                for st in stmts_in(s.body):
                    if isinstance(st, (ast.Assign, ast.AugAssign, ast.AnnAssign)) and st.value is not None \
                            and any(isinstance(x, ast.Name) and x.id in rel for t in assigned_targets(st) for x in ast.walk(t)) and not names_in(st.value) <= rel:
                        rel |= names_in(st.value)
                        grew = True
            e1, e2 = ({k: v for k, v in e.items() if k in rel} for e in (e1, e2))
            shifted = {k: _RSYM.sub(lambda mo: f'__r{int(mo.group(1)) - 1}', v) for k, v in e2.items()}
            seg['periodic'] = sorted(k for k in set(e1) | set(e2) if e1.get(k) != shifted.get(k))
        seg['events'] = self.events[self.consumed:]
        self.consumed = len(self.events)
        self.segments.append(seg)
        n = len(self.segments)
        for k in bound:
            env[k] = ast.Name(id=f'{k}@after_loop{n}', ctx=ast.Load())
        for r in self.status:
            self.status[r] = 'hit' if self.status[r] == 'hit' else 'miss'
        return None

    def run(self):
        self.block(self.fn.body, {})
        self.tail = self.events[self.consumed:]


def analyse_search_loops(ctx):
    rep, m = ctx.rep, ctx.model
    fi = m.func('gambit.kmers.find_kmers')
    rep.functions.add(fi.qualname)
    fn = fi.node
    params = fi.params()
    rep.require(len(params) == 2, 'find_kmers: expected (kmerspec, seq)')
    spec, seqp = params
    ex = SearchExec(ctx, fi, spec, seqp)
    ex.run()
    harmless = [r for r in ex.top_returns if any(r is x for x in fn.body) and not any(ex.is_search(x) for x in fn.body[[i for i, x in enumerate(fn.body) if x is r][0] + 1:])]
    for r in ex.top_returns:
        if not any(r is x for x in harmless):     # a bare return after both searches ends the generator as falling off the end does
            rep.add('K1', fi.site(r), 'no early return before both searches ran', False, expected='none', found=u(r), stmt='early return')
    rep.floor('K1', 'search loops in find_kmers', len(ex.segments), 2)
    env = spec_env(spec)
    result = {}
    hay_names = set()
    accounted_yields, accounted_returns = set(), set()
    loc = sym('loc')

    def resolve_len(e):
        """len(revcomp(x)) == len(x) (the complement of a sequence has its length)."""
        class R(ast.NodeTransformer):
            def visit_Call(s2, node):
                s2.generic_visit(node)
                if isinstance(node.func, ast.Name) and node.func.id == 'len' and len(node.args) == 1 and isinstance(node.args[0], ast.Call) \
                        and m.resolve_call(fi, node.args[0]) in ('gambit._cython.kmers.revcomp', 'gambit.seq.revcomp') and len(node.args[0].args) == 1:
                    return ast.Call(func=node.func, args=[node.args[0].args[0]], keywords=[])
                return node
        return R().visit(copy.deepcopy(e)) if e is not None else None

    def aff(e, lenv):
        return Aff.try_of(resolve_len(e), lenv) if e is not None else None

    for si, seg in enumerate(ex.segments):
        loop = seg['loop']
        evs = seg['events']
        finds = [e for e in evs if e['k'] == 'F']
        rep.require(finds, 'find_kmers: a loop that yields without a find() call')
        f1 = finds[0]
        rep.call_sites += len({id(e['node']) for e in finds})
        needle = f1['needle']

        def needle_kind(e):
            if e is None:
                return None
            if u(e) == f'{spec}.prefix':
                return 'forward'
            if isinstance(e, ast.Call) and m.resolve_call(fi, e) in ('gambit._cython.kmers.revcomp', 'gambit.seq.revcomp') \
                    and [u(a) for a in e.args] == [f'{spec}.prefix'] and not e.keywords:
                return 'reverse'
            return None
        kind = needle_kind(needle)
        if kind is None:
            # the prefix sits in another argument position of find() / the haystack is the needle: a located deviation
            misplaced = [nm for nm, e in (('start', f1['start']), ('end', f1['end'])) if needle_kind(e)]
            recv_is_prefix = any(needle_kind(def_value(d)) for d in assigns_to(fn, f1['hay']) if def_value(d) is not None)
            if misplaced or recv_is_prefix or u(needle) in (f1['hay'], seqp):
                rep.add('K1', fi.site(f1['node']), 'find() is called as haystack.find(needle, start, end)', False, expected='haystack.find(<prefix>, start, end)',
                        found=u(f1['node']) + (f': the prefix is passed as {misplaced[0]}' if misplaced else ': the prefix is the object searched in' if recv_is_prefix else ': the sequence is passed as needle'), stmt='find() argument order')
        rep.require(kind is not None, f'find_kmers: cannot classify the needle {u(needle)}')
        rep.require(kind not in result, f'find_kmers: two {kind} search loops')
        hay = f1['hay']
        hay_names.add(hay)
        is_last = si == len(ex.segments) - 1 and not ex.tail

        def lenv_for(r, hay=hay):
            e = dict(env)
            e[r] = loc
            e[f'len({hay})'] = sym('LEN')
            return e
        # ---- the trace: F T Y F T Y [F]
        state, cur, prev = 'need_find', None, None
        shape_bad, unguarded, unreported, cycles = [], [], [], 0
        tests, yields = [], []
        for e in evs:
            if e['k'] == 'F':
                if state == 'need_test':
                    shape_bad.append(f'the result of `{u(cur["node"])}` is never tested')
                elif state == 'need_yield':
                    unreported.append(f'no match is yielded for the hit of `{u(cur["node"])}`')
                prev, cur, state = cur, e, 'need_test'
            elif e['k'] == 'T':
                if cur is not None and e['r'] == cur['r'] and state == 'need_test':
                    state = 'need_yield'
                    tests.append(e)
                else:
                    shape_bad.append(f'test `{u(e["test"])}` does not test the latest find() result')
            elif e['k'] == 'Y':
                if state == 'need_yield':
                    state = 'yielded'
                    cycles += 1
                    yields.append((e, cur))
                elif state == 'need_test' or cur is None:
                    unguarded.append(e)
                    yields.append((e, cur))
                    state = 'yielded'
                else:
                    rep.require(False, f'find_kmers ({kind}): several yields for one find() hit')
        if seg['abort'] is not None:
            sig, st = seg['abort']
            rep.add('K1', fi.site(st), f'{kind}: the search goes on after a hit (every occurrence is enumerated)', False, expected='next find() after the yield',
                    found=f'`{sig}` on the path of a hit', stmt=f'{kind}: restart placement')
        rep.require(yields, f'find_kmers ({kind}): the search loop yields nothing on the path of a hit')
        # START
        want_init = const(0) if kind == 'forward' else K
        init = aff(f1['start'], lenv_for(f1['r'])) if f1['start'] is not None else const(0)
        rep.add('K1', fi.site(f1['node']), f'{kind} search starts at {want_init}', init == want_init,
                expected=want_init, found=init if init is not None else u(f1['start']), stmt=f'{kind}: initial start')
        later = finds[1:]
        if seg['abort'] is None:
            rep.require(later, f'find_kmers ({kind}): no find() call follows a hit')
        backs = []
        for pf, nf in zip(finds, later):
            b = aff(nf['start'], lenv_for(pf['r'])) if nf['start'] is not None else None
            backs.append(b if b is not None else u(nf['start']))
        if later:
            rep.add('K1', fi.site(later[0]['node']), f'{kind} search restarts one past the last hit (overlapping occurrences are enumerated)',
                    all(b == loc.plus(1) for b in backs), expected='loc + 1', found=backs[0] if len({str(b) for b in backs}) == 1 else backs, stmt=f'{kind}: restart')
        if seg['abort'] is None:
            ok_shape = not shape_bad and not unreported and cycles >= 2 and state in ('yielded', 'need_test')
            rep.add('K1', fi.site(later[0]['node'] if later else loop), f'{kind}: yield and restart are unconditional successors of the hit test in the loop body', ok_shape,
                    expected='find, hit test, yield, next find - for every hit', found=(shape_bad + unreported) or ('ok' if ok_shape else f'{cycles} complete find/test/yield cycles in two iterations'),
                    stmt=f'{kind}: restart placement')
            rep.require(seg['periodic'] is not None, f'find_kmers ({kind}): could not unroll the loop twice')
            rep.require(not seg['periodic'] or not ok_shape, f'find_kmers ({kind}): loop-carried state {seg["periodic"]} is not a function of the last hit only '
                        '(the second iteration does not repeat): outside the evaluated vocabulary')
        # END
        ends = []
        for f in finds:
            ea = None if f['end'] is None or is_none(f['end']) else aff(f['end'], lenv_for(f['r']))
            ends.append((f['end'], ea))
        if kind == 'forward':
            okend = all(ea == K.scale(-1) for (_e, ea) in ends)
        else:
            okend = all(e is None or is_none(e) or ea == sym('LEN') for (e, ea) in ends)
        end = ends[0][1]
        bad_end = next(((e, ea) for (e, ea) in ends if (ea != K.scale(-1) if kind == 'forward' else not (e is None or is_none(e) or ea == sym('LEN')))), ends[0])
        rep.add('K1', fi.site(f1['node']), 'forward window leaves exactly k bases after the prefix: end == -k' if kind == 'forward' else 'reverse window extends to the end of the sequence',
                okend, expected='-K' if kind == 'forward' else 'no end / len', found=bad_end[1] if bad_end[1] is not None else u(bad_end[0]), stmt=f'{kind}: window end')
        if kind == 'forward' and not okend:
            end = bad_end[1]
        same = len({(f['hay'], u(f['needle'])) for f in finds}) == 1
        rep.add('K1', fi.site(f1['node']), f'{kind}: every find() of the search looks for the same needle in the same haystack', same, expected=(hay, u(needle)),
                found=sorted({(f['hay'], u(f['needle'])) for f in finds}), stmt=f'{kind}: search operands')
        # hit guard
        y0 = yields[0][0]
        rep.add('K1', fi.site(y0['stmt']), f'{kind}: a match is yielded only for a hit (loc >= 0)', not unguarded and not any('does not test' in x for x in shape_bad),
                expected='loc >= 0 on the path', found=[u(t['test']) for t in tests] if not unguarded else 'yield before the result of find() is tested', stmt=f'{kind}: hit guard')
        # miss exit
        bad_miss = []
        for t in tests:
            if t['miss_events']:
                bad_miss.append('the miss path yields / searches again')
            elif t['miss_sig'] == 'return':
                if is_last:
                    accounted_returns.add(id(t['miss_stmt']))
                else:
                    bad_miss.append('`return` on a miss (skips the other strand)')
                    accounted_returns.add(id(t['miss_stmt']))
            elif t['miss_sig'] not in ('break', 'exit', 'gen-stop'):
                bad_miss.append('no `break` on a miss: the loop goes on with the miss value')
        rep.add('K1', fi.site(loop), f'{kind}: a miss terminates the search', bool(tests) and not bad_miss, expected='if loc < 0: break',
                found=sorted(set(bad_miss)) or ('ok' if tests else 'no test of the find() result'), stmt=f'{kind}: miss exit')
        rep.add('K1', fi.site(loop), f'{kind}: the loop has no other exit condition', True, expected='while True / while <hit>', found=u(loop.test), stmt=f'{kind}: loop test')
        # yielded match
        poss, flags, fields_ok, found_fields = [], [], True, None
        call0 = None
        for (y, f) in yields:
            call = y['value']
            rep.require(isinstance(call, ast.Call), f'find_kmers ({kind}): expected `yield KmerMatch(...)`')
            tgt = m.resolve_call(fi, call)
            rep.require(tgt == 'gambit.kmers.KmerMatch', f'find_kmers ({kind}): yields {tgt}, not KmerMatch')
            names = ['kmerspec', 'seq', 'pos', 'reverse']
            args = {n: get_arg(call, i, n) for i, n in enumerate(names)}
            rep.require(all(a is not None and a is not Ellipsis for a in args.values()), 'find_kmers: KmerMatch arguments')
            call0 = call0 or y['node'].value
            pa = aff(args['pos'], lenv_for(f['r'])) if f is not None else None
            poss.append(pa if pa is not None else u(args['pos']))
            flags.append(args['reverse'])
            okf = u(args['kmerspec']) == spec and u(args['seq']) in (seqp, hay)
            fields_ok = fields_ok and okf
            found_fields = (u(args['kmerspec']), u(args['seq']))
            accounted_yields.add(id(y['node']))
        want_pos = loc if kind == 'forward' else loc.add(P).plus(-1)
        pos = poss[0] if isinstance(poss[0], Aff) else None
        rep.add('K1', fi.site(call0), f'{kind}: reported position', all(p == want_pos for p in poss), expected=want_pos,
                found=next((p for p in poss if p != want_pos), poss[0]), stmt=f'{kind}: pos')
        rep.add('K1', fi.site(call0), f'{kind}: strand flag', all(isinstance(rv, ast.Constant) and rv.value is (kind == 'reverse') for rv in flags),
                expected=str(kind == 'reverse'), found=u(flags[0]), stmt=f'{kind}: reverse flag')
        rep.add('K1', fi.site(call0), f'{kind}: the match carries the search parameters and the searched sequence', fields_ok, expected=(spec, seqp), found=found_fields,
                stmt=f'{kind}: match fields')
        result[kind] = dict(init=init, end=end, pos=pos, hay=hay, loop=loop, find=f1['node'], first_stmt=f1.get('anchor', f1['stmt']))
    rep.require(set(result) == {'forward', 'reverse'}, 'find_kmers: need one forward and one reverse search loop')
    all_yields = [n for n in ast.walk(fn) if isinstance(n, (ast.Yield, ast.YieldFrom))]
    stray = [n for n in all_yields if id(n) not in accounted_yields]
    rep.add('K1', fi.site(), 'matches are produced only by the two analysed search loops (no other yield)', not stray, expected='2 yields',
            found=[u(n) for n in stray] or len(all_yields), stmt='yield census')
    rep.add('K1', fi.site(), 'both strands are searched in the same haystack', len(hay_names) == 1, expected='one haystack', found=sorted(hay_names),
            stmt='haystack')
    # early returns: only when no occurrence with a full k-mer can exist (sequence shorter than prefix + k)
    lenv = dict(env)
    for h in hay_names | {seqp}:
        lenv[f'len({h})'] = sym('LEN')
    for (s, test, rets) in ex.early:
        ok, why = short_sequence_guard(test, lenv, hay_names | {seqp})
        for r in rets:
            accounted_returns.add(id(r))
        rep.add('K1', fi.site(s), 'an early return happens only when the sequence cannot hold the prefix plus a full k-mer (len < prefix_len + k)', ok,
                expected='len(haystack) < prefix_len + k, or a weaker bound', found=why, stmt=f'early return under {u(s.test)}')
    early = [s for s in stmts_in(fn.body) if isinstance(s, ast.Return) and id(s) not in accounted_returns and not any(s is x for x in ex.top_returns)]
    rep.add('K1', fi.site(early[0] if early else None), 'no early return before both searches ran', not early, expected='none', found=[u(e) for e in early], stmt='early return')
    analyse_case_folding(ctx, fi, result, spec, seqp)
    return result


def short_sequence_guard(test, lenv, hay_names):
    """Does `test` imply LEN <= K + P - 1 for every K >= 1, P >= 0 ?  -> (ok, description)"""
    LEN = sym('LEN')
    if isinstance(test, ast.UnaryOp) and isinstance(test.op, ast.Not) and isinstance(test.operand, ast.Name) and test.operand.id in hay_names:
        return True, 'empty sequence'
    if not (isinstance(test, ast.Compare) and len(test.ops) == 1):
        return False, f'`{u(test)}` is not a bound on the sequence length'
    l, r = Aff.try_of(test.left, lenv), Aff.try_of(test.comparators[0], lenv)
    if l is None or r is None:
        return False, f'`{u(test)}` is not an affine bound on the sequence length'
    op = type(test.ops[0])
    if op is ast.Lt:
        g = l.sub(r).plus(1)          # l < r   <=>  l - r + 1 <= 0
    elif op is ast.LtE:
        g = l.sub(r)
    elif op is ast.Gt:
        g = r.sub(l).plus(1)
    elif op is ast.GtE:
        g = r.sub(l)
    elif op is ast.Eq:
        g = l.sub(r) if l.terms.get('LEN', 0) > 0 else r.sub(l)     # equality implies <=
    else:
        return False, f'`{u(test)}` is not an upper bound on the sequence length'
    c = g.terms.get('LEN', 0)
    if c <= 0:
        return False, f'`{u(test)}` is not an upper bound on the sequence length'
    g = g.scale(1 / c)                 # LEN + rest <= 0   <=>   LEN <= -rest
    rest = g.sub(LEN)
    diff = K.add(P).plus(-1).add(rest)  # (K + P - 1) - (-rest) must be >= 0 for all K >= 1, P >= 0
    if set(diff.terms) - {'K', 'P'}:
        return False, f'bound {rest.scale(-1)} depends on something else than k and the prefix length'
    a, b = diff.terms.get('K', 0), diff.terms.get('P', 0)
    ok = a >= 0 and b >= 0 and a + diff.const >= 0
    return ok, f'returns when len <= {rest.scale(-1)}' + ('' if ok else ' - a sequence of that length can still hold prefix + k-mer')


# ------------------------------------------------------------------------------------------------ K6
def const_bytes(m, module, e, depth=0):
    """bytes value of a constant expression (literals, +, .lower() / .upper(), module-level names); None when not evaluable"""
    if depth > 6:
        return None
    if isinstance(e, ast.Constant):
        return e.value if isinstance(e.value, bytes) else None
    if isinstance(e, ast.BinOp) and isinstance(e.op, ast.Add):
        l, r = const_bytes(m, module, e.left, depth + 1), const_bytes(m, module, e.right, depth + 1)
        return l + r if l is not None and r is not None else None
    if isinstance(e, ast.Call) and isinstance(e.func, ast.Attribute) and e.func.attr in ('lower', 'upper') and not e.args and not e.keywords:
        v = const_bytes(m, module, e.func.value, depth + 1)
        return None if v is None else getattr(v, e.func.attr)()
    if isinstance(e, (ast.Name, ast.Attribute)):
        if isinstance(e, ast.Name) and e.id in module.assigns:
            return const_bytes(m, module, module.assigns[e.id], depth + 1)
        r = m.resolve(module, e)
        if r and '.' in r:
            mod, attr = r.rsplit('.', 1)
            if mod in m.modules and attr in m.modules[mod].assigns:
                return const_bytes(m, m.modules[mod], m.modules[mod].assigns[attr], depth + 1)
    return None


def lower_presence(m, finfo, test, var, at_stmt=None):
    """Is `test` implied by "the byte string `var` contains a lower-case nucleotide" ?
    -> (True, why) implied (test false => no lower-case nucleotide in var); (False, why) recognised but not implied;
       (None, why) outside the recognised vocabulary.
    Recognised: EXISTS x: x in A and x in B with {A, B} = {var, lower-case nucleotides} spelled with any() in either nesting order,
    a search for a character class containing a, c, g, t, and a closed table of whole-string predicates."""
    fn = finfo.node

    def lower_container(cont):
        cv = cont
        if isinstance(cont, ast.Name) and at_stmt is not None:
            d = reaching_def(fn, cont.id, at_stmt)
            cv = def_value(d) if d not in (None, PARAM, AMBIGUOUS) else None
            if cv is None and d is None:
                cv = cont
        b = const_bytes(m, finfo.module, cv) if cv is not None else None
        return (b is not None and set(b) >= set(b'acgt')), (cv if cv is not None else cont)

    def exists_common(target, it, t):
        if not (isinstance(target, ast.Name) and isinstance(t, ast.Compare) and len(t.ops) == 1 and isinstance(t.ops[0], ast.In) and u(t.left) == target.id):
            return None
        a_, b_ = it, t.comparators[0]
        for h, c in ((a_, b_), (b_, a_)):
            if isinstance(h, ast.Name) and h.id == var:
                okc, cv = lower_container(c)
                return okc, f'some element common to {var} and {u(cv)}'
        return False, f'`{u(t)}` for {target.id} in {u(it)} does not look at {var}'
    t0 = test
    if isinstance(t0, ast.Call) and isinstance(t0.func, ast.Name) and t0.func.id in ('any', 'all') and len(t0.args) == 1 and not t0.keywords \
            and isinstance(t0.args[0], (ast.GeneratorExp, ast.ListComp)) and len(t0.args[0].generators) == 1 and not t0.args[0].generators[0].ifs \
            and not t0.args[0].generators[0].is_async:
        g = t0.args[0].generators[0]
        r = exists_common(g.target, g.iter, t0.args[0].elt)
        if r is None:
            return None, f'`{u(t0)}`'
        if t0.func.id == 'any':
            return r[0], f'any(): {r[1]}'
        return False, f'all(): true only when EVERY element qualifies ({r[1]}): mixed-case input is not folded'
    # regular expression: <compiled>.search(var) / re.search(<pattern>, var)
    if isinstance(t0, ast.Call) and isinstance(t0.func, ast.Attribute) and t0.func.attr in ('search', 'match', 'fullmatch', 'findall') and not t0.keywords:
        pat = subject = None
        if m.resolve(finfo.module, t0.func) in ('re.search', 're.match', 're.fullmatch', 're.findall') and len(t0.args) == 2:
            pat, subject = t0.args
        elif len(t0.args) == 1:
            rx = t0.func.value
            rv = finfo.module.assigns.get(rx.id) if isinstance(rx, ast.Name) else None
            if rv is None and isinstance(rx, (ast.Name, ast.Attribute)):
                r = m.resolve(finfo.module, rx)
                if r and '.' in r and r.rsplit('.', 1)[0] in m.modules:
                    rv = m.modules[r.rsplit('.', 1)[0]].assigns.get(r.rsplit('.', 1)[1])
            if isinstance(rv, ast.Call) and m.resolve(finfo.module, rv.func) == 're.compile' and len(rv.args) == 1 and not rv.keywords:
                pat, subject = rv.args[0], t0.args[0]
        if pat is not None:
            if u(subject) != var:
                return False, f'`{u(t0)}` does not look at {var}'
            pb = const_bytes(m, finfo.module, pat)
            mo = re.fullmatch(rb'\[([A-Za-z]+)\]\+?', pb) if pb is not None else None
            if mo is None:
                return None, f'pattern {pb!r} of `{u(t0)}` (only a plain character class is evaluated)' if pb is not None else f'pattern of `{u(t0)}` is not a constant'
            if t0.func.attr not in ('search', 'findall'):
                return False, f'`{u(t0)}` with pattern {pb!r} is anchored at the start: only the first byte(s) are looked at'
            if set(mo.group(1)) >= set(b'acgt'):
                return True, f'search for the character class {pb!r}'
            return False, f'character class {pb!r} does not contain all of a, c, g, t'
    t = u(t0).replace(' ', '')
    sufficient = {f'not{var}.isupper()', f'{var}!={var}.upper()', f'{var}.upper()!={var}', f'not({var}=={var}.upper())'}
    insufficient = {f'{var}.islower()': 'bytes.islower() is True only when ALL cased bytes are lower case: mixed-case (soft-masked) input is not folded',
                    f'{var}[0:1].islower()': 'looks at the first byte only', f'{var}[:1].islower()': 'looks at the first byte only',
                    f'{var}.isalpha()': 'unrelated to case'}
    if t in sufficient:
        return True, f'`{u(t0)}` (true whenever any byte is lower case)'
    if t in insufficient:
        return False, f'`{u(t0)}`: {insufficient[t]}'
    return None, f'`{u(t0)}`'


def _core(t, pol):
    """strip `not`, `is None`, `is not None` (a match object / count is truthy exactly when something was found)"""
    while True:
        if isinstance(t, ast.UnaryOp) and isinstance(t.op, ast.Not):
            t, pol = t.operand, not pol
        elif isinstance(t, ast.Compare) and len(t.ops) == 1 and is_none(t.comparators[0]) and isinstance(t.ops[0], (ast.Is, ast.IsNot)) \
                and isinstance(t.left, ast.Call) and isinstance(t.left.func, ast.Attribute) and t.left.func.attr in ('search', 'match', 'fullmatch'):
            t, pol = t.left, (not pol if isinstance(t.ops[0], ast.Is) else pol)
        else:
            return t, pol


def fold_summary(ctx, F):
    """Does the package function F(x) return x upper-cased whenever x contains a lower-case nucleotide (and x or x.upper() otherwise)?
    Evaluated per path: a path returning x.upper() is fine, a path returning x itself must lie under the negation of a condition that
    is implied by "x contains a lower-case nucleotide".  -> (ok, description); Undecided for anything else in F."""
    rep, m = ctx.rep, ctx.model
    ps = F.params()
    a = F.node.args
    rep.require(isinstance(F.node, ast.FunctionDef) and len(ps) == 1 and not (a.vararg or a.kwarg or a.kwonlyargs) and not F.node.decorator_list and F.cls is None,
                f'{F.qualname}: not a plain one-argument function (case folding of the haystack cannot be evaluated)')
    x = ps[0]
    rep.functions.add(F.qualname)
    paths, _ = enum_paths(F, F.qualname)
    rep.require(not any(p.effects for p in paths), f'{F.qualname}: calls / loops executed for their effect are outside the evaluated vocabulary')
    problems, notes, n_upper = [], [], 0
    for v, at, guards, r in return_values([p for p in paths if p.kind != 'raise'], F.qualname):
        if isinstance(v, ast.Call) and isinstance(v.func, ast.Attribute) and v.func.attr == 'upper' and not v.args and not v.keywords and u(v.func.value) == x:
            n_upper += 1
            continue
        rep.require(u(v) == x, f'{F.qualname}: returns `{u(v)[:60]}` (neither the argument nor its upper-case form)')
        verdicts = []
        for (t, pol) in guards:
            c, cpol = t, pol
            ver, why = lower_presence(m, F, c, x)
            if ver is None:
                c, cpol = _core(t, pol)
                ver, why = lower_presence(m, F, c, x)
            verdicts.append((ver, cpol, why))
        if any(ver is True and cpol is False for ver, cpol, why in verdicts):
            notes.append(next(why for ver, cpol, why in verdicts if ver is True and cpol is False))
            continue
        bad = [why for ver, cpol, why in verdicts if ver is False or (ver is True and cpol is True)]
        if bad or not verdicts:
            problems.append('returns the sequence unchanged ' + (f'when {bad[0]}' if bad else 'unconditionally'))
        else:
            raise Undecided(f'{F.qualname}: the sequence is returned unchanged under {"; ".join(w for _v, _p, w in verdicts)}: outside the recognised "contains a lower-case nucleotide" conditions')
    if problems:
        return False, f'{F.name}: ' + '; '.join(problems)
    if not n_upper:
        return False, f'{F.name} never returns the upper-cased sequence'
    return True, f'{F.name}: upper() unless no lower-case nucleotide ({notes[0] if notes else "always"})'


def analyse_case_folding(ctx, fi, loops, spec, seqp):
    rep, m = ctx.rep, ctx.model
    fn = fi.node
    hay = loops['forward']['hay']
    first_find = min((loops[k]['first_stmt'] for k in loops), key=lambda st: block_path(fn, st)[0][1])
    first_idx = block_path(fn, first_find)[0][1]
    # haystack origin
    defs = assigns_to(fn, hay)
    rep.require(defs, f'find_kmers: haystack {hay} is never assigned')
    d0 = defs[0]
    v0 = def_value(d0)

    def is_bytes_of_input(e):
        return isinstance(e, ast.Call) and m.resolve_call(fi, e) == 'gambit.seq.seq_to_bytes' and [u(a_) for a_ in e.args] == [seqp] and not e.keywords

    def folding(e):
        """(kind, operand, folder) when e upper-cases its operand: 'upper' for X.upper(), 'fold' for F(X) with F a function of the package"""
        if isinstance(e, ast.Call) and isinstance(e.func, ast.Attribute) and e.func.attr == 'upper' and not e.args and not e.keywords:
            return 'upper', e.func.value, None
        if isinstance(e, ast.Call) and len(e.args) == 1 and not e.keywords and not isinstance(e.args[0], ast.Starred):
            q = m.resolve_call(fi, e)
            if q is not None and q != 'gambit.seq.seq_to_bytes' and m.has_func(q):
                return 'fold', e.args[0], m.func(q)
        return None
    f0 = folding(v0) if v0 is not None else None
    ok0 = is_bytes_of_input(v0) or (f0 is not None and is_bytes_of_input(f0[1]))
    rep.add('K6', fi.site(d0), 'the haystack is the byte form of the whole input sequence', ok0, expected=f'seq_to_bytes({seqp})', found=u(v0), stmt='haystack def')
    uppers = [s for s in defs if def_value(s) is not None and folding(def_value(s)) is not None]
    others = [s for s in defs if s is not d0 and s not in uppers]
    rep.add('K6', fi.site(), 'the haystack is not otherwise rewritten', not others, expected='none', found=[u(s) for s in others], stmt='haystack writes')
    if not uppers:
        rep.add('K6', fi.site(first_find), 'lower-case input is matched: the haystack is upper-cased before searching', False,
                expected=f'{hay} = {hay}.upper()', found='no upper() of the haystack', stmt='upper')
        return
    up = uppers[-1]
    bp = block_path(fn, up)
    before = bp[0][1] < first_idx
    kind, operand, folder = folding(def_value(up))
    src_ok = u(operand) == hay or (up is d0 and is_bytes_of_input(operand))
    fold_ok, fold_why = (True, None) if kind == 'upper' else fold_summary(ctx, folder)
    if len(bp) == 1:
        ok = before and src_ok and fold_ok
        found = 'unconditional' if kind == 'upper' else fold_why
        if not src_ok:
            found = f'{found}; applied to {u(operand)}, not to the haystack'
    else:
        # the condition under which the haystack is upper-cased must be implied by "some byte of the haystack is a lower-case nucleotide"
        owners = [o for (_, _, o) in bp[1:]]
        ok = False
        found = 'conditional'
        if len(owners) == 2 and isinstance(owners[0], ast.For) and isinstance(owners[1], ast.If) and not owners[1].orelse and not owners[0].orelse \
                and isinstance(owners[0].target, ast.Name):
            # for x in A: if x in B: upper   ==   if any(x in B for x in A): upper
            gen = ast.GeneratorExp(elt=owners[1].test, generators=[ast.comprehension(target=owners[0].target, iter=owners[0].iter, ifs=[], is_async=0)])
            ver, why = lower_presence(m, fi, ast.Call(func=ast.Name(id='any', ctx=ast.Load()), args=[gen], keywords=[]), hay, owners[0])
            if ver is not None:
                ok, found = before and src_ok and fold_ok and ver, f'guarded by a scan for {why[7:] if why.startswith("any(): ") else why}'
        elif len(owners) == 1 and isinstance(owners[0], ast.If) and not owners[0].orelse:
            c, cpol = owners[0].test, True
            ver, why = lower_presence(m, fi, c, hay, owners[0])
            if ver is None:
                c, cpol = _core(owners[0].test, True)
                ver, why = lower_presence(m, fi, c, hay, owners[0])
            if ver is not None:
                ok, found = before and src_ok and fold_ok and ver and cpol, f'guarded by {why}' + ('' if cpol else ' - negated')
        if not ok and found == 'conditional':
            raise Undecided(f'find_kmers: upper() of the haystack is under an unrecognised condition ({"; ".join(u(getattr(o, "test", None) or getattr(o, "iter", None)) for o in owners)})')
        if kind == 'fold' and not fold_ok:
            found = f'{found}; {fold_why}'
    rep.add('K6', fi.site(up), 'the haystack is upper-cased whenever it contains a lower-case nucleotide, before either search', ok,
            expected='unconditional, or guarded by "some byte in NUCLEOTIDES.lower()"', found=found, stmt='upper')


# ------------------------------------------------------------------------------------------------ K2 / K3 / K4
def analyse_slices(ctx, loops):
    rep, m = ctx.rep, ctx.model
    fi = m.func('gambit.kmers.KmerMatch.kmer_indices')
    rep.functions.add(fi.qualname)
    env = spec_env('self.kmerspec')
    env['self.pos'] = sym('pos')
    paths, _ = enum_paths(fi, 'kmer_indices')
    rep.require(not any(p.effects for p in paths), 'kmer_indices: calls / loops executed for their effect are outside the evaluated vocabulary')
    found = {}
    for v, at, _g, r in return_values(paths, 'kmer_indices'):
        strand = 'reverse' if ('true', 'self.reverse') in at else 'forward' if ('false', 'self.reverse') in at else None
        rep.require(strand is not None, f'kmer_indices: return not controlled by self.reverse: {u(r)}')
        rep.require(isinstance(v, ast.Call) and u(v.func) == 'slice' and len(v.args) == 2 and not v.keywords,
                    f'kmer_indices: return value is not slice(lo, hi): {u(v)}')
        lo, hi = Aff.try_of(v.args[0], env), Aff.try_of(v.args[1], env)
        rep.require(lo is not None and hi is not None, f'kmer_indices: non-affine slice bound in {u(v)}')
        rep.require(strand not in found, f'kmer_indices: two returns for the {strand} strand')
        found[strand] = (lo, hi, r)
    rep.floor('K2', 'slice returns in kmer_indices', len(found), 2)
    pos = sym('pos')
    want = {'forward': (pos.add(P), pos.add(P).add(K)), 'reverse': (pos.sub(P).sub(K).plus(1), pos.sub(P).plus(1))}
    for strand in ('forward', 'reverse'):
        lo, hi, r = found[strand]
        rep.add('K2', fi.site(r), f'{strand} k-mer slice start', lo == want[strand][0], expected=want[strand][0], found=lo, stmt=f'{strand}: lo')
        rep.add('K2', fi.site(r), f'{strand} k-mer slice stop', hi == want[strand][1], expected=want[strand][1], found=hi, stmt=f'{strand}: hi')
    rep.account_returns('K2', fi, [found[k][2] for k in found], 'k-mer slice')
    # K3: composition with the positions yielded by the search loops
    loc = sym('loc')
    f, rv = loops['forward'], loops['reverse']
    if f['pos'] is not None:
        lo, hi, r = found['forward']
        lo2, hi2 = lo.subst({'pos': f['pos']}), hi.subst({'pos': f['pos']})
        rep.add('K3', fi.site(r), 'forward: the slice is exactly the k bases that follow the prefix occurrence', lo2 == loc.add(P) and hi2.sub(lo2) == K,
                expected='[loc+P, loc+P+K)', found=f'[{lo2}, {hi2})', stmt='forward: composition')
        if f['end'] is not None:
            # window guarantee: loc + P <= LEN + end  =>  hi <= LEN  iff  hi - (loc + P) == -end
            rep.add('K3', fi.site(r), 'forward: the slice never runs past the end of the sequence (window guarantee)',
                    hi2.sub(loc.add(P)) == f['end'].scale(-1), expected='hi - (loc+P) == -end', found=f'{hi2.sub(loc.add(P))} vs {f["end"].scale(-1)}',
                    stmt='forward: bound')
    if rv['pos'] is not None:
        lo, hi, r = found['reverse']
        lo2, hi2 = lo.subst({'pos': rv['pos']}), hi.subst({'pos': rv['pos']})
        rep.add('K3', fi.site(r), 'reverse: the slice is exactly the k bases that precede the reverse-complemented prefix', hi2 == loc and hi2.sub(lo2) == K,
                expected='[loc-K, loc)', found=f'[{lo2}, {hi2})', stmt='reverse: composition')
        if rv['init'] is not None:
            rep.add('K3', fi.site(r), 'reverse: the slice never starts before the sequence (loc >= start >= k) and no occurrence with a full k-mer is skipped',
                    loc.sub(lo2) == rv['init'], expected='loc - lo == initial start', found=f'{loc.sub(lo2)} vs {rv["init"]}', stmt='reverse: bound')
    # K4: strand dispatch
    fk = m.func('gambit.kmers.KmerMatch.kmer_index')
    rep.functions.add(fk.qualname)
    pk, _ = enum_paths(fk, 'kmer_index')
    rep.require(not any(p.effects for p in pk), 'kmer_index: calls / loops executed for their effect are outside the evaluated vocabulary')
    # self.kmer() inside the encoded value is replaced by what KmerMatch.kmer returns on each strand
    kmer_q = 'gambit.kmers.KmerMatch.kmer'

    def is_kmer_call(n):
        return isinstance(n, ast.Call) and not n.args and not n.keywords and isinstance(n.func, ast.Attribute) and u(n.func.value) == 'self' \
            and m.resolve_call(fk, n) == kmer_q
    if any(p.value is not None and _has(p.value, is_kmer_call) for p in pk):
        fkm = m.func(kmer_q)
        rep.functions.add(fkm.qualname)
        pkm, _ = enum_paths(fkm, 'KmerMatch.kmer')
        rep.require(not any(p.effects for p in pkm), 'KmerMatch.kmer: calls / loops executed for their effect are outside the evaluated vocabulary')
        arms = {}
        for v, at, _g, r in return_values(pkm, 'KmerMatch.kmer'):
            strand = 'reverse' if ('true', 'self.reverse') in at else 'forward' if ('false', 'self.reverse') in at else None
            if strand is None and not any('self.reverse' in str(x) for a_ in at for x in a_):
                rep.require(not arms, f'KmerMatch.kmer: returns are not one per strand: {u(r)}')
                arms['forward'] = arms['reverse'] = v          # one value for both strands
                continue
            rep.require(strand is not None and strand not in arms, f'KmerMatch.kmer: returns are not one per strand (controlled by self.reverse): {u(r)}')
            arms[strand] = v
        rep.require(set(arms) == {'forward', 'reverse'}, 'KmerMatch.kmer: returns are not one per strand')

        class InlineKmer(ast.NodeTransformer):
            def visit_Call(s2, node):
                s2.generic_visit(node)
                if is_kmer_call(node):
                    return ast.IfExp(test=ast.Attribute(value=ast.Name(id='self', ctx=ast.Load()), attr='reverse', ctx=ast.Load()),
                                     body=copy.deepcopy(arms['reverse']), orelse=copy.deepcopy(arms['forward']))
                return node
        for p in pk:
            if p.value is not None:
                p.value = InlineKmer().visit(copy.deepcopy(p.value))
    disp = {}
    for v, at, _g, r in return_values(pk, 'kmer_index'):
        strand = 'reverse' if ('true', 'self.reverse') in at else 'forward' if ('false', 'self.reverse') in at else None
        if strand is None and isinstance(v, ast.Call) and not disp and not any('self.reverse' in str(x) for a_ in at for x in a_) and 'self.reverse' not in u(v):
            disp['forward'] = disp['reverse'] = (v, r)       # the strand is looked at nowhere: this value is the index on both strands
            continue
        rep.require(strand is not None and isinstance(v, ast.Call), f'kmer_index: return not controlled by self.reverse: {u(r)}')
        rep.require(strand not in disp, f'kmer_index: two returns for the {strand} strand')
        disp[strand] = (v, r)
    rep.floor('K4', 'dispatch branches in kmer_index', len(disp), 2)
    # The encoder applied is named by the Cython function that finally runs and the value it runs on.  The Python wrapper
    # kmer_to_index[_rc](x) is ckmers.kmer_to_index[_rc](seq_to_bytes(x)) (T9, checked below), so a direct call of the Cython
    # function on seq_to_bytes(x) is the same encoder on the same operand; without the conversion it is not (str / Seq input).
    cy = 'gambit._cython.kmers'

    law_used = []

    def unwrap_bytes(e):
        """seq_to_bytes is the identity on bytes (K10): nested conversions are one conversion"""
        n = 0
        while isinstance(e, ast.Call) and m.resolve_call(fk, e) == 'gambit.seq.seq_to_bytes' and len(e.args) == 1 and not e.keywords:
            e, n = e.args[0], n + 1
        return e, n

    def effective(v):
        tgt = m.resolve_call(fk, v)
        av = v.args[0] if len(v.args) == 1 and not v.keywords else None
        if tgt in ('gambit.kmers.kmer_to_index', 'gambit.kmers.kmer_to_index_rc'):
            cyf, shown = f'{cy}.{tgt.rsplit(".", 1)[1]}', tgt
            av = unwrap_bytes(av)[0] if av is not None else None
        elif tgt in (f'{cy}.kmer_to_index', f'{cy}.kmer_to_index_rc'):
            cyf, shown = tgt, tgt
            av, n = unwrap_bytes(av) if av is not None else (None, 0)
            if not n and not (isinstance(av, ast.Call) and m.resolve_call(fk, av) in ('gambit._cython.kmers.revcomp', 'gambit.seq.revcomp')):
                return tgt, None, f'{tgt} on {u(av)} (not converted by seq_to_bytes)'
        else:
            return tgt, av, tgt
        # encoder(revcomp(z)) is the other encoder on z: the reverse-complement law (rc digit of x == digit of complement(x), positions
        # mirrored), established from the Cython kernels below when it is relied upon
        if isinstance(av, ast.Call) and m.resolve_call(fk, av) in ('gambit._cython.kmers.revcomp', 'gambit.seq.revcomp') and len(av.args) == 1 and not av.keywords:
            z, n = unwrap_bytes(av.args[0])
            if n:           # the Cython revcomp needs bytes
                other = {'kmer_to_index': 'kmer_to_index_rc', 'kmer_to_index_rc': 'kmer_to_index'}[cyf.rsplit('.', 1)[1]]
                law_used.append(u(v))
                return f'{cy}.{other}', z, f'{shown} o revcomp = {other}'
        return cyf, av, shown
    for strand, wantf in (('forward', 'kmer_to_index'), ('reverse', 'kmer_to_index_rc')):
        v, r = disp[strand]
        tgt, av, shown = effective(v)
        rep.add('K4', fk.site(r), f'{strand} match is encoded with {wantf}', tgt == f'{cy}.{wantf}', expected=f'{wantf} (wrapper, or the Cython function on seq_to_bytes(...))',
                found=shown, stmt=f'{strand}: encoder')
        ok = isinstance(av, ast.Subscript) and u(av.value) == 'self.seq' and isinstance(av.slice, ast.Call) \
            and m.resolve_call(fk, av.slice) == 'gambit.kmers.KmerMatch.kmer_indices' and not av.slice.args and not av.slice.keywords
        rep.add('K4', fk.site(r), f'{strand}: the encoded bytes are self.seq[self.kmer_indices()]', ok, expected='self.seq[self.kmer_indices()]', found=u(av) if av is not None else u(v),
                stmt=f'{strand}: operand')
    rep.account_returns('K4', fk, [disp[k][1] for k in disp], 'k-mer index')
    if law_used:
        check_rc_law(ctx)
    c07.check_bindings(ctx)


def check_rc_law(ctx):
    """index_rc(x) == index(revcomp(x)), from the Cython kernels (C07-T1/T3/T5 tables and the digit cross-check T6): evaluated only when
    kmer_index relies on it (an encoder applied to the reverse complement instead of the rc encoder applied to the slice)."""
    rep, m = ctx.rep, ctx.model
    for rid, text in (('T1', 'C07-T1 encoder'), ('T2', 'C07-T2'), ('T3', 'C07-T3 rc encoder'), ('T5', 'C07-T5 complement'), ('T6', 'C07-T6 rc encoder = encoder o complement')):
        if rid not in rep.rules:
            rep.rule(rid, text + ' (premise of K4: encoder applied to revcomp(...))')
    seqmod = m.module('gambit.seq')
    nuc = m.const_value(seqmod, seqmod.assigns['NUCLEOTIDES'])
    enc = c07.analyse_encoder(ctx, m.func('gambit._cython.kmers.c_kmer_to_index'), nuc, rc=False)
    encrc = c07.analyse_encoder(ctx, m.func('gambit._cython.kmers.c_kmer_to_index_rc'), nuc, rc=True)
    comp = c07.analyse_revcomp(ctx, m.func('gambit._cython.kmers.c_revcomp'))
    fi_rc = m.func('gambit._cython.kmers.c_kmer_to_index_rc')
    for ch in b'ACGTacgt':
        c = comp.get(ch)
        rep.add('T6', fi_rc.site(), f'rc digit of {chr(ch)!r} == forward digit of its complement (strand symmetry of the index)', ch in encrc and c in enc and encrc[ch] == enc[c],
                expected=enc.get(c), found=encrc.get(ch), stmt=f'cross[{chr(ch)}]')


# ------------------------------------------------------------------------------------------------ K5 / K9
def _is_generator(g):
    return isinstance(g.node, ast.FunctionDef) and any(isinstance(n, (ast.Yield, ast.YieldFrom)) for n in ast.walk(g.node))


def _loop_source(fi, loop):
    """the iterable of the loop with single-assignment locals defined before it substituted"""
    pre_env = {}
    for s_ in fi.node.body[:fi.node.body.index(loop)]:
        if isinstance(s_, ast.Assign) and len(s_.targets) == 1 and isinstance(s_.targets[0], ast.Name) and len(assigns_to(fi.node, s_.targets[0].id)) == 1:
            pre_env[s_.targets[0].id] = subst(s_.value, pre_env)
    return subst(loop.iter, pre_env)


def _match_loop(ctx, fi, spec, seq, sink, acc):
    """The loop find_kmers -> kmer_index -> skip ValueError -> sink, in function fi.  sink: 'add' (acc.add(index)) or 'yield' (yield index)."""
    rep, m = ctx.rep, ctx.model
    fname = fi.name
    fors = [s for s in fi.node.body if isinstance(s, ast.For)]
    rep.require(len(fors) == 1, f'{fname}: expected one for loop')
    loop = fors[0]
    # the sequence searched: the parameter itself, or its byte form taken once up front - find_kmers searches seq_to_bytes(seq)
    # and seq_to_bytes is the identity on bytes (K10), and a match only slices the sequence it carries before converting it
    it2 = _loop_source(fi, loop)
    a_ = [get_arg(it2, 0, 'kmerspec'), get_arg(it2, 1, 'seq')] if isinstance(it2, ast.Call) else [None, None]
    sq = a_[1]
    if isinstance(sq, ast.Call) and m.resolve_call(fi, sq) == 'gambit.seq.seq_to_bytes' and len(sq.args) == 1 and not sq.keywords:
        sq = sq.args[0]
    ok = isinstance(it2, ast.Call) and m.resolve_call(fi, it2) == 'gambit.kmers.find_kmers' and a_[0] not in (None, Ellipsis) and u(a_[0]) == spec \
        and sq not in (None, Ellipsis) and u(sq) == seq and len(it2.args) + len(it2.keywords) == 2
    rep.add('K5', fi.site(loop), 'iterates every match of find_kmers(kmerspec, seq)', ok, expected=f'find_kmers({spec}, {seq})', found=u(it2), stmt=loop.iter)
    rep.require(isinstance(loop.target, ast.Name), f'{fname}: loop target')
    mv = loop.target.id
    tries = [s for s in loop.body if isinstance(s, ast.Try)]
    rep.require(len(tries) == 1, f'{fname}: expected one try statement in the loop')
    t = tries[0]
    idx_calls = [c for c in calls_in(ast.Module(body=t.body, type_ignores=[])) if callee_attr(c) == 'kmer_index']
    rep.add('K5', fi.site(t), 'the try body computes the index of the current match', len(idx_calls) == 1 and u(idx_calls[0].func.value) == mv,
            expected=f'{mv}.kmer_index()', found=[u(c) for c in idx_calls], stmt='try body')
    other = [s for s in t.body if not (isinstance(s, ast.Assign) and any(x in idx_calls for x in ast.walk(s)))]
    hset = sorted(u(h.type) if h.type is not None else 'BaseException' for h in t.handlers)
    rep.add('K5', fi.site(t), 'only ValueError (invalid k-mer) is swallowed', hset == ['ValueError'], expected=['ValueError'], found=hset, stmt='handlers')
    bad_exit = []
    for h in t.handlers:
        for s in stmts_in(h.body):
            if isinstance(s, (ast.Break, ast.Return, ast.Raise)):
                bad_exit.append(u(s))
    rep.add('K5', fi.site(t), 'a skipped occurrence drops only itself (handler neither breaks, returns nor raises)', not bad_exit, expected='continue / pass',
            found=bad_exit, stmt='handler exit')
    # accumulator.add(index) on the non-exceptional path
    idx_name = None
    for s in t.body:
        if isinstance(s, ast.Assign) and isinstance(s.targets[0], ast.Name) and any(x in idx_calls for x in ast.walk(s)):
            idx_name = s.targets[0].id
    if sink == 'add':
        adds = [c for c in calls_in(loop) if callee_attr(c) == 'add' and u(c.func.value) == acc]
        ok = len(adds) == 1 and idx_name is not None and [u(a) for a in adds[0].args] == [idx_name]
        want_sink = f'{acc}.add({idx_name})'
    else:
        adds = [n for n in ast.walk(fi.node) if isinstance(n, (ast.Yield, ast.YieldFrom))]
        ok = len(adds) == 1 and isinstance(adds[0], ast.Yield) and idx_name is not None and u(adds[0].value) == idx_name and any(x is adds[0] for x in ast.walk(loop))
        want_sink = f'yield {idx_name}'
    rep.add('K5', fi.site(adds[0] if adds else loop), 'every valid index is added to the accumulator it was given' if sink == 'add' else 'every valid index is yielded', ok, expected=want_sink,
            found=[u(c) for c in adds], stmt='add')
    if adds and any(x is adds[0] for s in stmts_in(loop.body) if isinstance(s, ast.Expr) for x in ast.walk(s)):
        st = next(s for s in stmts_in(loop.body) if any(x is adds[0] for x in ast.walk(s)) and isinstance(s, ast.Expr))
        bp = block_path(fi.node, st)
        owner_chain = [type(o).__name__ for (_, _, o) in bp[1:]]
        placed = (bp[-1][0] is loop.body and loop.body.index(st) > loop.body.index(t)) or (bp[-1][0] is t.orelse) or \
                 (bp[-1][0] is t.body and t.body.index(st) > 0)
        rep.add('K5', fi.site(st), 'the add is unconditional on the success path', placed and 'If' not in owner_chain, expected='after the try / in its else',
                found=owner_chain, stmt='add placement')
        rep.add('K5', fi.site(t), 'the try body does nothing else that could be skipped or mask errors',
                not other or all(any(x is adds[0] for x in ast.walk(s)) for s in other), expected='index computation only', found=[u(s) for s in other],
                stmt='try extent')



def analyse_accumulate(ctx):
    """K5.  accumulate_kmers either runs the match loop itself (find_kmers -> kmer_index -> skip ValueError -> add) or consumes a
    generator of the package that runs it and yields the valid indices; the same loop rule is evaluated where the loop is, with the
    sink being `accumulator.add(index)` or `yield index`, and the consumer must add every produced index unconditionally."""
    rep, m = ctx.rep, ctx.model
    fi = m.func('gambit.sigs.calc.accumulate_kmers')
    rep.functions.add(fi.qualname)
    acc, spec, seq = fi.params()[:3]
    fors = [s for s in fi.node.body if isinstance(s, ast.For)]
    rep.require(len(fors) == 1, 'accumulate_kmers: expected one for loop')
    loop = fors[0]
    it2 = _loop_source(fi, loop)
    tgt = m.resolve_call(fi, it2) if isinstance(it2, ast.Call) else None
    if tgt is not None and tgt != 'gambit.kmers.find_kmers' and m.has_func(tgt) and _is_generator(m.func(tgt)):
        g = m.func(tgt)
        rep.functions.add(g.qualname)
        gp = g.params()
        a_ = [x for x in it2.args] if not it2.keywords and not any(isinstance(x, ast.Starred) for x in it2.args) else None
        okc = a_ is not None and len(a_) == 2 and len(gp) == 2 and [u(x) for x in a_] == [spec, seq]
        rep.add('K5', fi.site(loop), f'the index producer {g.name} is given the search parameters and the sequence', okc, expected=f'{g.name}({spec}, {seq})', found=u(it2),
                stmt='producer call')
        rep.require(len(gp) == 2, f'{g.qualname}: expected the parameters (kmerspec, seq)')
        _match_loop(ctx, g, gp[0], gp[1], 'yield', None)
        rep.account_returns('K5', g, [], 'match (the loop must see every occurrence: no return at all)')
        # the consumer: every produced index is added, unconditionally, and nothing else happens to it
        rep.require(isinstance(loop.target, ast.Name), 'accumulate_kmers: loop target')
        body = [x for x in loop.body if not isinstance(x, ast.Pass)]
        adds = [c for c in calls_in(loop) if callee_attr(c) == 'add' and u(c.func.value) == acc]
        oka = len(adds) == 1 and [u(x) for x in adds[0].args] == [loop.target.id] and not adds[0].keywords
        rep.add('K5', fi.site(adds[0] if adds else loop), 'every valid index is added to the accumulator it was given', oka, expected=f'{acc}.add({loop.target.id})',
                found=[u(c) for c in adds], stmt='add')
        okp = len(body) == 1 and isinstance(body[0], ast.Expr) and adds and body[0].value is adds[0] and not loop.orelse
        rep.add('K5', fi.site(loop), 'the add is unconditional on the success path', okp, expected='loop body is the add', found=[u(x)[:60] for x in body], stmt='add placement')
    else:
        _match_loop(ctx, fi, spec, seq, 'add', acc)
    rep.account_returns('K5', fi, [], 'match (the loop must see every occurrence: no return at all)')
    analyse_calc_signature(ctx)


# ------------------------------------------------------------------------------------------------ K9
def analyse_calc_signature(ctx):
    """calc_signature, evaluated per path: whichever way the single-sequence case and the default accumulator are spelled
    (rebinding the parameter, a conditional expression bound to a new local, an if/else around a direct call and a loop),
    on every path  - one accumulator object A: the caller's when given, default_accumulator(kmerspec.k) created once otherwise,
                   - accumulate_kmers(A, kmerspec, s) exactly once for the single sequence / once per element of the collection,
                   - the result is A.signature()."""
    rep, m = ctx.rep, ctx.model
    fc = m.func('gambit.sigs.calc.calc_signature')
    rep.functions.add(fc.qualname)
    ps = fc.params()
    spec2, seqs = ps[0], ps[1]
    accp = 'accumulator'
    rep.require(accp in ps, 'calc_signature: no `accumulator` parameter')
    paths, tokens = enum_paths(fc, 'calc_signature', subst_calls=False)
    paths = [p for p in paths if p.kind != 'raise']
    rep.require(paths, 'calc_signature: no path returns')

    def flag(p, pred):
        """polarity with which a guard satisfying pred holds on path p (None: not tested on this path)"""
        for (t, pol) in p.guards:
            v = pred(t)
            if v is not None:
                return pol == v
        return None

    def is_single(t):
        if isinstance(t, ast.Call) and u(t.func) == 'isinstance' and len(t.args) == 2 and u(t.args[0]) == seqs \
                and m.resolve(fc.module, t.args[1]) == 'gambit.seq.SEQ_TYPES':
            return True
        return None

    def is_accnone(t):
        a = atoms(t, True)
        if a == {('is', 'None', accp)}:
            return True
        if a == {('isnot', 'None', accp)}:
            return False
        return None

    def acc_call(c):
        return isinstance(c, ast.Call) and m.resolve_call(fc, c) == 'gambit.sigs.calc.accumulate_kmers'

    loop_bad, wrap_bad, acc_bad, res_bad, early = [], [], [], [], []
    seen_single, seen_accnone = set(), set()
    site_loop = site_wrap = site_acc = None
    for p in paths:
        single, accnone = flag(p, is_single), flag(p, is_accnone)
        seen_single.add(single)
        seen_accnone.add(accnone)
        calls = []     # (kind, node, accumulator expr, spec expr, sequence source)
        extra = []
        for (k, node, e, inner) in p.effects:
            if k == 'expr' and acc_call(e):
                a = [get_arg(e, i, n) for i, n in enumerate(('accumulator', 'kmerspec', 'seq'))]
                calls.append(('direct', node, a[0], a[1], a[2], None))
            elif k == 'for':
                body = [x for x in node.body if not isinstance(x, ast.Pass)]
                if isinstance(node.target, ast.Name) and len(body) == 1 and isinstance(body[0], ast.Expr) and acc_call(body[0].value):
                    c = subst(body[0].value, inner)
                    a = [get_arg(c, i, n) for i, n in enumerate(('accumulator', 'kmerspec', 'seq'))]
                    calls.append(('loop', node, a[0], a[1], a[2] if u(a[2]) != node.target.id else None, e))
                else:
                    calls.append(('badloop', node, None, None, None, e))
            else:
                extra.append(node)
        for node in extra:
            touched = names_in(node) & ({accp, seqs} | {n.id for n in ast.walk(node) if isinstance(n, ast.Name) and n.id in {t.split('@')[0] for t in tokens}})
            if touched:
                loop_bad.append(f'`{u(node)[:60]}` also acts on {sorted(touched)}')
            else:
                raise Undecided(f'calc_signature: the effect of `{u(node)[:60]}` is outside the evaluated vocabulary')
        # the accumulator of this path
        accs = {u(c[2]) for c in calls if c[2] is not None and c[2] is not Ellipsis}
        if p.kind != 'return' or p.value is None:
            res_bad.append('a path ends without returning')
            continue
        v = p.value
        racc = u(v.func.value) if isinstance(v, ast.Call) and isinstance(v.func, ast.Attribute) and v.func.attr == 'signature' and not v.args and not v.keywords else None
        if racc is None or (accs and accs != {racc}):
            res_bad.append(f'returns {u(v)[:60]}, accumulated into {sorted(accs)}')
        if not calls:
            early.append(p.stmt)
        A = racc if racc is not None else (sorted(accs)[0] if accs else None)
        if len(accs) > 1:
            loop_bad.append(f'several accumulators on one path: {sorted(accs)}')
        # where A comes from
        site_acc = site_acc or p.stmt
        if A in tokens:
            dv, dst = tokens[A]
            okd = isinstance(dv, ast.Call) and m.resolve_call(fc, dv) == 'gambit.sigs.calc.default_accumulator' and [u(x) for x in dv.args] == [f'{spec2}.k'] and not dv.keywords
            site_acc = dst
            if not okd:
                acc_bad.append(f'{u(dv)[:60]}')
            elif accnone is not True:
                acc_bad.append(f'{u(dv)[:50]} replaces the accumulator although it is not None on this path')
        elif A == accp:
            if accnone is not False:
                acc_bad.append(f'the parameter is used {"when it is None" if accnone else "without testing it for None"}')
        else:
            acc_bad.append(f'accumulator is {A}')
        # what is searched
        for (k, node, a, sp, sq, it) in calls:
            if k == 'badloop':
                site_loop = site_loop or node
                loop_bad.append(f'loop body is not the single call accumulate_kmers(<accumulator>, {spec2}, <element>): {u(node)[:90]}')
                continue
            if sp is None or u(sp) != spec2:
                loop_bad.append(f'accumulate_kmers is given the parameters {u(sp)}')
        direct = [c for c in calls if c[0] == 'direct']
        loops = [c for c in calls if c[0] == 'loop']
        for c in loops:
            if _has(c[5], lambda n: isinstance(n, ast.Call) or (isinstance(n, ast.Name) and n.id in tokens)):
                raise Undecided(f'calc_signature: the sequences iterated over come from `{u(tokens[u(c[5])][0]) if u(c[5]) in tokens else u(c[5])}`: outside the evaluated vocabulary '
                                f'(the parameter itself or a one-element list / tuple of it)')
        one_elt = lambda e: isinstance(e, (ast.List, ast.Tuple)) and len(e.elts) == 1 and u(e.elts[0]) == seqs   # noqa: E731
        if single is True:
            site_wrap = site_wrap or (calls[0][1] if calls else p.stmt)
            ok1 = (len(direct) == 1 and not loops and u(direct[0][4]) == seqs) or \
                  (len(loops) == 1 and not direct and loops[0][4] is None and one_elt(loops[0][5]))
            if not ok1:
                wrap_bad.append([u(c[1])[:70] if c[0] == 'direct' else f'for ... in {u(c[5])[:40]}' for c in calls] or 'nothing searched')
        else:
            site_loop = site_loop or (loops[0][1] if loops else p.stmt)
            okl = len(loops) == 1 and not direct and loops[0][4] is None and u(loops[0][5]) == seqs
            if not okl and not any(c[0] == 'badloop' for c in calls):
                loop_bad.append([u(c[1])[:70] if c[0] == 'direct' else f'for ... in {u(c[5])[:40]}' for c in calls] or 'nothing searched')
    if True not in seen_single or False not in seen_single:
        wrap_bad.append(f'no path distinguishes a single sequence: isinstance({seqs}, SEQ_TYPES) is not tested')
    if True not in seen_accnone or False not in seen_accnone:
        acc_bad.append(f'`{accp} is None` is not tested')
    last = fc.node.body[-1]
    rep.add('K9', fc.site(site_loop or last), 'each sequence is searched separately and feeds one shared accumulator', not loop_bad,
            expected=f'for s in {seqs}: accumulate_kmers(<accumulator>, {spec2}, s)', found=loop_bad[:3] or 'ok', stmt='per-sequence loop')
    rep.add('K9', fc.site(site_wrap or last), 'a single sequence of any accepted type is treated as a one-element collection', not wrap_bad,
            expected=f'isinstance({seqs}, SEQ_TYPES) -> accumulate_kmers(<accumulator>, {spec2}, {seqs}) exactly once', found=wrap_bad[:3] or 'ok', stmt='single-sequence wrap')
    rep.add('K9', fc.site(site_acc or last), 'the default accumulator is built for this k, once, exactly when none was given', not acc_bad, expected=f'default_accumulator({spec2}.k) if {accp} is None',
            found=sorted(set(acc_bad))[:3] or 'ok', stmt='default accumulator')
    rep.add('K9', fc.site(last), 'the result is the signature of that accumulator', not res_bad, expected='return <accumulator>.signature()', found=res_bad[:3] or 'ok', stmt='result')
    rep.add('K9', fc.site(early[0] if early else None), 'no early return', not early, expected='none', found=[u(r) for r in early], stmt='early return')


# ------------------------------------------------------------------------------------------------ K7
def array_props(e, store, kind):
    """What is known about an array expression built from the accumulator storage `store`:
    from_store (holds exactly the stored indices), sorted (ascending, duplicate-free), dtype (== self._dtype)."""
    NP = ('np.', 'numpy.')

    def npf(c, name):
        return isinstance(c, ast.Call) and any(u(c.func) == p + name for p in NP)
    out = dict(from_store=False, sorted=False, dtype=False, why='')
    if isinstance(e, ast.Call) and isinstance(e.func, ast.Attribute) and e.func.attr == 'astype' and [u(a) for a in e.args] == ['self._dtype'] and not e.keywords:
        out = array_props(e.func.value, store, kind)
        out['dtype'] = True
        return out
    if isinstance(e, ast.Call) and (u(e.func) == '__sorted_in_place__' or npf(e, 'sort') or npf(e, 'unique')) and len(e.args) == 1 and not e.keywords:
        # np.sort / np.unique return a sorted copy with the dtype of their argument
        out = array_props(e.args[0], store, kind)
        out['sorted'] = out['from_store']
        return out
    if kind == 'dense':
        if npf(e, 'flatnonzero') and [u(a) for a in e.args] == [store] and not e.keywords:
            out.update(from_store=True, sorted=True)
        return out
    if isinstance(e, ast.Call) and (npf(e, 'fromiter') or npf(e, 'array')) and e.args:
        src = u(e.args[0])
        out['dtype'] = u(get_arg(e, 1, 'dtype')) == 'self._dtype'
        cnt = get_arg(e, 2, 'count') if npf(e, 'fromiter') else None
        cnt_ok = cnt is None or u(cnt) in (f'len({store})', '-1')
        others = [k.arg for k in e.keywords if k.arg not in ('dtype', 'count')]
        out['from_store'] = src in (store, f'list({store})', f'sorted({store})', f'iter({store})') and cnt_ok and not others and len(e.args) <= 3
        out['sorted'] = out['from_store'] and src == f'sorted({store})'
        if not cnt_ok:
            out['why'] = f'count={u(cnt)} is not the number of stored indices'
    return out


_ATTRS_CLASS = {'attr.attrs', 'attr.s', 'attr.attributes', 'attr.define', 'attr.mutable', 'attr.frozen', 'attrs.define', 'attrs.mutable', 'attrs.frozen'}
_ATTRS_AUTO = {'attr.define', 'attr.mutable', 'attr.frozen', 'attrs.define', 'attrs.mutable', 'attrs.frozen'}
_ATTRS_FIELD = {'attr.attrib', 'attr.ib', 'attr.attr', 'attr.field', 'attrs.field'}


class _ClassScope:
    """resolver for expressions written in a class body (what m.resolve_call needs of a FuncInfo)"""

    def __init__(self, ci):
        self.module, self.cls, self.qualname = ci.module, ci, ci.qualname


def instance_state(ctx, ci):
    """State of a freshly constructed instance of class ci: {attribute: (value expression, site, resolver, shared)} and the name of the
    constructor parameter that carries k.  `shared` is None when the value is created for each instance and a description when one
    object is shared by all instances (attrs `default=` of a mutable display / call is evaluated once, at class definition).
    Sources: a hand-written __init__ (single path, locals substituted); or, for attrs classes, the field declarations of the class and
    its bases (init parameter / default= / factory=) followed by the stores of __attrs_post_init__ (super() calls followed)."""
    rep, m = ctx.rep, ctx.model
    init = ci.methods.get('__init__')
    if init is not None:
        rep.functions.add(init.qualname)
        kparam = init.params()[1] if len(init.params()) > 1 else None
        ipaths, _ = enum_paths(init, f'{ci.qualname}.__init__')
        ipaths = [p for p in ipaths if p.kind != 'raise']
        rep.require(len(ipaths) == 1, f'{ci.qualname}.__init__: {len(ipaths)} paths (expected one)')
        sets = {}
        for (k_, st, tgt, val) in ipaths[0].effects:
            if k_ == 'store' and isinstance(tgt, ast.Attribute) and u(tgt.value) == 'self':
                sets[tgt.attr] = (val, init.site(st), init, None)
        return sets, kparam

    def attrs_deco(c):
        for d in c.node.decorator_list:
            f = d.func if isinstance(d, ast.Call) else d
            q = m.resolve(c.module, f)
            if q in _ATTRS_CLASS:
                kw = {k.arg: k.value for k in d.keywords} if isinstance(d, ast.Call) else {}
                return q, kw
        return None
    rep.require(attrs_deco(ci) is not None, f'{ci.qualname}: neither a hand-written __init__ nor an attrs class: the initial state cannot be evaluated')
    sets, init_params = {}, []
    for cq in reversed(m.mro(ci.qualname)):
        c = m.classes.get(cq)
        if c is None:
            continue
        deco = attrs_deco(c)
        if deco is None:
            continue
        rep.require('init' not in deco[1] or is_const(deco[1]['init'], True), f'{c.qualname}: attrs class with init={u(deco[1].get("init"))}')
        auto = deco[0] in _ATTRS_AUTO or ('auto_attribs' in deco[1] and is_const(deco[1]['auto_attribs'], True))
        scope = _ClassScope(c)
        for st in c.node.body:
            if isinstance(st, ast.AnnAssign) and isinstance(st.target, ast.Name):
                name, val = st.target.id, st.value
            elif isinstance(st, ast.Assign) and len(st.targets) == 1 and isinstance(st.targets[0], ast.Name):
                name, val = st.targets[0].id, st.value
            else:
                continue
            is_field = isinstance(val, ast.Call) and m.resolve(c.module, val.func) in _ATTRS_FIELD
            if not is_field and not (auto and isinstance(st, ast.AnnAssign)):
                continue
            if u(getattr(st, 'annotation', None) or ast.Constant(value=None)).startswith(('ClassVar', 'typing.ClassVar')):
                continue
            kw = {k.arg: k.value for k in val.keywords} if is_field else {}
            rep.require(not is_field or (not val.args and None not in kw), f'{c.qualname}.{name}: attrib() with positional / ** arguments')
            default = kw.get('default') if is_field else val
            factory = kw.get('factory') if is_field else None
            if isinstance(default, ast.Call) and m.resolve(c.module, default.func) in ('attr.Factory', 'attrs.Factory') and len(default.args) == 1 and not default.keywords:
                factory, default = default.args[0], None
            in_init = not ('init' in kw and is_const(kw['init'], False))
            rep.require('init' not in kw or isinstance(kw['init'], ast.Constant), f'{c.qualname}.{name}: init={u(kw.get("init"))}')
            rep.require('converter' not in kw, f'{c.qualname}.{name}: attrib(converter=...) is outside the evaluated vocabulary')
            pname = name.lstrip('_')
            site_ = c.site(st)
            if factory is not None:
                v = ast.Call(func=copy.deepcopy(factory), args=[], keywords=[])
                sets[name] = (v, site_, scope, None)
                if in_init:
                    raise Undecided(f'{c.qualname}.{name}: a constructor argument with a factory default is outside the evaluated vocabulary')
            elif default is not None:
                immutable = isinstance(default, ast.Constant) or (isinstance(default, ast.Tuple) and all(isinstance(e, ast.Constant) for e in default.elts)) \
                    or (isinstance(default, ast.UnaryOp) and isinstance(default.operand, ast.Constant))
                why = None if immutable else f'default={u(default)} is evaluated once when the class is defined: one object shared by every instance (use factory=)'
                sets[name] = (default, site_, scope, why)
                if in_init:
                    raise Undecided(f'{c.qualname}.{name}: a constructor argument with a default is outside the evaluated vocabulary')
            elif in_init:
                sets[name] = (ast.Name(id=pname, ctx=ast.Load()), site_, scope, None)
                init_params.append(pname)
            else:
                sets.pop(name, None)            # declared, set later (or never)

    # __attrs_post_init__ of the most derived class that has one, super() calls followed in order
    def post_init(fi_, depth=0):
        rep.require(depth < 6, f'{ci.qualname}: __attrs_post_init__ chain too deep')
        rep.functions.add(fi_.qualname)
        paths, _ = enum_paths(fi_, fi_.qualname)
        paths = [p for p in paths if p.kind != 'raise']
        rep.require(len(paths) == 1, f'{fi_.qualname}: {len(paths)} paths (expected one)')
        for (k_, st, x, y) in paths[0].effects:
            if k_ == 'store' and isinstance(x, ast.Attribute) and u(x.value) == 'self':
                sets[x.attr] = (y, fi_.site(st), fi_, None)
            elif k_ == 'expr' and isinstance(x, ast.Call) and isinstance(x.func, ast.Attribute) and x.func.attr == '__attrs_post_init__' and not x.args and not x.keywords:
                q = m.resolve_call(fi_, x)
                rep.require(q is not None and m.has_func(q), f'{fi_.qualname}: `{u(x)}` cannot be resolved')
                post_init(m.func(q), depth + 1)
            else:
                raise Undecided(f'{fi_.qualname}: `{u(st)[:60]}` is outside the evaluated vocabulary (stores to self and super().__attrs_post_init__() only)')
    pi = m.find_method(ci.qualname, '__attrs_post_init__')
    if pi is not None:
        post_init(pi)
    rep.require(init_params[:1] == ['k'] and len(init_params) == 1, f'{ci.qualname}: generated __init__ takes {init_params} (expected the single argument k)')
    return sets, 'k'


def analyse_accumulators(ctx):
    rep, m = ctx.rep, ctx.model
    subs = m.subclasses('gambit.sigs.calc.KmerAccumulator')
    rep.floor('K7', 'KmerAccumulator subclasses', len(subs), 2)
    for ci in sorted(subs, key=lambda c: c.qualname):
        add, sig = ci.methods.get('add'), ci.methods.get('signature')
        rep.require(add and sig, f'{ci.qualname}: missing add/signature')
        for f in (add, sig):
            rep.functions.add(f.qualname)
        # the state of a fresh instance: attribute -> (value expression, site, resolver, why-shared) - from a hand-written __init__ or from
        # the attrs declarations of the class and its bases plus __attrs_post_init__
        sets, kparam = instance_state(ctx, ci)
        dt = sets.get('_dtype')
        okdt = dt is not None and isinstance(dt[0], ast.Call) and m.resolve_call(dt[2], dt[0]) == 'gambit.kmers.index_dtype' \
            and [u(a) for a in dt[0].args] in (['self.k'], [kparam]) and not dt[0].keywords
        okk = 'k' in sets and u(sets['k'][0]) == kparam
        rep.add('K7', dt[1] if dt is not None else ci.site(), f'{ci.name}: output dtype is index_dtype(k) of its own k', okdt and okk,
                expected='self.k = k; self._dtype = index_dtype(self.k)', found=(u(sets['k'][0]) if 'k' in sets else None, u(dt[0]) if dt else None), stmt=f'{ci.name}: dtype')
        # storage
        store_attr = None
        store_kind = None
        for a, (v, site_, rf, shared) in sets.items():
            if isinstance(v, ast.Call) and u(v.func) == 'set' and not v.args and not v.keywords:
                store_attr, store_kind = a, 'set'
            elif isinstance(v, ast.Call) and u(v.func) in ('np.zeros', 'numpy.zeros'):
                store_attr, store_kind = a, 'dense'
                n_arg = get_arg(v, 0, 'shape')
                okn = isinstance(n_arg, ast.Call) and m.resolve_call(rf, n_arg) == 'gambit.kmers.nkmers' and [u(x) for x in n_arg.args] in ([kparam], ['self.k']) and not n_arg.keywords
                dtk = get_arg(v, 1, 'dtype')
                rep.add('K7', site_, f'{ci.name}: dense array has one boolean cell per possible k-mer', okn and u(dtk) in ('bool', 'np.bool_', "'bool'"),
                        expected='np.zeros(nkmers(k), dtype=bool)', found=u(v), stmt=f'{ci.name}: dense storage')
        if store_kind is None:
            for a, v in ci.class_attrs.items():
                if isinstance(v, ast.Call) and (u(v.func) in ('np.zeros', 'numpy.zeros') or (u(v.func) == 'set' and not v.args)):
                    rep.add('K7', ci.site(v), f'{ci.name}: every instance gets its own storage (an accumulator starts empty)', False,
                            expected='created per instance (in __init__ / __attrs_post_init__ / factory=)', found=f'class attribute {a} = {u(v)}: one object shared by every instance',
                            stmt=f'{ci.name}: storage per instance')
        rep.require(store_kind is not None, f'{ci.qualname}: storage is neither a set() nor np.zeros(...)')
        shared = sets[store_attr][3]
        rep.add('K7', sets[store_attr][1], f'{ci.name}: every instance gets its own storage (an accumulator starts empty)', shared is None,
                expected='created per instance (in __init__ / __attrs_post_init__ / factory=)', found=shared or u(sets[store_attr][0]), stmt=f'{ci.name}: storage per instance')
        # add: what the method does to the storage, with locals substituted
        ap = add.params()[1]
        apaths, _ = enum_paths(add, f'{ci.qualname}.add')
        ok = len(apaths) == 1 and apaths[0].kind in ('fall', 'return') and apaths[0].value is None and len(apaths[0].effects) == 1
        found = [u(s_) for s_ in add.node.body if not (isinstance(s_, ast.Expr) and isinstance(s_.value, ast.Constant))]
        if ok:
            k_, st, x, y = apaths[0].effects[0]
            if store_kind == 'dense':
                ok = k_ == 'store' and isinstance(x, ast.Subscript) and u(x.value) == f'self.{store_attr}' and u(x.slice) == ap and is_const(y, True)
                found = f'{u(x)} = {u(y)}' if k_ == 'store' else u(x)
            else:
                ok = False
                found = u(x)
                if k_ == 'expr' and isinstance(x, ast.Call) and len(x.args) == 1 and not x.keywords:
                    inner = x.args[0]
                    if isinstance(inner, ast.Call) and u(inner.func) in ('self._dtype.type', 'int') and len(inner.args) == 1 and not inner.keywords:
                        inner = inner.args[0]
                    ok = u(x.func) == f'self.{store_attr}.add' and u(inner) == ap
        rep.add('K7', add.site(), f'{ci.name}.add records exactly its own argument', ok, expected='store of the argument', found=found,
                stmt=f'{ci.name}: add')
        # signature: the returned value with locals substituted (an in-place x.sort() makes x the sorted array from there on)
        spaths, _ = enum_paths(sig, f'{ci.qualname}.signature')
        vals = return_values([p for p in spaths if p.kind != 'raise'], f'{ci.qualname}.signature')
        rep.require(len(vals) == 1, f'{ci.qualname}.signature: expected one return')
        v, _at, _g, r = vals[0]
        pr = array_props(v, f'self.{store_attr}', store_kind)
        sorted_unique, dtype_ok, found = pr['from_store'] and pr['sorted'], pr['dtype'], f'{u(v)}' + (f' ({pr["why"]})' if pr['why'] else '')
        rep.add('K7', sig.site(r), f'{ci.name}.signature is sorted and duplicate-free by construction', sorted_unique,
                expected='np.flatnonzero(dense) | array from the set, sorted (in place, np.sort, np.unique or built from sorted())', found=found, stmt=f'{ci.name}: sorted unique')
        rep.add('K7', sig.site(r), f'{ci.name}.signature has dtype index_dtype(k)', dtype_ok, expected='self._dtype', found=found, stmt=f'{ci.name}: result dtype')
    # default_accumulator
    fd = m.func('gambit.sigs.calc.default_accumulator')
    rep.functions.add(fd.qualname)
    kp = fd.params()[0]
    ctors = [c for c in calls_in(fd.node) if (m.resolve_call(fd, c) or '') in {c.qualname for c in subs}]
    rets = [s for s in stmts_in(fd.node.body) if isinstance(s, ast.Return)]
    all_ret_ctor = all(any(x in ctors for x in ast.walk(r)) for r in rets) and bool(rets)
    rep.add('K7', fd.site(), 'default_accumulator always returns one of the analysed accumulators, built with the requested k',
            all_ret_ctor and ctors and all([u(a) for a in c.args] == [kp] and not c.keywords for c in ctors), expected=f'<Accumulator>({kp})',
            found=[u(c) for c in ctors], stmt='default_accumulator')


# ------------------------------------------------------------------------------------------------ K8 / K10
class _MiniBreak(Exception):
    pass


class _MiniContinue(Exception):
    pass


def analyse_dtype_table(ctx):
    rep, m = ctx.rep, ctx.model
    fi = m.func('gambit.kmers.index_dtype')
    rep.functions.add(fi.qualname)
    kp = fi.params()[0]

    class MiniK(Mini):
        """Mini + integer powers (4 ** k) - the table is evaluated on concrete k only."""

        def binop(self, op, l, r, node=None):
            if isinstance(op, ast.Pow) and type(l) is int and type(r) is int and 0 <= r <= 128:
                return l ** r
            return super().binop(op, l, r, node)

        # module-level constants (a table of (limit, code) rows) and loops over concrete sequences
        module = fi.module

        def ev(self, e):
            if isinstance(e, ast.Name) and e.id not in self.env and e.id in self.module.assigns:
                return type(self)({}, on_call=self.on_call).const(self.module.assigns[e.id])     # evaluated in module scope
            if isinstance(e, ast.Constant) and isinstance(e.value, (str, bytes)):
                return e.value
            if isinstance(e, ast.JoinedStr):
                out = ''
                for part in e.values:
                    if isinstance(part, ast.Constant) and isinstance(part.value, str):
                        out += part.value
                    elif isinstance(part, ast.FormattedValue) and part.conversion == -1 and part.format_spec is None:
                        v = self.ev(part.value)
                        if type(v) not in (int, str):
                            raise Undecided(f'index_dtype: f-string field {u(part.value)} = {v!r}')
                        out += str(v)
                    else:
                        raise Undecided(f'index_dtype: f-string {u(e)}')
                return out
            if isinstance(e, (ast.GeneratorExp, ast.ListComp)):
                return tuple(self.comp(e.elt, list(e.generators)))
            if isinstance(e, ast.Call) and isinstance(e.func, ast.Name) and e.func.id in ('tuple', 'list') and len(e.args) == 1 and not e.keywords \
                    and e.func.id not in self.env:
                v = self.ev(e.args[0])
                if isinstance(v, (tuple, list, range)):
                    return tuple(v)
                raise Undecided(f'index_dtype: {u(e)} of a value that is not a concrete sequence')
            return super().ev(e)

        def comp(self, elt, gens):
            if not gens:
                yield self.ev(elt)
                return
            g = gens[0]
            seq = self.ev(g.iter)
            if g.is_async or not isinstance(seq, (tuple, list, range)):
                raise Undecided(f'index_dtype: comprehension over {u(g.iter)} (not a concrete sequence)')
            saved = dict(self.env)
            for item in seq:
                self.unpack(g.target, item)
                if all(self.truth(self.ev(c)) for c in g.ifs):
                    yield from self.comp(elt, gens[1:])
            self.env = saved

        def const(self, e):
            """literal value of a module-level constant: strings are kept as strings (Mini reads 1-character strings as C chars)"""
            if isinstance(e, ast.Constant) and isinstance(e.value, (str, bytes)):
                return e.value
            if isinstance(e, (ast.Tuple, ast.List)):
                return tuple(self.const(x) for x in e.elts)
            return self.ev(e)

        def stmt(self, s):
            if isinstance(s, ast.For) and not s.orelse:
                seq = self.ev(s.iter)
                if not isinstance(seq, (tuple, list, range)):
                    raise Undecided(f'index_dtype: loop over {u(s.iter)} (not a concrete sequence)')
                for item in seq:
                    self.unpack(s.target, item)
                    try:
                        self.run(s.body)
                    except _MiniBreak:
                        break
                    except _MiniContinue:
                        continue
                return
            if isinstance(s, ast.Break):
                raise _MiniBreak()
            if isinstance(s, ast.Continue):
                raise _MiniContinue()
            return super().stmt(s)

        def unpack(self, target, value):
            if isinstance(target, ast.Name):
                self.env[target.id] = value
            elif isinstance(target, (ast.Tuple, ast.List)) and isinstance(value, (tuple, list)) and len(value) == len(target.elts):
                for t, v in zip(target.elts, value):
                    self.unpack(t, v)
            else:
                raise Undecided(f'index_dtype: cannot unpack {value!r} into {u(target)}')

    def make_on_call(caller, depth):
        def on_call(mini, e):
            f = u(e.func)
            np_dtype = f in ('np.dtype', 'numpy.dtype')
            if np_dtype and len(e.args) == 1 and not e.keywords and isinstance(e.args[0], ast.Constant):
                return ('dtype', e.args[0].value)
            if np_dtype and len(e.args) == 1 and not e.keywords and isinstance(e.args[0], ast.Attribute):
                names = {'uint8': 'u1', 'uint16': 'u2', 'uint32': 'u4', 'uint64': 'u8'}
                if e.args[0].attr in names and u(e.args[0].value) in ('np', 'numpy'):
                    return ('dtype', names[e.args[0].attr])
            if np_dtype and len(e.args) == 1 and not e.keywords and isinstance(e.args[0], (ast.Call, ast.Name, ast.Subscript, ast.JoinedStr, ast.BinOp)):
                v = mini.ev(e.args[0])                      # np.dtype(<dtype>) is that dtype; np.dtype(<code string>)
                if isinstance(v, tuple) and len(v) == 2 and v[0] == 'dtype':
                    return v
                if isinstance(v, str):
                    return ('dtype', v)
            if f in ('np.min_scalar_type', 'numpy.min_scalar_type') and len(e.args) == 1 and not e.keywords:
                # numpy: for a non-negative Python int the smallest unsigned type that holds it, object beyond 64 bits
                n = mini.ev(e.args[0])
                if type(n) is int and n >= 0:
                    return next((('dtype', f'u{w}') for w in (1, 2, 4, 8) if n <= 256 ** w - 1), ('dtype', 'O'))
                raise Undecided(f'index_dtype: np.min_scalar_type of {n!r} (only non-negative integers are modelled)')
            tgt = m.resolve_call(caller, e)
            if tgt is not None and m.has_func(tgt) and depth < 3:
                # a function of the package (e.g. nkmers): evaluated on the concrete argument values
                g = m.func(tgt)
                ps = g.params()
                a = g.node.args
                if isinstance(g.node, ast.FunctionDef) and not e.keywords and len(e.args) == len(ps) and not any(isinstance(x, ast.Starred) for x in e.args) \
                        and not a.vararg and not a.kwarg and not a.kwonlyargs and not g.node.decorator_list:
                    sub = MiniK({p: mini.ev(x) for p, x in zip(ps, e.args)}, on_call=make_on_call(g, depth + 1))
                    gb = [x for x in g.node.body if not (isinstance(x, ast.Expr) and isinstance(x.value, ast.Constant))]
                    rep.functions.add(g.qualname)
                    try:
                        sub.run(gb)
                    except Return as r:
                        return r.value
                    return None
            raise Undecided(f'index_dtype: call {u(e)}')
        return on_call
    on_call = make_on_call(fi, 0)
    body = [s for s in fi.node.body if not (isinstance(s, ast.Expr) and isinstance(s.value, ast.Constant))]
    bad = []
    rows = {}
    for k in range(1, 33):
        mini = MiniK({kp: k}, on_call=on_call)
        try:
            mini.run(body)
            res = None
        except Return as r:
            res = r.value
        want = next(n for n in (1, 2, 4, 8) if 4 * n >= k)
        got = res[1] if isinstance(res, tuple) and res and res[0] == 'dtype' else res
        rows.setdefault(got, []).append(k)
        if got not in (f'u{want}', f'<u{want}', f'uint{8 * want}'):
            bad.append((k, got, f'u{want}'))
    rep.add('K8', fi.site(), 'for every k in 1..32 the dtype is the smallest unsigned type holding 4^k - 1 (evaluated exhaustively)', not bad,
            expected='u1: k<=4, u2: k<=8, u4: k<=16, u8: k<=32', found=bad[:6] if bad else {d: (min(v), max(v)) for d, v in rows.items()}, stmt='index_dtype table')
    rep.info['index_dtype_rows'] = {str(d): [min(v), max(v)] for d, v in rows.items()}
    fn = m.func('gambit.kmers.nkmers')
    rep.functions.add(fn.qualname)
    body = [s for s in fn.node.body if not (isinstance(s, ast.Expr) and isinstance(s.value, ast.Constant))]
    ok = len(body) == 1 and isinstance(body[0], ast.Return) and isinstance(body[0].value, ast.BinOp) and isinstance(body[0].value.op, ast.Pow) \
        and is_const(body[0].value.left, 4) and u(body[0].value.right) == fn.params()[0]
    rep.add('K8', fn.site(), 'nkmers(k) == 4 ** k', ok, expected='4 ** k', found=u(body[0]) if body else None, stmt='nkmers')
    check_seq_to_bytes(ctx)


def check_seq_to_bytes(ctx):
    """K10: seq_to_bytes is the identity on the byte content of every accepted sequence type (shared with C07)."""
    rep, m = ctx.rep, ctx.model
    seqmod = m.module('gambit.seq')
    rep.require('SEQ_TYPES' in seqmod.assigns and isinstance(seqmod.assigns['SEQ_TYPES'], ast.Tuple), 'gambit.seq.SEQ_TYPES is not a tuple literal')
    members = [u(e) for e in seqmod.assigns['SEQ_TYPES'].elts]
    rep.floor('K10', 'SEQ_TYPES members', len(members), 4)
    fs = m.func('gambit.seq.seq_to_bytes')
    rep.functions.add(fs.qualname)
    sp = fs.params()[0]
    # Finite-domain evaluation over the type of the argument: for every member of SEQ_TYPES (and for "any other type") the paths
    # of seq_to_bytes that such an argument can take are selected by deciding each isinstance() guard on that type; a guard of
    # another form is undetermined (both outcomes possible).  Every path a member can take must return its byte content, every
    # path another type can take must raise TypeError - however the dispatch is spelled (if / elif chain, guard clauses, a type
    # check up front, one local assigned per branch and a single return).
    paths, _ = enum_paths(fs, 'seq_to_bytes')

    # exact-type dispatch tables: a module-level dict literal {type: converter}
    def type_table(e):
        if isinstance(e, ast.Name) and e.id in fs.module.assigns and isinstance(fs.module.assigns[e.id], ast.Dict) \
                and all(isinstance(k_, (ast.Name, ast.Attribute)) for k_ in fs.module.assigns[e.id].keys):
            d = fs.module.assigns[e.id]
            return {u(k_): v_ for k_, v_ in zip(d.keys, d.values)}
        return None

    def is_type_of_arg(e):
        return isinstance(e, ast.Call) and isinstance(e.func, ast.Name) and e.func.id == 'type' and len(e.args) == 1 and not e.keywords and u(e.args[0]) == sp

    def lookup(e):
        """e is D.get(type(seq)) / D.get(type(seq), None) / D[type(seq)] -> (table, strict) else None"""
        if isinstance(e, ast.Call) and isinstance(e.func, ast.Attribute) and e.func.attr == 'get' and not e.keywords and e.args and is_type_of_arg(e.args[0]) \
                and (len(e.args) == 1 or (len(e.args) == 2 and is_none(e.args[1]))):
            tb = type_table(e.func.value)
            return (tb, False) if tb is not None else None
        if isinstance(e, ast.Subscript) and is_type_of_arg(e.slice):
            tb = type_table(e.value)
            return (tb, True) if tb is not None else None
        return None

    def guard_on(t, elem):
        """truth of guard t for an argument of the domain element elem = (type name | None for any other type, exact type?);
        None when undetermined"""
        tname, exact = elem
        if isinstance(t, ast.UnaryOp) and isinstance(t.op, ast.Not):
            v = guard_on(t.operand, elem)
            return None if v is None else not v
        if isinstance(t, ast.Compare) and len(t.ops) == 1:
            l, r, op = t.left, t.comparators[0], t.ops[0]
            lk = lookup(l)
            if lk is not None and not lk[1] and is_none(r) and isinstance(op, (ast.Is, ast.IsNot, ast.Eq, ast.NotEq)):
                hit = exact and tname in lk[0]
                return (not hit) if isinstance(op, (ast.Is, ast.Eq)) else hit
            if is_type_of_arg(l) and isinstance(op, (ast.In, ast.NotIn)) and type_table(r) is not None:
                hit = exact and tname in type_table(r)
                return hit if isinstance(op, ast.In) else not hit
            if is_type_of_arg(l) and isinstance(op, (ast.Is, ast.IsNot, ast.Eq, ast.NotEq)) and isinstance(r, (ast.Name, ast.Attribute)):
                hit = exact and tname == u(r)
                return hit if isinstance(op, (ast.Is, ast.Eq)) else not hit
        lk = lookup(t)
        if lk is not None and not lk[1]:
            return exact and tname in lk[0]          # converters are functions / types: truthy
        if isinstance(t, ast.Call) and u(t.func) == 'isinstance' and len(t.args) == 2 and not t.keywords and u(t.args[0]) == sp:
            c = t.args[1]
            if isinstance(c, ast.Name) and (m.resolve(fs.module, c) == 'gambit.seq.SEQ_TYPES' or (fs.module is seqmod and c.id == 'SEQ_TYPES')):
                names = members
            elif isinstance(c, ast.Tuple) and all(isinstance(e, (ast.Name, ast.Attribute)) for e in c.elts):
                names = [u(e) for e in c.elts]
            elif isinstance(c, (ast.Name, ast.Attribute)):
                names = [u(c)]
            else:
                return None
            return tname in names
        return None

    def paths_for(elem):
        out = []
        for p in paths:
            if all(guard_on(t, elem) in (None, pol) for (t, pol) in p.guards):
                out.append(p)
        return out

    def resolve_value(v, elem):
        """the returned expression for this domain element: a converter looked up in an exact-type table is replaced by the
        table's entry, and a call of a one-expression function / lambda of the module by that expression"""
        tname, exact = elem

        class Look(ast.NodeTransformer):
            def visit(s2, node):
                lk = lookup(node) if isinstance(node, (ast.Call, ast.Subscript)) else None
                if lk is not None:
                    return copy.deepcopy(lk[0][tname]) if exact and tname in lk[0] else ast.Constant(value=None)
                return s2.generic_visit(node)

        class Inline(ast.NodeTransformer):
            def visit_Call(s2, node):
                node = s2.generic_visit(node)
                f = node.func
                body = params = None
                if isinstance(f, ast.Lambda) and not (f.args.vararg or f.args.kwarg or f.args.kwonlyargs or f.args.defaults):
                    body, params = f.body, [a.arg for a in f.args.posonlyargs + f.args.args]
                elif isinstance(f, ast.Name):
                    q = m.resolve(fs.module, f)
                    if q is not None and m.has_func(q):
                        g = m.func(q)
                        gb = [x for x in g.node.body if not (isinstance(x, ast.Expr) and isinstance(x.value, ast.Constant))]
                        a = g.node.args
                        if isinstance(g.node, ast.FunctionDef) and len(gb) == 1 and isinstance(gb[0], ast.Return) and gb[0].value is not None \
                                and not g.node.decorator_list and not (a.vararg or a.kwarg or a.kwonlyargs or a.defaults) and g.module is fs.module:
                            body, params = gb[0].value, g.params()
                if body is not None and not node.keywords and len(node.args) == len(params) and not any(isinstance(x, ast.Starred) for x in node.args):
                    return subst(body, dict(zip(params, node.args)))
                return node
        return Inline().visit(Look().visit(copy.deepcopy(v)))
    want_conv = {'bytes': [sp], 'bytearray': [sp], 'str': [f"{sp}.encode('ascii')", f'{sp}.encode("ascii")', f"{sp}.encode()"], 'Seq': [f'bytes({sp})']}
    accounted = []
    for mname in members:
        vals, bad, ps = [], [], []
        # an argument whose type is exactly the member, and one of a proper subclass (an exact-type table misses it, isinstance does not)
        for elem in ((mname, True), (mname, False)):
            eps = paths_for(elem)
            ps += eps
            if not eps:
                bad.append('no path' + ('' if elem[1] else ' for a subclass instance'))
            for p in eps:
                if p.kind != 'return' or p.value is None:
                    bad.append(f'{p.kind}: {u(p.stmt)[:50] if p.stmt is not None else "falls off the end"}' + ('' if elem[1] else ' (subclass instance)'))
                    continue
                for v, _at, _g in lift(p.value, p.atoms, p.guards):
                    if not all(guard_on(t, elem) in (None, pol) for (t, pol) in _g):
                        continue        # an arm of a conditional expression this type cannot take
                    v = resolve_value(v, elem)
                    if u(v) not in vals:
                        vals.append(u(v))
                    if mname in want_conv and u(v) not in want_conv[mname]:
                        if u(v) not in bad:
                            bad.append(u(v))
                    else:
                        accounted.append(p.stmt)
        r = next((p.stmt for p in ps if p.kind == 'return'), None)
        rep.add('K10', fs.site(r) if r is not None else fs.site(), f'seq_to_bytes converts {mname} to its byte content', bool(ps) and bool(vals) and not bad,
                expected=want_conv.get(mname, 'a return'), found=(bad or vals or None) if len(bad or vals) != 1 else (bad or vals)[0], stmt=f'seq_to_bytes[{mname}]')
    others = paths_for((None, True))
    bad_other = [f'{p.kind} {u(p.value)[:40] if p.value is not None else ""}' for p in others if not (p.kind == 'raise' and isinstance(p.stmt, ast.Raise) and raised_name(p.stmt) == 'TypeError')]
    # a return no member type can reach, or reached only under an undetermined guard, is a shortcut the table above does not account for
    rep.account_returns('K10', fs, [r for r in accounted if r is not None], 'byte form')
    last = next((p.stmt for p in others if p.stmt is not None), fs.node.body[-1])
    rep.add('K10', fs.site(last), 'anything else is a TypeError', bool(others) and not bad_other, expected='raise TypeError',
            found=bad_other[:3] or u(last)[:60], stmt='seq_to_bytes[else]')


def check(ctx):
    rep = ctx.rep
    rep.rule('K1', 'search of each strand in find_kmers decided on its symbolic trace (find / hit test / yield / next find, two unrolled iterations + periodicity): start, end, restart as affine forms, exit on the miss only, yielded pos and strand flag; early return only below prefix_len + k')
    rep.rule('K2', 'kmer_indices slice bounds as affine forms per strand (value reaching each return path, locals substituted)')
    rep.rule('K2.0', 'KmerSpec attribute definitions harvested from __attrs_init__')
    rep.rule('K3', 'composition K1 o K2: slice adjacent to the prefix, length k, inside the sequence')
    rep.rule('K4', 'strand dispatch to the right encoder on self.seq[self.kmer_indices()]')
    rep.rule('K5', 'skip discipline in accumulate_kmers: only ValueError, drops only the occurrence, add on success path')
    rep.rule('K6', 'case folding: haystack upper-cased (unconditionally or under the any-lower-case-nucleotide guard); needle upper-case')
    rep.rule('K7', 'accumulator siblings: dtype, storage, add, sorted-unique signature; default_accumulator returns one of them')
    rep.rule('K8', 'index_dtype evaluated for every k in 1..32 (threshold chains, np.min_scalar_type, package callees such as nkmers); nkmers = 4**k')
    rep.rule('K9', 'calc_signature per path: one shared accumulator (caller\'s, or the default built once when None), accumulate_kmers once per sequence / once for a single sequence, result is its signature')
    rep.rule('K10', 'seq_to_bytes covers every member of SEQ_TYPES')
    rep.rule('T9', 'public k-mer functions bind to the analysed Cython functions (C07-T9)')
    rep.trusted += ['bytes.find(sub, start, end) returns the lowest index of a full occurrence inside [start, end) or -1',
                    'np.flatnonzero returns sorted distinct indices; ndarray.sort() sorts in place; np.sort / np.unique return a sorted copy of the same dtype',
                    'np.min_scalar_type(n) for a non-negative int is the smallest of uint8/16/32/64 holding n (object beyond)']
    rep.assumptions += ['That the discharged premises imply set equality with the specification is a hand argument (DESIGN.md 5/C01).',
                        'Encoder correctness is C07.']
    harvest_kmerspec(ctx)
    loops = analyse_search_loops(ctx)
    analyse_slices(ctx, loops)
    analyse_accumulate(ctx)
    analyse_accumulators(ctx)
    analyse_dtype_table(ctx)
    rep.floor('K1', 'obligations', len(rep.obs), 60)


from ..variants import V  # noqa: E402

_K = 'src/gambit/kmers.py'
_C = 'src/gambit/sigs/calc.py'
_FWD = "\tstart = 0\n\n\twhile True:\n\t\tloc = haystack.find(kmerspec.prefix, start, -kmerspec.k)\n\t\tif loc < 0:\n\t\t\tbreak\n\n\t\tyield KmerMatch(kmerspec, seq, loc, False)\n\n\t\tstart = loc + 1\n"
_FWD_ROT = "\tloc = haystack.find(kmerspec.prefix, 0, -kmerspec.k)\n\twhile loc >= 0:\n\t\tyield KmerMatch(kmerspec, seq, loc, False)\n\t\tloc = haystack.find(kmerspec.prefix, loc + 1, -kmerspec.k)\n"
_REV = "\tstart = kmerspec.k\n\n\twhile True:\n\t\tloc = haystack.find(prefix_rc, start)\n\t\tif loc < 0:\n\t\t\tbreak\n\n\t\tyield KmerMatch(kmerspec, seq, loc + kmerspec.prefix_len - 1, True)\n\n\t\tstart = loc + 1\n"
_HELPER = "def _occurrences(text, sub, first, end=None):\n\tat = text.find(sub, first, end)\n\twhile at >= 0:\n\t\tyield at\n\t\tat = text.find(sub, at + 1, end)\n\n\n"
_FOLD = "\tnucs_lower = NUCLEOTIDES.lower()\n\tfor char in haystack:\n\t\tif char in nucs_lower:\n\t\t\thaystack = haystack.upper()\n\t\t\tbreak\n"
_IDX = ("\t\tif self.reverse:\n\t\t\treturn slice(self.pos - self.kmerspec.total_len + 1, self.pos - self.kmerspec.prefix_len + 1)\n"
        "\t\telse:\n\t\t\treturn slice(self.pos + self.kmerspec.prefix_len, self.pos + self.kmerspec.total_len)\n")
_SIG = "\t\tsig = np.fromiter(self.set, dtype=self._dtype)\n\t\tsig.sort()\n\t\treturn sig\n"
_CS = ("\tif isinstance(seqs, SEQ_TYPES):\n\t\tseqs = [seqs]\n\n\tif accumulator is None:\n\t\taccumulator = default_accumulator(kmerspec.k)\n\n"
       "\tfor seq in seqs:\n\t\taccumulate_kmers(accumulator, kmerspec, seq)\n\n\treturn accumulator.signature()\n")
_DT = "\tif k <= 4:\n\t\treturn np.dtype('u1')\n\telif k <= 8:\n\t\treturn np.dtype('u2')\n\telif k <= 16:\n\t\treturn np.dtype('u4')\n\telif k <= 32:\n\t\treturn np.dtype('u8')\n\telse:\n\t\treturn None\n"
_SQ = 'src/gambit/seq.py'
_S2B = ("\tif isinstance(seq, (bytes, bytearray)):\n\t\treturn seq\n\tif isinstance(seq, str):\n\t\treturn seq.encode('ascii')\n\tif isinstance(seq, Seq):\n"
        "\t\t# This is recommended in the documentation over the deprecated encode() method, also\n\t\t# probably avoids copying any data as it typically just returns the seq._data attribute.\n"
        "\t\treturn bytes(seq)\n\traise TypeError(f'Expected sequence type, got {type(seq)}')\n")
_KI = "\t\tkmer = self.seq[self.kmer_indices()]\n\t\treturn kmer_to_index_rc(kmer) if self.reverse else kmer_to_index(kmer)"
_KIH = "def _kmer_index(kmer, reverse):\n\tkmer_bytes = seq_to_bytes(kmer)\n\tif reverse:\n\t\treturn ckmers.kmer_to_index_rc(kmer_bytes)\n\treturn ckmers.kmer_to_index(kmer_bytes)\n\n\n"
_TBL = ("\tprefix = kmerspec.prefix\n\tk = kmerspec.k\n\tsearches = (\n\t\t(prefix, 0, -k, 0, False),\n\t\t(revcomp(prefix), k, None, kmerspec.prefix_len - 1, True),\n\t)\n\n"
        "\tfor needle, start, end, offset, reverse in searches:\n\t\tloc = haystack.find(needle, start, end)\n\n\t\twhile loc >= 0:\n\t\t\tyield KmerMatch(kmerspec, seq, loc + offset, reverse)\n"
        "\t\t\tloc = haystack.find(needle, loc + 1, end)\n")
_FOLDH = ("_LOWER_RE = re.compile(b'[' + NUCLEOTIDES.lower() + b']')\n\n\ndef fold_case(data):\n\tif _LOWER_RE.search(data) is None:\n\t\treturn data\n\treturn data.upper()\n\n\n")


def _FOLD_EDITS(helper):
    return [(_K, _FOLD, ""), (_K, "from gambit.seq import NUCLEOTIDES, DNASeq, seq_to_bytes,", "from gambit.seq import NUCLEOTIDES, DNASeq, seq_to_bytes, fold_case,"),
            (_SQ, "from pathlib import Path\n", "import re\nfrom pathlib import Path\n"), (_SQ, "def validate_dna_seq_bytes(seq: DNASeqBytes):", helper + "def validate_dna_seq_bytes(seq: DNASeqBytes):")]


_GEN_ROWS = "def _searches(spec):\n\tyield spec.prefix, 0, -spec.k, False\n\tyield revcomp(spec.prefix), spec.k, None, True\n\n\n"
_GEN_LOOP = ("\tfor needle, first, end, reverse in _searches(kmerspec):\n\t\tloc = haystack.find(needle, first, end)\n\n\t\twhile loc >= 0:\n"
             "\t\t\tyield KmerMatch(kmerspec, seq, loc + kmerspec.prefix_len - 1 if reverse else loc, reverse)\n\t\t\tloc = haystack.find(needle, loc + 1, end)\n")
_ACC = "\tfor match in find_kmers(kmerspec, seq):\n\t\ttry:\n\t\t\tindex = match.kmer_index()\n\t\texcept ValueError:\n\t\t\tcontinue\n\t\taccumulator.add(index)\n"
_KEOF = "\t\tyield KmerMatch(kmerspec, seq, loc + kmerspec.prefix_len - 1, True)\n\n\t\tstart = loc + 1\n"
_PROD = ("\n\ndef iter_indices(kmerspec, seq):\n\tdata = seq_to_bytes(seq)\n\n\tfor match in find_kmers(kmerspec, data):\n\t\ttry:\n\t\t\tindex = match.kmer_index()\n"
         "\t\texcept ValueError:\n\t\t\tcontinue\n\n\t\tyield index\n")
_S2B_TBL = ("def _as_is(seq):\n\treturn seq\n\n\ndef _encode_ascii(seq):\n\treturn seq.encode('ascii')\n\n\n"
            "_CONVERTERS = {\n\tbytes: _as_is,\n\tbytearray: _as_is,\n\tstr: _encode_ascii,\n\tSeq: bytes,\n}\n\n\n")
_S2B_TBL_USE = "\tconvert = _CONVERTERS.get(type(seq))\n\tif convert is not None:\n\t\treturn convert(seq)\n\n"
_FINDALL = ("def _find_all(haystack: bytes, needle: bytes, start: int, end: int) -> Iterator[int]:\n\twhile True:\n\t\tloc = haystack.find(needle, start, end)\n"
            "\t\tif loc < 0:\n\t\t\treturn\n\n\t\tyield loc\n\n\t\tstart = loc + 1\n\n\n")
_ATTRS_EDITS = [
    (_C, "import numpy as np\n\nfrom .base import", "import numpy as np\nfrom attr import attrs, attrib\n\nfrom .base import"),
    (_C, "class KmerAccumulator(MutableSet[int]):", "@attrs(eq=False)\nclass KmerAccumulator(MutableSet[int]):"),
    (_C, "\tk: int\n\n\tdef add_kmer", "\tk: int = attrib()\n\t_dtype: np.dtype = attrib(init=False, repr=False)\n\n\tdef __attrs_post_init__(self):\n\t\tself._dtype = index_dtype(self.k)\n\n\tdef add_kmer"),
    (_C, "class ArrayAccumulator(KmerAccumulator):", "@attrs(eq=False)\nclass ArrayAccumulator(KmerAccumulator):"),
    (_C, "\tarray: np.ndarray\n\n\tdef __init__(self, k: int):\n\t\tself.k = k\n\t\tself.array = np.zeros(nkmers(k), dtype=bool)\n\t\tself._dtype = index_dtype(self.k)\n",
     "\tarray: np.ndarray = attrib(init=False, repr=False)\n\n\tdef __attrs_post_init__(self):\n\t\tsuper().__attrs_post_init__()\n\t\tself.array = np.zeros(nkmers(self.k), dtype=bool)\n"),
    (_C, "class SetAccumulator(KmerAccumulator):", "@attrs(eq=False)\nclass SetAccumulator(KmerAccumulator):"),
]
_FINDALL_D = _FINDALL.replace("start: int, end: int)", "start: int = 0, end: Optional[int] = None)")
_DICT_NEEDLE = ("\tstrands = {\n\t\tkmerspec.prefix: (False, 0, -kmerspec.k),\n\t\trevcomp(kmerspec.prefix): (True, kmerspec.k, None),\n\t}\n\n"
                "\tfor needle, (reverse, start, end) in strands.items():\n\t\toffset = kmerspec.prefix_len - 1 if reverse else 0\n\n"
                "\t\tfor loc in _find_all(haystack, needle, start, end):\n\t\t\tyield KmerMatch(kmerspec, seq, loc + offset, reverse)\n")
_DICT_FLAG = ("\tstrands = {\n\t\tFalse: (kmerspec.prefix, 0, -kmerspec.k),\n\t\tTrue: (revcomp(kmerspec.prefix), kmerspec.k, None),\n\t}\n\n"
              "\tfor reverse, (needle, start, end) in strands.items():\n\t\toffset = kmerspec.prefix_len - 1 if reverse else 0\n\n"
              "\t\tfor loc in _find_all(haystack, needle, start, end):\n\t\t\tyield KmerMatch(kmerspec, seq, loc + offset, reverse)\n")
_NT = "class StrandSearch(NamedTuple):\n\tpattern: bytes\n\treverse: bool\n\tstart: int\n\tend: Optional[int]\n\tpos_offset: int\n\n\n"
_DICT_NT = ("\tsearches = {\n\t\t'fwd': StrandSearch(kmerspec.prefix, False, 0, -kmerspec.k, 0),\n\t\t'rev': StrandSearch(revcomp(kmerspec.prefix), True, kmerspec.k, None, kmerspec.prefix_len - 1),\n\t}\n\n"
            "\tfor search in searches.values():\n\t\tfor loc in _find_all(haystack, search.pattern, search.start, search.end):\n"
            "\t\t\tyield KmerMatch(kmerspec, seq, loc + search.pos_offset, search.reverse)\n")
VARIANTS = [
    V('forward restart after the whole prefix (overlaps missed)', 'B', _K, "\t\tyield KmerMatch(kmerspec, seq, loc, False)\n\n\t\tstart = loc + 1",
      "\t\tyield KmerMatch(kmerspec, seq, loc, False)\n\n\t\tstart = loc + kmerspec.prefix_len", 'K1'),
    V('forward window one too long', 'B', _K, "haystack.find(kmerspec.prefix, start, -kmerspec.k)", "haystack.find(kmerspec.prefix, start, -kmerspec.k + 1)", 'K1'),
    V('forward window end len-k (negative for short sequences)', 'B', _K, "haystack.find(kmerspec.prefix, start, -kmerspec.k)",
      "haystack.find(kmerspec.prefix, start, len(haystack) - kmerspec.k)", 'K1'),
    V('reverse search starts at k-1', 'B', _K, "\tstart = kmerspec.k\n", "\tstart = kmerspec.k - 1\n", 'K1'),
    V('reverse search starts at k+1 (flush match missed)', 'B', _K, "\tstart = kmerspec.k\n", "\tstart = kmerspec.k + 1\n", 'K1'),
    V('reverse pos off by one', 'B', _K, "loc + kmerspec.prefix_len - 1, True)", "loc + kmerspec.prefix_len, True)", 'K1'),
    V('reverse slice stop drops +1', 'B', _K, "self.pos - self.kmerspec.prefix_len + 1)", "self.pos - self.kmerspec.prefix_len)", 'K2'),
    V('forward slice uses k for total_len', 'B', _K, "return slice(self.pos + self.kmerspec.prefix_len, self.pos + self.kmerspec.total_len)",
      "return slice(self.pos + self.kmerspec.prefix_len, self.pos + self.kmerspec.k)", 'K2'),
    V('encoders swapped in kmer_index', 'B', _K, "return kmer_to_index_rc(kmer) if self.reverse else kmer_to_index(kmer)",
      "return kmer_to_index(kmer) if self.reverse else kmer_to_index_rc(kmer)", 'K4'),
    V('strand flag of reverse matches False', 'B', _K, "loc + kmerspec.prefix_len - 1, True)", "loc + kmerspec.prefix_len - 1, False)", 'K1'),
    V('skip handler breaks', 'B', _C, "\t\texcept ValueError:\n\t\t\tcontinue\n\t\taccumulator.add(index)", "\t\texcept ValueError:\n\t\t\tbreak\n\t\taccumulator.add(index)", 'K5'),
    V('skip handler catches everything', 'B', _C, "\t\texcept ValueError:\n\t\t\tcontinue\n\t\taccumulator.add(index)", "\t\texcept Exception:\n\t\t\tcontinue\n\t\taccumulator.add(index)", 'K5'),
    V('set accumulator result unsorted', 'B', _C, "\t\tsig = np.fromiter(self.set, dtype=self._dtype)\n\t\tsig.sort()\n", "\t\tsig = np.fromiter(self.set, dtype=self._dtype)\n", 'K7'),
    V('dtype row k <= 9 -> u2', 'B', _K, "\telif k <= 8:\n\t\treturn np.dtype('u2')", "\telif k <= 9:\n\t\treturn np.dtype('u2')", 'K8'),
    V('dtype row not minimal (k<=4 -> u2)', 'B', _K, "\tif k <= 4:\n\t\treturn np.dtype('u1')", "\tif k <= 4:\n\t\treturn np.dtype('u2')", 'K8'),
    V('upper-casing removed', 'B', _K, "\t\tif char in nucs_lower:\n\t\t\thaystack = haystack.upper()\n\t\t\tbreak", "\t\tif char in nucs_lower:\n\t\t\tbreak", 'K6'),
    V('islower() guard (mixed-case input not folded; seeded C01a/C06a)', 'B', _K, "\tnucs_lower = NUCLEOTIDES.lower()\n\tfor char in haystack:\n\t\tif char in nucs_lower:\n\t\t\thaystack = haystack.upper()\n\t\t\tbreak\n",
      "\tif haystack.islower():\n\t\thaystack = haystack.upper()\n", 'K6'),
    V('E: not isupper() guard', 'E', _K, "\tnucs_lower = NUCLEOTIDES.lower()\n\tfor char in haystack:\n\t\tif char in nucs_lower:\n\t\t\thaystack = haystack.upper()\n\t\t\tbreak\n",
      "\tif not haystack.isupper():\n\t\thaystack = haystack.upper()\n"),
    V('upper-casing guard looks at upper-case letters', 'B', _K, "\tnucs_lower = NUCLEOTIDES.lower()", "\tnucs_lower = NUCLEOTIDES", 'K6'),
    V('dense accumulator returns intp dtype', 'B', _C, "return np.flatnonzero(self.array).astype(self._dtype)", "return np.flatnonzero(self.array)", 'K7'),
    V('set accumulator uses wrong k for dtype', 'B', _C, "\t\tself.set = set()\n\t\tself._dtype = index_dtype(self.k)", "\t\tself.set = set()\n\t\tself._dtype = index_dtype(8)", 'K7'),
    V('calc_signature creates a fresh accumulator per sequence (last wins)', 'B', _C,
      "\tfor seq in seqs:\n\t\taccumulate_kmers(accumulator, kmerspec, seq)\n", "\tfor seq in seqs:\n\t\taccumulator = default_accumulator(kmerspec.k)\n\t\taccumulate_kmers(accumulator, kmerspec, seq)\n", 'K9'),
    V('prefix not upper-cased in KmerSpec', 'B', _K, "prefix = seq_to_bytes(prefix).upper()", "prefix = seq_to_bytes(prefix)", 'K6'),
    V('total_len off by one', 'B', _K, "total_len=k + len(prefix),", "total_len=k + len(prefix) + 1,", 'K2.0'),
    V('miss continues instead of leaving the forward loop', 'B', _K, "\t\tloc = haystack.find(kmerspec.prefix, start, -kmerspec.k)\n\t\tif loc < 0:\n\t\t\tbreak",
      "\t\tloc = haystack.find(kmerspec.prefix, start, -kmerspec.k)\n\t\tif loc < 0:\n\t\t\treturn", None),
    V('str inputs no longer accepted', 'B', 'src/gambit/seq.py', "\tif isinstance(seq, str):\n\t\treturn seq.encode('ascii')\n", "", 'K10'),
    # behaviour-preserving
    V('E: start = 1 + loc', 'E', _K, "\t\tyield KmerMatch(kmerspec, seq, loc, False)\n\n\t\tstart = loc + 1", "\t\tyield KmerMatch(kmerspec, seq, loc, False)\n\n\t\tstart = 1 + loc"),
    V('E: local alias for prefix_len', 'E', _K, "\tprefix_rc = revcomp(kmerspec.prefix)\n", "\tprefix_rc = revcomp(kmerspec.prefix)\n\tplen = kmerspec.prefix_len\n",
      also=[(_K, "loc + kmerspec.prefix_len - 1, True)", "loc + plen - 1, True)")]),
    V('E: total_len inlined in kmer_indices', 'E', _K, "return slice(self.pos + self.kmerspec.prefix_len, self.pos + self.kmerspec.total_len)",
      "return slice(self.pos + self.kmerspec.prefix_len, self.pos + self.kmerspec.k + self.kmerspec.prefix_len)"),
    V('E: unconditional upper()', 'E', _K, "\tnucs_lower = NUCLEOTIDES.lower()\n\tfor char in haystack:\n\t\tif char in nucs_lower:\n\t\t\thaystack = haystack.upper()\n\t\t\tbreak\n",
      "\thaystack = haystack.upper()\n"),
    V('E: nested if in index_dtype', 'E', _K, "\telif k <= 16:\n\t\treturn np.dtype('u4')\n\telif k <= 32:\n\t\treturn np.dtype('u8')\n\telse:\n\t\treturn None",
      "\telse:\n\t\tif k <= 16:\n\t\t\treturn np.dtype('u4')\n\t\tif k < 33:\n\t\t\treturn np.dtype('u8')\n\t\treturn None"),
    V('E: if/else statement in kmer_index', 'E', _K, "\t\treturn kmer_to_index_rc(kmer) if self.reverse else kmer_to_index(kmer)",
      "\t\tif self.reverse:\n\t\t\treturn kmer_to_index_rc(kmer)\n\t\treturn kmer_to_index(kmer)"),
    V('E: miss test loc == -1', 'E', _K, "\t\tloc = haystack.find(prefix_rc, start)\n\t\tif loc < 0:\n\t\t\tbreak", "\t\tloc = haystack.find(prefix_rc, start)\n\t\tif loc == -1:\n\t\t\tbreak"),
    V('E: handler pass + else add', 'E', _C, "\t\texcept ValueError:\n\t\t\tcontinue\n\t\taccumulator.add(index)", "\t\texcept ValueError:\n\t\t\tpass\n\t\telse:\n\t\t\taccumulator.add(index)"),
    # K8: the dtype table computed instead of spelled out (evaluated for every k through np.min_scalar_type / nkmers)
    V('E: dtype from np.min_scalar_type of the largest index', 'E', _K, _DT, "\tif k > 32:\n\t\treturn None\n\treturn np.min_scalar_type(nkmers(k) - 1)\n"),
    V('E: dtype from np.min_scalar_type of 4 ** k - 1, wrapped in np.dtype', 'E', _K, _DT, "\tif k > 32:\n\t\treturn None\n\ttop = 4 ** k - 1\n\treturn np.dtype(np.min_scalar_type(top))\n"),
    V('dtype sized for the number of k-mers 4^k instead of the largest index (seeded C01c)', 'B', _K, _DT, "\tif k > 32:\n\t\treturn None\n\treturn np.min_scalar_type(nkmers(k))\n", 'K8'),
    V('dtype sized for the largest index of k - 1', 'B', _K, _DT, "\tif k > 32:\n\t\treturn None\n\treturn np.min_scalar_type(nkmers(k - 1) - 1)\n", 'K8'),
    # ---- second round: K10 as a finite-domain evaluation over the argument type, K8 table loop, K2.0 / K4 / K5 through locals and helpers, K1 table of searches
    V('E: seq_to_bytes as if/elif chain, last guard negated, conversion after the chain', 'E', _SQ, _S2B,
      "\tif isinstance(seq, (bytes, bytearray)):\n\t\treturn seq\n\telif isinstance(seq, str):\n\t\treturn seq.encode('ascii')\n\telif not isinstance(seq, Seq):\n\t\traise TypeError(f'Expected sequence type, got {type(seq)}')\n\n\treturn bytes(seq)\n"),
    V('if/elif chain: negated guard tests str, Seq input raises and everything else is passed to bytes()', 'B', _SQ, _S2B,
      "\tif isinstance(seq, (bytes, bytearray)):\n\t\treturn seq\n\telif isinstance(seq, str):\n\t\treturn seq.encode('ascii')\n\telif isinstance(seq, Seq):\n\t\traise TypeError(f'Expected sequence type, got {type(seq)}')\n\n\treturn bytes(seq)\n", 'K10'),
    V('E: seq_to_bytes with the type guard first, one local per branch, single return', 'E', _SQ, _S2B,
      "\tif not isinstance(seq, SEQ_TYPES):\n\t\traise TypeError(f'Expected sequence type, got {type(seq)}')\n\n\tif isinstance(seq, (bytes, bytearray)):\n\t\tconverted = seq\n\telif isinstance(seq, str):\n\t\tconverted = seq.encode('ascii')\n\telse:\n\t\tconverted = bytes(seq)\n\n\treturn converted\n"),
    V('type guard first: the str branch is missing, str falls into the Seq branch', 'B', _SQ, _S2B,
      "\tif not isinstance(seq, SEQ_TYPES):\n\t\traise TypeError(f'Expected sequence type, got {type(seq)}')\n\n\tif isinstance(seq, (bytes, bytearray)):\n\t\tconverted = seq\n\telse:\n\t\tconverted = bytes(seq)\n\n\treturn converted\n", 'K10'),
    V('type guard first, but it only lets the byte types and str through', 'B', _SQ, _S2B,
      "\tif not isinstance(seq, (bytes, bytearray, str)):\n\t\traise TypeError(f'Expected sequence type, got {type(seq)}')\n\n\tif isinstance(seq, (bytes, bytearray)):\n\t\tconverted = seq\n\telif isinstance(seq, str):\n\t\tconverted = seq.encode('ascii')\n\telse:\n\t\tconverted = bytes(seq)\n\n\treturn converted\n", 'K10'),
    V('single return form: str is lower-cased on the way', 'B', _SQ, _S2B,
      "\tif isinstance(seq, (bytes, bytearray)):\n\t\tdata = seq\n\telif isinstance(seq, str):\n\t\tdata = seq.lower().encode('ascii')\n\telif isinstance(seq, Seq):\n\t\tdata = bytes(seq)\n\telse:\n\t\traise TypeError(f'Expected sequence type, got {type(seq)}')\n\n\treturn data\n", 'K10'),
    V('shortcut return for falsy input before the dispatch', 'B', _SQ, _S2B, "\tif not seq:\n\t\treturn b''\n" + _S2B, 'K10'),
    V('anything else is converted with bytes() instead of raising', 'B', _SQ, "\traise TypeError(f'Expected sequence type, got {type(seq)}')\n", "\treturn bytes(seq)\n", 'K10'),
    V('E: index_dtype as a loop over a (largest k, code) table', 'E', _K, _DT, "\tfor max_k, code in _DT_LIMITS:\n\t\tif k <= max_k:\n\t\t\treturn np.dtype(code)\n\treturn None\n",
      also=[(_K, "def index_dtype(k: int)", "_DT_LIMITS = ((4, 'u1'), (8, 'u2'), (16, 'u4'), (32, 'u8'))\n\n\ndef index_dtype(k: int)")]),
    V('table loop compares with < (type switches one k early)', 'B', _K, _DT, "\tfor max_k, code in _DT_LIMITS:\n\t\tif k < max_k:\n\t\t\treturn np.dtype(code)\n\treturn None\n", 'K8',
      also=[(_K, "def index_dtype(k: int)", "_DT_LIMITS = ((4, 'u1'), (8, 'u2'), (16, 'u4'), (32, 'u8'))\n\n\ndef index_dtype(k: int)")]),
    V('table row for 16-bit indices ends at k = 9', 'B', _K, _DT, "\tfor max_k, code in _DT_LIMITS:\n\t\tif k <= max_k:\n\t\t\treturn np.dtype(code)\n\treturn None\n", 'K8',
      also=[(_K, "def index_dtype(k: int)", "_DT_LIMITS = ((4, 'u1'), (9, 'u2'), (16, 'u4'), (32, 'u8'))\n\n\ndef index_dtype(k: int)")]),
    V('table rows in decreasing order (always the widest type)', 'B', _K, _DT, "\tfor max_k, code in _DT_LIMITS:\n\t\tif k <= max_k:\n\t\t\treturn np.dtype(code)\n\treturn None\n", 'K8',
      also=[(_K, "def index_dtype(k: int)", "_DT_LIMITS = ((32, 'u8'), (16, 'u4'), (8, 'u2'), (4, 'u1'))\n\n\ndef index_dtype(k: int)")]),
    V('E: prefix length bound to a local before __attrs_init__', 'E', _K, "\t\tvalidate_dna_seq_bytes(prefix)\n", "\t\tvalidate_dna_seq_bytes(prefix)\n\t\tprefix_len = len(prefix)\n",
      also=[(_K, "\t\t\tprefix_len=len(prefix),\n\t\t\ttotal_len=k + len(prefix),\n", "\t\t\tprefix_len=prefix_len,\n\t\t\ttotal_len=k + prefix_len,\n")]),
    V('prefix length local: total_len adds it twice', 'B', _K, "\t\tvalidate_dna_seq_bytes(prefix)\n", "\t\tvalidate_dna_seq_bytes(prefix)\n\t\tprefix_len = len(prefix)\n", 'K2.0',
      also=[(_K, "\t\t\tprefix_len=len(prefix),\n\t\t\ttotal_len=k + len(prefix),\n", "\t\t\tprefix_len=prefix_len,\n\t\t\ttotal_len=prefix_len + prefix_len,\n")]),
    V('prefix length local is the length of another object (the nucleotide alphabet)', 'B', _K, "\t\tvalidate_dna_seq_bytes(prefix)\n", "\t\tvalidate_dna_seq_bytes(prefix)\n\t\tprefix_len = len(NUCLEOTIDES)\n", 'K2.0',
      also=[(_K, "\t\t\tprefix_len=len(prefix),\n\t\t\ttotal_len=k + len(prefix),\n", "\t\t\tprefix_len=prefix_len,\n\t\t\ttotal_len=k + prefix_len,\n")]),
    V('the raw argument is validated, not the stored upper-cased prefix', 'B', _K, "\t\tprefix = seq_to_bytes(prefix).upper()\n\t\tvalidate_dna_seq_bytes(prefix)\n",
      "\t\tvalidate_dna_seq_bytes(seq_to_bytes(prefix))\n\t\tprefix = seq_to_bytes(prefix).upper()\n", 'K2.0'),
    V('E: kmer_index calls the Cython encoders directly on the converted slice', 'E', _K, _KI,
      "\t\tkmer = seq_to_bytes(self.seq[self.kmer_indices()])\n\t\treturn ckmers.kmer_to_index_rc(kmer) if self.reverse else ckmers.kmer_to_index(kmer)"),
    V('direct Cython call without the conversion to bytes', 'B', _K, _KI,
      "\t\tkmer = self.seq[self.kmer_indices()]\n\t\treturn ckmers.kmer_to_index_rc(kmer) if self.reverse else ckmers.kmer_to_index(kmer)", 'K4'),
    V('direct Cython calls crossed', 'B', _K, _KI,
      "\t\tkmer = seq_to_bytes(self.seq[self.kmer_indices()])\n\t\treturn ckmers.kmer_to_index(kmer) if self.reverse else ckmers.kmer_to_index_rc(kmer)", 'K4'),
    V('E: encoders through a shared helper with a reverse flag', 'E', _K, _KI, "\t\treturn _kmer_index(self.seq[self.kmer_indices()], self.reverse)",
      also=[(_K, "def kmer_to_index(kmer: 'DNASeq') -> int:", _KIH + "def kmer_to_index(kmer: 'DNASeq') -> int:")]),
    V('shared helper called with the flag negated', 'B', _K, _KI, "\t\treturn _kmer_index(self.seq[self.kmer_indices()], not self.reverse)", 'K4',
      also=[(_K, "def kmer_to_index(kmer: 'DNASeq') -> int:", _KIH + "def kmer_to_index(kmer: 'DNASeq') -> int:")]),
    V('E: accumulate_kmers converts the sequence to bytes once and searches that', 'E', _C, "\tfor match in find_kmers(kmerspec, seq):\n", "\tseq_bytes = seq_to_bytes(seq)\n\n\tfor match in find_kmers(kmerspec, seq_bytes):\n",
      also=[(_C, "from gambit.seq import SEQ_TYPES, DNASeq, SequenceFile\n", "from gambit.seq import SEQ_TYPES, DNASeq, SequenceFile, seq_to_bytes\n")]),
    V('converted once, first base dropped', 'B', _C, "\tfor match in find_kmers(kmerspec, seq):\n", "\tseq_bytes = seq_to_bytes(seq)[1:]\n\n\tfor match in find_kmers(kmerspec, seq_bytes):\n", 'K5',
      also=[(_C, "from gambit.seq import SEQ_TYPES, DNASeq, SequenceFile\n", "from gambit.seq import SEQ_TYPES, DNASeq, SequenceFile, seq_to_bytes\n")]),
    V('converted once, but the prefix is searched instead of the sequence', 'B', _C, "\tfor match in find_kmers(kmerspec, seq):\n", "\tseq_bytes = seq_to_bytes(kmerspec.prefix)\n\n\tfor match in find_kmers(kmerspec, seq_bytes):\n", 'K5',
      also=[(_C, "from gambit.seq import SEQ_TYPES, DNASeq, SequenceFile\n", "from gambit.seq import SEQ_TYPES, DNASeq, SequenceFile, seq_to_bytes\n")]),
    V('E: both strands searched by one loop over a table of (needle, start, end, offset, reverse)', 'E', _K, _FWD, "", also=[(_K, "\t# Find reverse\n\tprefix_rc = revcomp(kmerspec.prefix)\n" + _REV, _TBL)]),
    V('search table: reverse row starts at 0', 'B', _K, _FWD, "", 'K1', also=[(_K, "\t# Find reverse\n\tprefix_rc = revcomp(kmerspec.prefix)\n" + _REV, _TBL.replace("(revcomp(prefix), k, None,", "(revcomp(prefix), 0, None,"))]),
    V('search table: offset column swapped between the rows', 'B', _K, _FWD, "", 'K1',
      also=[(_K, "\t# Find reverse\n\tprefix_rc = revcomp(kmerspec.prefix)\n" + _REV, _TBL.replace("(prefix, 0, -k, 0, False)", "(prefix, 0, -k, kmerspec.prefix_len - 1, False)").replace("None, kmerspec.prefix_len - 1, True)", "None, 0, True)"))]),
    V('search table: forward row without the window end', 'B', _K, _FWD, "", 'K1', also=[(_K, "\t# Find reverse\n\tprefix_rc = revcomp(kmerspec.prefix)\n" + _REV, _TBL.replace("(prefix, 0, -k, 0, False)", "(prefix, 0, None, 0, False)"))]),
    V('search table: restart inside the shared loop skips overlaps', 'B', _K, _FWD, "", 'K1', also=[(_K, "\t# Find reverse\n\tprefix_rc = revcomp(kmerspec.prefix)\n" + _REV, _TBL.replace("loc + 1, end", "loc + len(needle), end"))]),
    V('search table: strand flags swapped', 'B', _K, _FWD, "", 'K1', also=[(_K, "\t# Find reverse\n\tprefix_rc = revcomp(kmerspec.prefix)\n" + _REV, _TBL.replace("0, False)", "0, True)").replace("- 1, True)", "- 1, False)"))]),
    # K7 __init__ / add through the values actually stored (arguments bound to locals first)
    V('E: dense array size and set element bound to locals first', 'E', _C, "\t\tself.array = np.zeros(nkmers(k), dtype=bool)\n", "\t\tsize = nkmers(k)\n\t\tself.array = np.zeros(size, dtype=bool)\n",
      also=[(_C, "\t\tself.set.add(self._dtype.type(index))\n", "\t\tvalue = self._dtype.type(index)\n\t\tself.set.add(value)\n")]),
    V('dense array size local one cell short', 'B', _C, "\t\tself.array = np.zeros(nkmers(k), dtype=bool)\n", "\t\tsize = nkmers(k) - 1\n\t\tself.array = np.zeros(size, dtype=bool)\n", 'K7'),
    V('set element local is the index shifted by one', 'B', _C, "\t\tself.set.add(self._dtype.type(index))\n", "\t\tvalue = self._dtype.type(index + 1)\n\t\tself.set.add(value)\n", 'K7'),
    V('dense add also clears the neighbouring cell', 'B', _C, "\t\tself.array[i] = True\n\n\tdef discard", "\t\tself.array[i] = True\n\t\tself.array[i - 1] = False\n\n\tdef discard", 'K7'),
    # ---- third round: helpers in other modules, library calls, decorators, lookup tables
    V('E: case folding in a helper of gambit.seq using a compiled character class', 'E', _K, "\thaystack = seq_to_bytes(seq)\n", "\thaystack = fold_case(seq_to_bytes(seq))\n", also=_FOLD_EDITS(_FOLDH)),
    V('case folding helper searches for the upper-case class', 'B', _K, "\thaystack = seq_to_bytes(seq)\n", "\thaystack = fold_case(seq_to_bytes(seq))\n", 'K6',
      also=_FOLD_EDITS(_FOLDH.replace("NUCLEOTIDES.lower()", "NUCLEOTIDES"))),
    V('case folding helper uses match(): only the first byte is looked at', 'B', _K, "\thaystack = seq_to_bytes(seq)\n", "\thaystack = fold_case(seq_to_bytes(seq))\n", 'K6',
      also=_FOLD_EDITS(_FOLDH.replace("_LOWER_RE.search(data)", "_LOWER_RE.match(data)"))),
    V('case folding helper inverted: upper() when nothing is lower case', 'B', _K, "\thaystack = seq_to_bytes(seq)\n", "\thaystack = fold_case(seq_to_bytes(seq))\n", 'K6',
      also=_FOLD_EDITS(_FOLDH.replace("is None:", "is not None:"))),
    V('case folding helper applied to the prefix instead of the sequence', 'B', _K, "\thaystack = seq_to_bytes(seq)\n", "\thaystack = seq_to_bytes(seq)\n\thaystack = fold_case(kmerspec.prefix)\n", 'K6',
      also=_FOLD_EDITS(_FOLDH)),
    V('E: one search loop over rows produced lazily by a generator', 'E', _K, _FWD, "", also=[(_K, "\t# Find reverse\n\tprefix_rc = revcomp(kmerspec.prefix)\n" + _REV, _GEN_LOOP),
      (_K, "def find_kmers(kmerspec: KmerSpec, seq: 'DNASeq') -> Iterator[KmerMatch]:", _GEN_ROWS + "def find_kmers(kmerspec: KmerSpec, seq: 'DNASeq') -> Iterator[KmerMatch]:")]),
    V('row generator: reverse search starts at 0', 'B', _K, _FWD, "", 'K1', also=[(_K, "\t# Find reverse\n\tprefix_rc = revcomp(kmerspec.prefix)\n" + _REV, _GEN_LOOP),
      (_K, "def find_kmers(kmerspec: KmerSpec, seq: 'DNASeq') -> Iterator[KmerMatch]:", _GEN_ROWS.replace("spec.k, None, True", "0, None, True") + "def find_kmers(kmerspec: KmerSpec, seq: 'DNASeq') -> Iterator[KmerMatch]:")]),
    V('row generator: position offset applied on the forward strand instead', 'B', _K, _FWD, "", 'K1', also=[(_K, "\t# Find reverse\n\tprefix_rc = revcomp(kmerspec.prefix)\n" + _REV, _GEN_LOOP.replace("if reverse else loc", "if not reverse else loc")),
      (_K, "def find_kmers(kmerspec: KmerSpec, seq: 'DNASeq') -> Iterator[KmerMatch]:", _GEN_ROWS + "def find_kmers(kmerspec: KmerSpec, seq: 'DNASeq') -> Iterator[KmerMatch]:")]),
    V('search loop condition constantly false (the search never runs)', 'B', _K, "\tstart = 0\n\n\twhile True:", "\tstart = 0\n\n\twhile not True:", 'K1'),
    V('find() called with needle and start swapped', 'B', _K, "haystack.find(kmerspec.prefix, start, -kmerspec.k)", "haystack.find(start, kmerspec.prefix, -kmerspec.k)", 'K1'),
    V('find() called on the needle with the haystack as argument', 'B', _K, "haystack.find(prefix_rc, start)", "prefix_rc.find(haystack, start)", 'K1'),
    V('E: match -> index -> skip moved into a generator of gambit.kmers, accumulate_kmers adds what it yields', 'E', _C, _ACC, "\tfor index in iter_indices(kmerspec, seq):\n\t\taccumulator.add(index)\n",
      also=[(_C, "from gambit.kmers import KmerSpec, find_kmers,", "from gambit.kmers import KmerSpec, find_kmers, iter_indices,"), (_K, _KEOF, _KEOF + _PROD)]),
    V('index generator stops at the first invalid k-mer', 'B', _C, _ACC, "\tfor index in iter_indices(kmerspec, seq):\n\t\taccumulator.add(index)\n", 'K5',
      also=[(_C, "from gambit.kmers import KmerSpec, find_kmers,", "from gambit.kmers import KmerSpec, find_kmers, iter_indices,"), (_K, _KEOF, _KEOF + _PROD.replace("\t\t\tcontinue\n", "\t\t\tbreak\n"))]),
    V('consumer of the index generator drops index 0 (truthiness test)', 'B', _C, _ACC, "\tfor index in iter_indices(kmerspec, seq):\n\t\tif index:\n\t\t\taccumulator.add(index)\n", 'K5',
      also=[(_C, "from gambit.kmers import KmerSpec, find_kmers,", "from gambit.kmers import KmerSpec, find_kmers, iter_indices,"), (_K, _KEOF, _KEOF + _PROD)]),
    V('index generator yields the match position instead of the index', 'B', _C, _ACC, "\tfor index in iter_indices(kmerspec, seq):\n\t\taccumulator.add(index)\n", 'K5',
      also=[(_C, "from gambit.kmers import KmerSpec, find_kmers,", "from gambit.kmers import KmerSpec, find_kmers, iter_indices,"), (_K, _KEOF, _KEOF + _PROD.replace("\t\tyield index\n", "\t\tyield match.pos\n"))]),
    V('E: dtype table computed at import by a generator expression with f-string codes', 'E', _K, _DT, "\tfor max_k, dtype in _DT_TABLE:\n\t\tif k <= max_k:\n\t\t\treturn dtype\n\n\treturn None\n",
      also=[(_K, "def index_dtype(k: int)", "_DT_TABLE = tuple((4 * nbytes, np.dtype(f'u{nbytes}')) for nbytes in (1, 2, 4, 8))\n\n\ndef index_dtype(k: int)")]),
    V('computed dtype table: two nucleotides per byte', 'B', _K, _DT, "\tfor max_k, dtype in _DT_TABLE:\n\t\tif k <= max_k:\n\t\t\treturn dtype\n\n\treturn None\n", 'K8',
      also=[(_K, "def index_dtype(k: int)", "_DT_TABLE = tuple((2 * nbytes, np.dtype(f'u{nbytes}')) for nbytes in (1, 2, 4, 8))\n\n\ndef index_dtype(k: int)")]),
    V('computed dtype table: signed types', 'B', _K, _DT, "\tfor max_k, dtype in _DT_TABLE:\n\t\tif k <= max_k:\n\t\t\treturn dtype\n\n\treturn None\n", 'K8',
      also=[(_K, "def index_dtype(k: int)", "_DT_TABLE = tuple((4 * nbytes, np.dtype(f'i{nbytes}')) for nbytes in (1, 2, 4, 8))\n\n\ndef index_dtype(k: int)")]),
    V('E: kmer_index encodes what kmer() returns (reverse-complement law)', 'E', _K, _KI, "\t\treturn kmer_to_index(self.kmer())"),
    V('kmer_index applies the rc encoder to what kmer() returns (complemented twice)', 'B', _K, _KI, "\t\treturn kmer_to_index_rc(self.kmer())", 'K4'),
    V('kmer_index encodes kmer() while kmer() no longer reverse-complements', 'B', _K, _KI, "\t\treturn kmer_to_index(self.kmer())", 'K4',
      also=[(_K, "\t\treturn revcomp(kmer) if self.reverse else kmer", "\t\treturn kmer")]),
    V('E: seq_to_bytes looks the exact type up in a converter table first', 'E', _SQ, _S2B, _S2B_TBL_USE + _S2B, also=[(_SQ, "def seq_to_bytes(seq: 'DNASeq')", _S2B_TBL + "def seq_to_bytes(seq: 'DNASeq')")]),
    V('converter table maps str to bytes()', 'B', _SQ, _S2B, _S2B_TBL_USE + _S2B, 'K10', also=[(_SQ, "def seq_to_bytes(seq: 'DNASeq')", _S2B_TBL.replace("str: _encode_ascii", "str: bytes") + "def seq_to_bytes(seq: 'DNASeq')")]),
    V('converter table only: instances of subclasses are rejected', 'B', _SQ, _S2B, _S2B_TBL_USE + "\traise TypeError(f'Expected sequence type, got {type(seq)}')\n", 'K10',
      also=[(_SQ, "def seq_to_bytes(seq: 'DNASeq')", _S2B_TBL + "def seq_to_bytes(seq: 'DNASeq')")]),
    V('converter table lower-cases str on the way', 'B', _SQ, _S2B, _S2B_TBL_USE + _S2B, 'K10',
      also=[(_SQ, "def seq_to_bytes(seq: 'DNASeq')", _S2B_TBL.replace("return seq.encode('ascii')", "return seq.lower().encode('ascii')") + "def seq_to_bytes(seq: 'DNASeq')")]),
    # ---- fifth round: the table of searches as a dict (entries with equal keys overwrite each other)
    V('per-strand dict keyed by the search string, tuple values (seeded C01e): palindromic prefix loses the forward strand', 'B', _K, _FWD, "", 'K1',
      also=[(_K, "\t# Find reverse\n\tprefix_rc = revcomp(kmerspec.prefix)\n" + _REV, _DICT_NEEDLE), (_K, "def find_kmers(kmerspec: KmerSpec, seq: 'DNASeq') -> Iterator[KmerMatch]:", _FINDALL_D + "def find_kmers(kmerspec: KmerSpec, seq: 'DNASeq') -> Iterator[KmerMatch]:")]),
    V('per-strand dict keyed by the search string, NamedTuple values (seeded C06e)', 'B', _K, _FWD, "", 'K1',
      also=[(_K, "\t# Find reverse\n\tprefix_rc = revcomp(kmerspec.prefix)\n" + _REV, _DICT_NT.replace("'fwd': StrandSearch", "kmerspec.prefix: StrandSearch").replace("'rev': StrandSearch", "revcomp(kmerspec.prefix): StrandSearch").replace("for search in searches.values():", "for pattern, search in searches.items():").replace("search.pattern, ", "pattern, ").replace("(kmerspec.prefix, False", "(False").replace("(revcomp(kmerspec.prefix), True", "(True")),
            (_K, "def find_kmers(kmerspec: KmerSpec, seq: 'DNASeq') -> Iterator[KmerMatch]:", _NT.replace("\tpattern: bytes\n", "") + _FINDALL_D + "def find_kmers(kmerspec: KmerSpec, seq: 'DNASeq') -> Iterator[KmerMatch]:"),
            (_K, "from typing import Optional, Any, Iterator\n", "from typing import Optional, Any, Iterator, NamedTuple\n")]),
    V('dict(...) of pairs keyed by the search string', 'B', _K, _FWD, "", 'K1',
      also=[(_K, "\t# Find reverse\n\tprefix_rc = revcomp(kmerspec.prefix)\n" + _REV, _DICT_NEEDLE.replace("strands = {\n\t\tkmerspec.prefix: (False, 0, -kmerspec.k),\n\t\trevcomp(kmerspec.prefix): (True, kmerspec.k, None),\n\t}\n", "strands = dict([(kmerspec.prefix, (False, 0, -kmerspec.k)), (revcomp(kmerspec.prefix), (True, kmerspec.k, None))])\n")),
            (_K, "def find_kmers(kmerspec: KmerSpec, seq: 'DNASeq') -> Iterator[KmerMatch]:", _FINDALL_D + "def find_kmers(kmerspec: KmerSpec, seq: 'DNASeq') -> Iterator[KmerMatch]:")]),
    V('E: the same table as a list of (search string, parameters) pairs - every row is executed', 'E', _K, _FWD, "",
      also=[(_K, "\t# Find reverse\n\tprefix_rc = revcomp(kmerspec.prefix)\n" + _REV, _DICT_NEEDLE.replace("strands = {\n\t\tkmerspec.prefix: (False, 0, -kmerspec.k),\n\t\trevcomp(kmerspec.prefix): (True, kmerspec.k, None),\n\t}\n", "strands = [\n\t\t(kmerspec.prefix, (False, 0, -kmerspec.k)),\n\t\t(revcomp(kmerspec.prefix), (True, kmerspec.k, None)),\n\t]\n").replace("in strands.items():", "in strands:")),
            (_K, "def find_kmers(kmerspec: KmerSpec, seq: 'DNASeq') -> Iterator[KmerMatch]:", _FINDALL_D + "def find_kmers(kmerspec: KmerSpec, seq: 'DNASeq') -> Iterator[KmerMatch]:")]),
    V('E: per-strand dict keyed by the strand flag False / True', 'E', _K, _FWD, "",
      also=[(_K, "\t# Find reverse\n\tprefix_rc = revcomp(kmerspec.prefix)\n" + _REV, _DICT_FLAG), (_K, "def find_kmers(kmerspec: KmerSpec, seq: 'DNASeq') -> Iterator[KmerMatch]:", _FINDALL_D + "def find_kmers(kmerspec: KmerSpec, seq: 'DNASeq') -> Iterator[KmerMatch]:")]),
    V('dict keyed by the strand flag: reverse search starts at 0', 'B', _K, _FWD, "", 'K1',
      also=[(_K, "\t# Find reverse\n\tprefix_rc = revcomp(kmerspec.prefix)\n" + _REV, _DICT_FLAG.replace("(revcomp(kmerspec.prefix), kmerspec.k, None)", "(revcomp(kmerspec.prefix), 0, None)")),
            (_K, "def find_kmers(kmerspec: KmerSpec, seq: 'DNASeq') -> Iterator[KmerMatch]:", _FINDALL_D + "def find_kmers(kmerspec: KmerSpec, seq: 'DNASeq') -> Iterator[KmerMatch]:")]),
    V('dict keyed by the strand flag, both entries under the key True', 'B', _K, _FWD, "", 'K1',
      also=[(_K, "\t# Find reverse\n\tprefix_rc = revcomp(kmerspec.prefix)\n" + _REV, _DICT_FLAG.replace("\t\tFalse: (kmerspec.prefix", "\t\tTrue: (kmerspec.prefix")),
            (_K, "def find_kmers(kmerspec: KmerSpec, seq: 'DNASeq') -> Iterator[KmerMatch]:", _FINDALL_D + "def find_kmers(kmerspec: KmerSpec, seq: 'DNASeq') -> Iterator[KmerMatch]:")]),
    V("E: per-strand dict keyed 'fwd' / 'rev' with NamedTuple rows, iterated by .values()", 'E', _K, _FWD, "",
      also=[(_K, "\t# Find reverse\n\tprefix_rc = revcomp(kmerspec.prefix)\n" + _REV, _DICT_NT), (_K, "def find_kmers(kmerspec: KmerSpec, seq: 'DNASeq') -> Iterator[KmerMatch]:", _NT + _FINDALL_D + "def find_kmers(kmerspec: KmerSpec, seq: 'DNASeq') -> Iterator[KmerMatch]:"),
            (_K, "from typing import Optional, Any, Iterator\n", "from typing import Optional, Any, Iterator, NamedTuple\n")]),
    V("NamedTuple rows: position offset fields swapped between the strands", 'B', _K, _FWD, "", 'K1',
      also=[(_K, "\t# Find reverse\n\tprefix_rc = revcomp(kmerspec.prefix)\n" + _REV, _DICT_NT.replace("False, 0, -kmerspec.k, 0)", "False, 0, -kmerspec.k, kmerspec.prefix_len - 1)").replace("None, kmerspec.prefix_len - 1)", "None, 0)")),
            (_K, "def find_kmers(kmerspec: KmerSpec, seq: 'DNASeq') -> Iterator[KmerMatch]:", _NT + _FINDALL_D + "def find_kmers(kmerspec: KmerSpec, seq: 'DNASeq') -> Iterator[KmerMatch]:"),
            (_K, "from typing import Optional, Any, Iterator\n", "from typing import Optional, Any, Iterator, NamedTuple\n")]),
    # ---- fourth round: bugs hidden inside refactorings
    V('E: searches through a generator that returns on the miss and restarts by reassigning its parameter', 'E', _K, _FWD, "\tk = kmerspec.k\n\tseqlen = len(haystack)\n\n\tfor loc in _find_all(haystack, kmerspec.prefix, 0, -k):\n\t\tyield KmerMatch(kmerspec, seq, loc, False)\n",
      also=[(_K, _REV, "\tfor loc in _find_all(haystack, prefix_rc, k, seqlen):\n\t\tyield KmerMatch(kmerspec, seq, loc + kmerspec.prefix_len - 1, True)\n"),
            (_K, "def find_kmers(kmerspec: KmerSpec, seq: 'DNASeq') -> Iterator[KmerMatch]:", _FINDALL + "def find_kmers(kmerspec: KmerSpec, seq: 'DNASeq') -> Iterator[KmerMatch]:")]),
    V('E: the same generator with a default end for the reverse search', 'E', _K, _FWD, "\tfor loc in _find_all(haystack, kmerspec.prefix, 0, -kmerspec.k):\n\t\tyield KmerMatch(kmerspec, seq, loc, False)\n",
      also=[(_K, _REV, "\tfor loc in _find_all(haystack, prefix_rc, kmerspec.k):\n\t\tyield KmerMatch(kmerspec, seq, loc + kmerspec.prefix_len - 1, True)\n"),
            (_K, "def find_kmers(kmerspec: KmerSpec, seq: 'DNASeq') -> Iterator[KmerMatch]:", _FINDALL.replace("start: int, end: int)", "start: int, end=None)") + "def find_kmers(kmerspec: KmerSpec, seq: 'DNASeq') -> Iterator[KmerMatch]:")]),
    V('shared search generator given the absolute end seqlen - k (negative for short sequences; seeded C01d)', 'B', _K, _FWD,
      "\tk = kmerspec.k\n\tseqlen = len(haystack)\n\n\tfor loc in _find_all(haystack, kmerspec.prefix, 0, seqlen - k):\n\t\tyield KmerMatch(kmerspec, seq, loc, False)\n", 'K1',
      also=[(_K, _REV, "\tfor loc in _find_all(haystack, prefix_rc, k, seqlen):\n\t\tyield KmerMatch(kmerspec, seq, loc + kmerspec.prefix_len - 1, True)\n"),
            (_K, "def find_kmers(kmerspec: KmerSpec, seq: 'DNASeq') -> Iterator[KmerMatch]:", _FINDALL + "def find_kmers(kmerspec: KmerSpec, seq: 'DNASeq') -> Iterator[KmerMatch]:")]),
    V('shared search generator restarts after the whole needle', 'B', _K, _FWD, "\tk = kmerspec.k\n\tseqlen = len(haystack)\n\n\tfor loc in _find_all(haystack, kmerspec.prefix, 0, -k):\n\t\tyield KmerMatch(kmerspec, seq, loc, False)\n", 'K1',
      also=[(_K, _REV, "\tfor loc in _find_all(haystack, prefix_rc, k, seqlen):\n\t\tyield KmerMatch(kmerspec, seq, loc + kmerspec.prefix_len - 1, True)\n"),
            (_K, "def find_kmers(kmerspec: KmerSpec, seq: 'DNASeq') -> Iterator[KmerMatch]:", _FINDALL.replace("start = loc + 1", "start = loc + len(needle)") + "def find_kmers(kmerspec: KmerSpec, seq: 'DNASeq') -> Iterator[KmerMatch]:")]),
    V('consumer of the search generator stops at the first occurrence', 'B', _K, _FWD, "\tk = kmerspec.k\n\tseqlen = len(haystack)\n\n\tfor loc in _find_all(haystack, kmerspec.prefix, 0, -k):\n\t\tyield KmerMatch(kmerspec, seq, loc, False)\n\t\tbreak\n", 'K1',
      also=[(_K, _REV, "\tfor loc in _find_all(haystack, prefix_rc, k, seqlen):\n\t\tyield KmerMatch(kmerspec, seq, loc + kmerspec.prefix_len - 1, True)\n"),
            (_K, "def find_kmers(kmerspec: KmerSpec, seq: 'DNASeq') -> Iterator[KmerMatch]:", _FINDALL + "def find_kmers(kmerspec: KmerSpec, seq: 'DNASeq') -> Iterator[KmerMatch]:")]),
    V('E: accumulators as attrs classes, storage from factory= / __attrs_post_init__', 'E', _C, "\n\tset: set\n\n\tdef __init__(self, k: int):\n\t\tself.k = k\n\t\tself.set = set()\n\t\tself._dtype = index_dtype(self.k)\n",
      "\tset: set = attrib(init=False, repr=False, factory=set)\n", also=_ATTRS_EDITS),
    V('attrs accumulator: the set is a shared default (seeded C06d)', 'B', _C, "\n\tset: set\n\n\tdef __init__(self, k: int):\n\t\tself.k = k\n\t\tself.set = set()\n\t\tself._dtype = index_dtype(self.k)\n",
      "\tset: set = attrib(init=False, repr=False, default=set())\n", 'K7', also=_ATTRS_EDITS),
    V('attrs accumulator: the dense array post-init does not run the base set-up (no dtype)', 'B', _C, "\n\tset: set\n\n\tdef __init__(self, k: int):\n\t\tself.k = k\n\t\tself.set = set()\n\t\tself._dtype = index_dtype(self.k)\n",
      "\tset: set = attrib(init=False, repr=False, factory=set)\n", 'K7', also=[(f, o, n.replace("\t\tsuper().__attrs_post_init__()\n", "")) for (f, o, n) in _ATTRS_EDITS]),
    V('attrs accumulator: dtype taken for a fixed k in the base set-up', 'B', _C, "\n\tset: set\n\n\tdef __init__(self, k: int):\n\t\tself.k = k\n\t\tself.set = set()\n\t\tself._dtype = index_dtype(self.k)\n",
      "\tset: set = attrib(init=False, repr=False, factory=set)\n", 'K7', also=[(f, o, n.replace("self._dtype = index_dtype(self.k)\n\n\tdef add_kmer", "self._dtype = index_dtype(11)\n\n\tdef add_kmer")) for (f, o, n) in _ATTRS_EDITS]),
    # ---- generalised forms (each accepted idiom with its broken twin)
    # K1: the search as a trace - rotated loop (priming find, hit test as loop condition)
    V('E: forward search as priming find + while loc >= 0', 'E', _K, _FWD, _FWD_ROT),
    V('rotated forward loop restarts after the whole prefix', 'B', _K, _FWD, _FWD_ROT.replace("loc + 1, -kmerspec.k", "loc + kmerspec.prefix_len, -kmerspec.k"), 'K1'),
    V('rotated forward loop: window of the restart find one too long', 'B', _K, _FWD, _FWD_ROT.replace("loc + 1, -kmerspec.k", "loc + 1, -kmerspec.k + 1"), 'K1'),
    V('rotated forward loop: priming find starts at 1', 'B', _K, _FWD, _FWD_ROT.replace("kmerspec.prefix, 0, -kmerspec.k", "kmerspec.prefix, 1, -kmerspec.k"), 'K1'),
    V('rotated forward loop: while loc > 0 drops the occurrence at position 0', 'B', _K, _FWD, _FWD_ROT.replace("while loc >= 0", "while loc > 0"), 'K1'),
    V('rotated forward loop: restart find without window end', 'B', _K, _FWD, _FWD_ROT.replace("loc + 1, -kmerspec.k", "loc + 1"), 'K1'),
    V('E: reverse search with the find in the loop condition (walrus)', 'E', _K, _REV,
      "\tstart = kmerspec.k\n\n\twhile (loc := haystack.find(prefix_rc, start)) >= 0:\n\t\tyield KmerMatch(kmerspec, seq, loc + kmerspec.prefix_len - 1, True)\n\t\tstart = loc + 1\n"),
    V('walrus reverse search reports the stale start instead of the hit', 'B', _K, _REV,
      "\tstart = kmerspec.k\n\n\twhile (loc := haystack.find(prefix_rc, start)) >= 0:\n\t\tyield KmerMatch(kmerspec, seq, start + kmerspec.prefix_len - 1, True)\n\t\tstart = loc + 1\n", 'K1'),
    V('E: hit branch nested under the hit test, miss falls to the break', 'E', _K, _REV,
      "\tstart = kmerspec.k\n\n\twhile True:\n\t\tloc = haystack.find(prefix_rc, start)\n\t\tif loc >= 0:\n\t\t\tyield KmerMatch(kmerspec, seq, loc + kmerspec.prefix_len - 1, True)\n\t\t\tstart = loc + 1\n\t\t\tcontinue\n\t\tbreak\n"),
    V('hit branch nested under the hit test, miss never leaves the loop', 'B', _K, _REV,
      "\tstart = kmerspec.k\n\n\twhile True:\n\t\tloc = haystack.find(prefix_rc, start)\n\t\tif loc >= 0:\n\t\t\tyield KmerMatch(kmerspec, seq, loc + kmerspec.prefix_len - 1, True)\n\t\t\tstart = loc + 1\n", 'K1'),
    V('E: searches through a generator helper', 'E', _K, _FWD, "\tfor loc in _occurrences(haystack, kmerspec.prefix, 0, -kmerspec.k):\n\t\tyield KmerMatch(kmerspec, seq, loc, False)\n",
      also=[(_K, "def find_kmers(kmerspec: KmerSpec, seq: 'DNASeq') -> Iterator[KmerMatch]:", _HELPER + "def find_kmers(kmerspec: KmerSpec, seq: 'DNASeq') -> Iterator[KmerMatch]:")]),
    V('generator helper skips overlapping occurrences', 'B', _K, _FWD, "\tfor loc in _occurrences(haystack, kmerspec.prefix, 0, -kmerspec.k):\n\t\tyield KmerMatch(kmerspec, seq, loc, False)\n", 'K1',
      also=[(_K, "def find_kmers(kmerspec: KmerSpec, seq: 'DNASeq') -> Iterator[KmerMatch]:", _HELPER.replace("at + 1, end", "at + len(sub), end") + "def find_kmers(kmerspec: KmerSpec, seq: 'DNASeq') -> Iterator[KmerMatch]:")]),
    V('every second occurrence yielded', 'B', _K, "\t\tyield KmerMatch(kmerspec, seq, loc, False)\n", "\t\tif loc % 2 == 0:\n\t\t\tyield KmerMatch(kmerspec, seq, loc, False)\n", 'K1'),
    # K1: early return for sequences that cannot hold a match
    V('E: early return when shorter than prefix + k', 'E', _K, "\thaystack = seq_to_bytes(seq)\n", "\thaystack = seq_to_bytes(seq)\n\tif len(haystack) < kmerspec.total_len:\n\t\treturn\n"),
    V('E: early return when shorter than k (weaker bound)', 'E', _K, "\thaystack = seq_to_bytes(seq)\n", "\thaystack = seq_to_bytes(seq)\n\tmin_len = kmerspec.k\n\tif min_len > len(haystack):\n\t\treturn\n"),
    V('early return drops sequences of exactly prefix + k', 'B', _K, "\thaystack = seq_to_bytes(seq)\n", "\thaystack = seq_to_bytes(seq)\n\tif len(haystack) <= kmerspec.total_len:\n\t\treturn\n", 'K1'),
    V('early return for sequences shorter than twice the total length', 'B', _K, "\thaystack = seq_to_bytes(seq)\n", "\thaystack = seq_to_bytes(seq)\n\tif len(haystack) < 2 * kmerspec.total_len:\n\t\treturn\n", 'K1'),
    V('early return between the two searches', 'B', _K, "\t# Find reverse\n", "\tif kmerspec.k > 16:\n\t\treturn\n", 'K1'),
    # K6: "some byte of the haystack is a lower-case nucleotide", in any spelling of the existential
    V('E: any() over the haystack bytes', 'E', _K, _FOLD, "\tnucs_lower = NUCLEOTIDES.lower()\n\tif any(char in nucs_lower for char in haystack):\n\t\thaystack = haystack.upper()\n"),
    V('E: any() over the four lower-case codes (quantifiers swapped)', 'E', _K, _FOLD, "\tif any(nuc in haystack for nuc in NUCLEOTIDES.lower()):\n\t\thaystack = haystack.upper()\n"),
    V('all() instead of any(): mixed-case input not folded', 'B', _K, _FOLD, "\tnucs_lower = NUCLEOTIDES.lower()\n\tif all(char in nucs_lower for char in haystack):\n\t\thaystack = haystack.upper()\n", 'K6'),
    V('any() over the upper-case codes', 'B', _K, _FOLD, "\tif any(nuc in haystack for nuc in NUCLEOTIDES):\n\t\thaystack = haystack.upper()\n", 'K6'),
    V('any() guard looks at the prefix, not at the haystack', 'B', _K, _FOLD, "\tif any(nuc in kmerspec.prefix for nuc in NUCLEOTIDES.lower()):\n\t\thaystack = haystack.upper()\n", 'K6'),
    V('upper() of another value assigned to the haystack', 'B', _K, _FOLD, "\tif any(nuc in haystack for nuc in NUCLEOTIDES.lower()):\n\t\thaystack = kmerspec.prefix.upper()\n", 'K6'),
    # K2 / K4: values bound to locals, guard clause instead of else, function selected first
    V('E: slice bounds through locals, guard clause', 'E', _K, _IDX,
      "\t\tspec = self.kmerspec\n\t\tif self.reverse:\n\t\t\tstop = self.pos - spec.prefix_len + 1\n\t\t\treturn slice(stop - spec.k, stop)\n\t\tstart = self.pos + spec.prefix_len\n\t\treturn slice(start, start + spec.k)\n"),
    V('slice bounds through locals: reverse start subtracts total_len from the stop', 'B', _K, _IDX,
      "\t\tspec = self.kmerspec\n\t\tif self.reverse:\n\t\t\tstop = self.pos - spec.prefix_len + 1\n\t\t\treturn slice(stop - spec.total_len, stop)\n\t\tstart = self.pos + spec.prefix_len\n\t\treturn slice(start, start + spec.k)\n", 'K2'),
    V('E: bounds selected by conditional expressions', 'E', _K, _IDX,
      "\t\tplen, k = self.kmerspec.prefix_len, self.kmerspec.k\n\t\tstart = self.pos - plen - k + 1 if self.reverse else self.pos + plen\n\t\treturn slice(start, start + k)\n"),
    V('bounds selected by conditional expressions, arms swapped', 'B', _K, _IDX,
      "\t\tplen, k = self.kmerspec.prefix_len, self.kmerspec.k\n\t\tstart = self.pos + plen if self.reverse else self.pos - plen - k + 1\n\t\treturn slice(start, start + k)\n", 'K2'),
    V('E: k-mer range trimmed from the full range', 'E', _K, _IDX,
      "\t\tif self.reverse:\n\t\t\tstop = self.pos + 1\n\t\t\tstart = stop - self.kmerspec.total_len\n\t\telse:\n\t\t\tstart = self.pos\n\t\t\tstop = start + self.kmerspec.total_len\n"
      "\t\tif self.reverse:\n\t\t\treturn slice(start, stop - self.kmerspec.prefix_len)\n\t\treturn slice(start + self.kmerspec.prefix_len, stop)\n"),
    V('k-mer range trimmed from the wrong end of the full range', 'B', _K, _IDX,
      "\t\tif self.reverse:\n\t\t\tstop = self.pos + 1\n\t\t\tstart = stop - self.kmerspec.total_len\n\t\telse:\n\t\t\tstart = self.pos\n\t\t\tstop = start + self.kmerspec.total_len\n"
      "\t\tif not self.reverse:\n\t\t\treturn slice(start, stop - self.kmerspec.prefix_len)\n\t\treturn slice(start + self.kmerspec.prefix_len, stop)\n", 'K2'),
    V('E: encoder selected first, then applied', 'E', _K, "\t\tkmer = self.seq[self.kmer_indices()]\n\t\treturn kmer_to_index_rc(kmer) if self.reverse else kmer_to_index(kmer)",
      "\t\tto_index = kmer_to_index_rc if self.reverse else kmer_to_index\n\t\treturn to_index(self.seq[self.kmer_indices()])"),
    V('encoder selected first, arms swapped', 'B', _K, "\t\tkmer = self.seq[self.kmer_indices()]\n\t\treturn kmer_to_index_rc(kmer) if self.reverse else kmer_to_index(kmer)",
      "\t\tto_index = kmer_to_index if self.reverse else kmer_to_index_rc\n\t\treturn to_index(self.seq[self.kmer_indices()])", 'K4'),
    V('encoder selected first, applied to the full match', 'B', _K, "\t\tkmer = self.seq[self.kmer_indices()]\n\t\treturn kmer_to_index_rc(kmer) if self.reverse else kmer_to_index(kmer)",
      "\t\tto_index = kmer_to_index_rc if self.reverse else kmer_to_index\n\t\treturn to_index(self.seq[self.full_indices()])", 'K4'),
    # K7: sorted copy instead of in-place sort
    V('E: np.sort of the array built from the set, preallocated', 'E', _C, _SIG, "\t\tunsorted = np.fromiter(self.set, dtype=self._dtype, count=len(self.set))\n\t\treturn np.sort(unsorted)\n"),
    V('np.sort result discarded, unsorted array returned', 'B', _C, _SIG, "\t\tunsorted = np.fromiter(self.set, dtype=self._dtype, count=len(self.set))\n\t\tnp.sort(unsorted)\n\t\treturn unsorted\n", 'K7'),
    V('preallocation count one short (largest index dropped)', 'B', _C, _SIG, "\t\tunsorted = np.fromiter(self.set, dtype=self._dtype, count=len(self.set) - 1)\n\t\treturn np.sort(unsorted)\n", 'K7'),
    V('np.sort of an array with the default dtype', 'B', _C, _SIG, "\t\tunsorted = np.fromiter(self.set, dtype=int)\n\t\treturn np.sort(unsorted)\n", 'K7'),
    # K9: the single-sequence case and the default accumulator in other spellings
    V('E: one-element tuple bound to a new local by a conditional expression', 'E', _C, _CS,
      "\tif accumulator is None:\n\t\taccumulator = default_accumulator(kmerspec.k)\n\n\tseq_iter = (seqs,) if isinstance(seqs, SEQ_TYPES) else seqs\n\n\tfor seq in seq_iter:\n\t\taccumulate_kmers(accumulator, kmerspec, seq)\n\n\treturn accumulator.signature()\n"),
    V('conditional expression wraps the collection and iterates the single sequence', 'B', _C, _CS,
      "\tif accumulator is None:\n\t\taccumulator = default_accumulator(kmerspec.k)\n\n\tseq_iter = seqs if isinstance(seqs, SEQ_TYPES) else (seqs,)\n\n\tfor seq in seq_iter:\n\t\taccumulate_kmers(accumulator, kmerspec, seq)\n\n\treturn accumulator.signature()\n", 'K9'),
    V('E: direct call for a single sequence, loop otherwise, accumulator in a new local', 'E', _C, _CS,
      "\tacc = default_accumulator(kmerspec.k) if accumulator is None else accumulator\n\n\tif isinstance(seqs, SEQ_TYPES):\n\t\taccumulate_kmers(acc, kmerspec, seqs)\n\telse:\n\t\tfor seq in seqs:\n\t\t\taccumulate_kmers(acc, kmerspec, seq)\n\n\treturn acc.signature()\n"),
    V('direct call for a single sequence, then the loop runs over its characters as well', 'B', _C, _CS,
      "\tacc = default_accumulator(kmerspec.k) if accumulator is None else accumulator\n\n\tif isinstance(seqs, SEQ_TYPES):\n\t\taccumulate_kmers(acc, kmerspec, seqs)\n\tfor seq in seqs:\n\t\taccumulate_kmers(acc, kmerspec, seq)\n\n\treturn acc.signature()\n", 'K9'),
    V('new local for the accumulator, result taken from the parameter', 'B', _C, _CS,
      "\tacc = default_accumulator(kmerspec.k) if accumulator is None else accumulator\n\n\tif isinstance(seqs, SEQ_TYPES):\n\t\taccumulate_kmers(acc, kmerspec, seqs)\n\telse:\n\t\tfor seq in seqs:\n\t\t\taccumulate_kmers(acc, kmerspec, seq)\n\n\treturn accumulator.signature()\n", 'K9'),
    V('default accumulator chosen by truthiness (an empty accumulator passed in is replaced)', 'B', _C, _CS,
      "\tacc = accumulator or default_accumulator(kmerspec.k)\n\n\tif isinstance(seqs, SEQ_TYPES):\n\t\taccumulate_kmers(acc, kmerspec, seqs)\n\telse:\n\t\tfor seq in seqs:\n\t\t\taccumulate_kmers(acc, kmerspec, seq)\n\n\treturn acc.signature()\n", 'K9'),
    V('a second default accumulator is created for the result', 'B', _C, _CS,
      "\tif isinstance(seqs, SEQ_TYPES):\n\t\tseqs = [seqs]\n\n\tfor seq in seqs:\n\t\taccumulate_kmers(default_accumulator(kmerspec.k) if accumulator is None else accumulator, kmerspec, seq)\n\n"
      "\treturn (default_accumulator(kmerspec.k) if accumulator is None else accumulator).signature()\n", 'K9'),
    V('default accumulator built for the wrong k', 'B', _C, _CS,
      "\tacc = default_accumulator(kmerspec.total_len) if accumulator is None else accumulator\n\n\tif isinstance(seqs, SEQ_TYPES):\n\t\taccumulate_kmers(acc, kmerspec, seqs)\n\telse:\n\t\tfor seq in seqs:\n\t\t\taccumulate_kmers(acc, kmerspec, seq)\n\n\treturn acc.signature()\n", 'K9'),
]
