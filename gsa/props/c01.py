"""C01 - a signature is exactly the set of prefix-anchored k-mers on both strands.

K1 search loops (window, restart, exit, yielded position/strand)   K2 slice arithmetic (+K2.0 harvest)
K3 composition and bounds   K4 strand dispatch   K5 skip discipline   K6 case folding
K7 accumulator siblings   K8 dtype table (evaluated for every k in 1..32)   K9 per-sequence loop   K10 input types
"""
import ast

from ..affine import Aff, sym, const, NotAffine
from ..astutil import (u, atoms, guard_map, path_atoms, stmts_in, calls_in, callee, callee_attr, reaching_def, def_value,
                       PARAM, AMBIGUOUS, raised_name, assigns_to, get_arg, walk_no_nested, is_const, block_path,
                       find_parent_map, always_exits)
from ..mini import Mini, Return
from ..report import Undecided
from . import c07

K, P = sym('K'), sym('P')
SPEC_ENV_SUFFIX = {'k': K, 'prefix_len': P, 'total_len': K.add(P)}


def spec_env(base):
    """Affine env for attribute reads of a KmerSpec reachable as `base` (e.g. 'kmerspec', 'self.kmerspec')."""
    env = {f'{base}.{a}': v for a, v in SPEC_ENV_SUFFIX.items()}
    env[f'len({base}.prefix)'] = P
    return env


def straightline_env(func, env):
    """Copy-propagate single-assignment locals whose value is affine under env."""
    env = dict(env)
    for s in func.body:
        if isinstance(s, ast.Assign) and len(s.targets) == 1 and isinstance(s.targets[0], ast.Name):
            name = s.targets[0].id
            if len(assigns_to(func, name)) == 1:
                a = Aff.try_of(s.value, env)
                if a is not None:
                    env[name] = a
    return env


# ------------------------------------------------------------------------------------------------ K2.0
def harvest_kmerspec(ctx):
    rep, m = ctx.rep, ctx.model
    fi = m.func('gambit.kmers.KmerSpec.__init__')
    rep.functions.add(fi.qualname)
    calls = [c for c in calls_in(fi.node) if callee_attr(c) == '__attrs_init__']
    rep.require(len(calls) == 1, 'KmerSpec.__init__: no single __attrs_init__ call')
    call = calls[0]
    kw = {k.arg: k.value for k in call.keywords}
    params = fi.params()
    rep.require(params[:3] == ['self', 'k', 'prefix'], f'KmerSpec.__init__ parameters changed: {params}')
    env = {'k': K, 'len(prefix)': P}
    want = {'k': K, 'prefix_len': P, 'total_len': K.add(P)}
    for name, w in want.items():
        v = Aff.try_of(kw[name], env) if name in kw else None
        rep.add('K2.0', fi.site(call), f'KmerSpec.{name} is defined as {w}', v == w, expected=w, found=v if v is not None else u(kw.get(name)),
                stmt=f'__attrs_init__({name}=)')
    # prefix attribute: upper-cased bytes of the argument, validated
    st = next(s for s in stmts_in(fi.node.body) if any(x is call for x in ast.walk(s)))
    pv = kw.get('prefix')
    ok = False
    found = u(pv)
    if isinstance(pv, ast.Name):
        d = reaching_def(fi.node, pv.id, st)
        v = def_value(d) if d not in (None, PARAM, AMBIGUOUS) else None
        found = u(v) if v is not None else str(d)
        ok = isinstance(v, ast.Call) and callee_attr(v) == 'upper' and isinstance(v.func.value, ast.Call) \
            and m.resolve_call(fi, v.func.value) == 'gambit.seq.seq_to_bytes'
    rep.add('K6', fi.site(call), 'the stored prefix is the upper-cased byte form of the argument (needle is upper-case)', ok,
            expected='seq_to_bytes(prefix).upper()', found=found, stmt='__attrs_init__(prefix=)')
    val = [c for c in calls_in(fi.node) if m.resolve_call(fi, c) == 'gambit.seq.validate_dna_seq_bytes']
    rep.add('K2.0', fi.site(val[0] if val else call), 'the prefix is validated to contain only ACGT', bool(val), expected='validate_dna_seq_bytes(prefix)',
            found=[u(c) for c in val], stmt='validate prefix')
    gm = guard_map(fi.node)
    at = path_atoms(gm[st], key=lambda n: str(Aff.try_of(n, env)) if Aff.try_of(n, env) is not None else u(n))
    rep.add('K2.0', fi.site(call), 'k >= 1 is enforced', ('le', '1', 'K') in at or ('lt', '0', 'K') in at, expected='k >= 1', found=sorted(at), stmt='k guard')
    # index_dtype / nkmers attributes come from the functions analysed under K8
    for name, fn in (('index_dtype', 'gambit.kmers.index_dtype'), ('nkmers', 'gambit.kmers.nkmers')):
        v = kw.get(name)
        ok = isinstance(v, ast.Call) and m.resolve_call(fi, v) == fn and [u(a) for a in v.args] == ['k']
        rep.add('K2.0', fi.site(call), f'KmerSpec.{name} = {fn.rsplit(".", 1)[1]}(k)', ok, expected=f'{name}(k)', found=u(v), stmt=f'__attrs_init__({name}=)')


# ------------------------------------------------------------------------------------------------ K1
def analyse_search_loops(ctx):
    rep, m = ctx.rep, ctx.model
    fi = m.func('gambit.kmers.find_kmers')
    rep.functions.add(fi.qualname)
    fn = fi.node
    params = fi.params()
    rep.require(len(params) == 2, 'find_kmers: expected (kmerspec, seq)')
    spec, seqp = params
    env = straightline_env(fn, spec_env(spec))
    gm = guard_map(fn)
    pm = find_parent_map(fn)
    loops = []
    for s in fn.body:
        if isinstance(s, ast.While):
            finds = [c for c in calls_in(s) if callee_attr(c) == 'find']
            if finds:
                loops.append((s, finds))
    rep.floor('K1', 'search loops in find_kmers', len(loops), 2)
    result = {}
    hay_names = set()
    for loop, finds in loops:
        rep.require(len(finds) == 1, 'find_kmers: a search loop with several find() calls')
        find = finds[0]
        rep.call_sites += 1
        rep.require(isinstance(find.func.value, ast.Name), 'find_kmers: find() receiver is not a local')
        hay = find.func.value.id
        hay_names.add(hay)
        rep.require(1 <= len(find.args) <= 3 and not find.keywords, 'find_kmers: unexpected find() arguments')
        needle = find.args[0]
        kind = None
        find_stmt = next(s for s in stmts_in(loop.body) if any(x is find for x in ast.walk(s)) and not isinstance(s, (ast.If, ast.While)))
        if u(needle) == f'{spec}.prefix':
            kind = 'forward'
        elif isinstance(needle, ast.Name):
            d = reaching_def(fn, needle.id, loop)
            v = def_value(d) if d not in (None, PARAM, AMBIGUOUS) else None
            if isinstance(v, ast.Call) and m.resolve_call(fi, v) in ('gambit._cython.kmers.revcomp', 'gambit.seq.revcomp') \
                    and [u(a) for a in v.args] == [f'{spec}.prefix']:
                kind = 'reverse'
                env[f'len({needle.id})'] = P
        rep.require(kind is not None, f'find_kmers: cannot classify the needle {u(needle)}')
        rep.require(kind not in result, f'find_kmers: two {kind} search loops')
        rep.require(isinstance(find_stmt, ast.Assign) and isinstance(find_stmt.targets[0], ast.Name), 'find_kmers: find() result not assigned to a local')
        loc = find_stmt.targets[0].id
        lenv = dict(env)
        lenv[loc] = sym('loc')
        lenv[f'len({hay})'] = sym('LEN')

        def key(n, lenv=lenv):
            a = Aff.try_of(n, lenv)
            return str(a) if a is not None else u(n)
        # START
        start_arg = find.args[1] if len(find.args) > 1 else None
        rep.require(isinstance(start_arg, ast.Name), f'find_kmers ({kind}): start argument is not a local variable')
        sv = start_arg.id
        d0 = reaching_def(fn, sv, loop)
        v0 = def_value(d0) if d0 not in (None, PARAM, AMBIGUOUS) else None
        init = Aff.try_of(v0, env) if v0 is not None else None
        want_init = const(0) if kind == 'forward' else K
        rep.add('K1', fi.site(d0 if isinstance(d0, ast.AST) else loop), f'{kind} search starts at {want_init}', init == want_init,
                expected=want_init, found=init if init is not None else u(v0), stmt=f'{kind}: initial start')
        inner = [s for s in stmts_in(loop.body) if isinstance(s, ast.Assign) and len(s.targets) == 1
                 and isinstance(s.targets[0], ast.Name) and s.targets[0].id == sv]
        rep.require(len(inner) == 1, f'find_kmers ({kind}): expected one restart assignment in the loop, found {len(inner)}')
        back = Aff.try_of(inner[0].value, lenv)
        rep.add('K1', fi.site(inner[0]), f'{kind} search restarts one past the last hit (overlapping occurrences are enumerated)',
                back == sym('loc').plus(1), expected='loc + 1', found=back if back is not None else u(inner[0].value), stmt=f'{kind}: restart')
        # the restart is on the path of every iteration that yields (not skipped)
        yields = [n for n in ast.walk(loop) if isinstance(n, ast.Yield)]
        rep.require(len(yields) == 1 and isinstance(yields[0].value, ast.Call), f'find_kmers ({kind}): expected one `yield KmerMatch(...)`')
        y = yields[0]
        ystmt = next(s for s in stmts_in(loop.body) if any(x is y for x in ast.walk(s)) and isinstance(s, ast.Expr))
        bp_y, bp_r = block_path(fn, ystmt), block_path(fn, inner[0])
        same_block = bp_y[-1][0] is bp_r[-1][0] and bp_y[-1][1] < bp_r[-1][1] and bp_y[-1][0] is loop.body
        rep.add('K1', fi.site(inner[0]), f'{kind}: yield and restart are unconditional successors of the hit test in the loop body', same_block,
                expected='same block, restart after yield', found='different blocks' if not same_block else 'ok', stmt=f'{kind}: restart placement')
        # END
        end_arg = find.args[2] if len(find.args) > 2 else None
        end = Aff.try_of(end_arg, lenv) if end_arg is not None else None
        if kind == 'forward':
            rep.add('K1', fi.site(find), 'forward window leaves exactly k bases after the prefix: end == -k', end == K.scale(-1),
                    expected='-K', found=end if end is not None else u(end_arg), stmt='forward: window end')
        else:
            rep.add('K1', fi.site(find), 'reverse window extends to the end of the sequence', end_arg is None or end == sym('LEN'),
                    expected='no end / len', found=end if end is not None else u(end_arg), stmt='reverse: window end')
        # exit on miss before the yield
        at = path_atoms(gm[ystmt], key=key)
        hit = ('le', '0', 'loc') in at or ('lt', '-1', 'loc') in at or ('ne', '-1', 'loc') in at
        rep.add('K1', fi.site(ystmt), f'{kind}: a match is yielded only for a hit (loc >= 0)', hit, expected='loc >= 0 on the path', found=sorted(at),
                stmt=f'{kind}: hit guard')
        # the miss leaves the loop (break / return), it does not skip
        miss_ok = False
        for s in loop.body:
            if isinstance(s, ast.If):
                a = atoms(s.test, True, key)
                is_last_loop = loop is loops[-1][0] and all(not isinstance(x, (ast.While, ast.For)) for x in fn.body[fn.body.index(loop) + 1:])
                if a and (a & {('lt', 'loc', '0'), ('eq', '-1', 'loc'), ('le', 'loc', '-1')}) and s.body \
                        and (isinstance(s.body[-1], ast.Break) or (isinstance(s.body[-1], ast.Return) and is_last_loop)):
                    miss_ok = True
        if isinstance(loop.test, ast.Compare):
            a = atoms(loop.test, True, key)
            miss_ok = miss_ok or bool(a and (a & {('le', '0', 'loc'), ('ne', '-1', 'loc')}))
        rep.add('K1', fi.site(loop), f'{kind}: a miss terminates the search', miss_ok, expected='if loc < 0: break', found='no `break` on a miss (a return would skip the other strand)' if not miss_ok else 'ok',
                stmt=f'{kind}: miss exit')
        # loop is otherwise unconditional
        rep.add('K1', fi.site(loop), f'{kind}: the loop has no other exit condition', is_const(loop.test, True) or isinstance(loop.test, ast.Compare),
                expected='while True', found=u(loop.test), stmt=f'{kind}: loop test')
        # yielded match
        call = y.value
        tgt = m.resolve_call(fi, call)
        rep.require(tgt == 'gambit.kmers.KmerMatch', f'find_kmers ({kind}): yields {tgt}, not KmerMatch')
        fields = ['kmerspec', 'seq', 'pos', 'reverse']
        args = {f: get_arg(call, i, f) for i, f in enumerate(fields)}
        rep.require(all(a is not None and a is not Ellipsis for a in args.values()), 'find_kmers: KmerMatch arguments')
        pos = Aff.try_of(args['pos'], lenv)
        want_pos = sym('loc') if kind == 'forward' else sym('loc').add(P).plus(-1)
        rep.add('K1', fi.site(call), f'{kind}: reported position', pos == want_pos, expected=want_pos, found=pos if pos is not None else u(args['pos']),
                stmt=f'{kind}: pos')
        rev = args['reverse']
        rep.add('K1', fi.site(call), f'{kind}: strand flag', isinstance(rev, ast.Constant) and rev.value is (kind == 'reverse'),
                expected=str(kind == 'reverse'), found=u(rev), stmt=f'{kind}: reverse flag')
        rep.add('K1', fi.site(call), f'{kind}: the match carries the search parameters and the searched sequence',
                u(args['kmerspec']) == spec and u(args['seq']) in (seqp, hay), expected=(spec, seqp), found=(u(args['kmerspec']), u(args['seq'])),
                stmt=f'{kind}: match fields')
        result[kind] = dict(init=init, end=end, pos=pos, hay=hay, loop=loop, find=find)
    rep.require(set(result) == {'forward', 'reverse'}, 'find_kmers: need one forward and one reverse search loop')
    all_yields = [n for n in ast.walk(fn) if isinstance(n, (ast.Yield, ast.YieldFrom))]
    rep.add('K1', fi.site(), 'matches are produced only by the two analysed search loops (no other yield)', len(all_yields) == 2, expected='2 yields', found=len(all_yields), stmt='yield census')
    rep.add('K1', fi.site(), 'both strands are searched in the same haystack', len(hay_names) == 1, expected='one haystack', found=sorted(hay_names),
            stmt='haystack')
    # no statement between/after loops drops matches: the function has no return before the loops
    early = [s for s in fn.body if isinstance(s, ast.Return)]
    rep.add('K1', fi.site(), 'no early return before both searches ran', not early, expected='none', found=[u(e) for e in early], stmt='early return')
    analyse_case_folding(ctx, fi, result, spec, seqp)
    return result


# ------------------------------------------------------------------------------------------------ K6
def analyse_case_folding(ctx, fi, loops, spec, seqp):
    rep, m = ctx.rep, ctx.model
    fn = fi.node
    hay = loops['forward']['hay']
    first_loop = min((loops[k]['loop'] for k in loops), key=lambda l: l.lineno)
    # haystack origin
    defs = assigns_to(fn, hay)
    rep.require(defs, f'find_kmers: haystack {hay} is never assigned')
    d0 = defs[0]
    v0 = def_value(d0)
    ok0 = isinstance(v0, ast.Call) and (
        (m.resolve_call(fi, v0) == 'gambit.seq.seq_to_bytes' and [u(a) for a in v0.args] == [seqp]) or
        (callee_attr(v0) == 'upper' and isinstance(v0.func.value, ast.Call) and m.resolve_call(fi, v0.func.value) == 'gambit.seq.seq_to_bytes'))
    rep.add('K6', fi.site(d0), 'the haystack is the byte form of the whole input sequence', ok0, expected=f'seq_to_bytes({seqp})', found=u(v0), stmt='haystack def')
    uppers = [s for s in defs if isinstance(def_value(s), ast.Call) and callee_attr(def_value(s)) == 'upper']
    others = [s for s in defs if s is not d0 and s not in uppers]
    rep.add('K6', fi.site(), 'the haystack is not otherwise rewritten', not others, expected='none', found=[u(s) for s in others], stmt='haystack writes')
    if not uppers:
        rep.add('K6', fi.site(first_loop), 'lower-case input is matched: the haystack is upper-cased before searching', False,
                expected=f'{hay} = {hay}.upper()', found='no upper() of the haystack', stmt='upper')
        return
    up = uppers[-1]
    bp = block_path(fn, up)
    before = up.lineno < first_loop.lineno
    if len(bp) == 1:
        ok = before
        found = 'unconditional'
    else:
        # the guarded idiom: for c in H: if c in <lower-case nucleotides>: H = H.upper(); break
        owners = [o for (_, _, o) in bp[1:]]
        ok = False
        found = 'conditional'
        if len(owners) == 2 and isinstance(owners[0], ast.For) and isinstance(owners[1], ast.If) and u(owners[0].iter) == hay \
                and isinstance(owners[0].target, ast.Name):
            t = owners[1].test
            c = owners[0].target.id
            if isinstance(t, ast.Compare) and len(t.ops) == 1 and isinstance(t.ops[0], ast.In) and u(t.left) == c:
                cont = t.comparators[0]
                cv = cont
                if isinstance(cont, ast.Name):
                    d = reaching_def(fn, cont.id, owners[0])
                    cv = def_value(d) if d not in (None, PARAM, AMBIGUOUS) else None
                lower_of_nucs = isinstance(cv, ast.Call) and callee_attr(cv) == 'lower' and \
                    m.resolve(fi.module, cv.func.value) == 'gambit.seq.NUCLEOTIDES'
                literal = isinstance(cv, ast.Constant) and isinstance(cv.value, bytes) and set(cv.value) >= set(b'acgt')
                ok = before and (lower_of_nucs or literal) and not owners[1].orelse
                found = f'guarded by `{u(t)}` with container {u(cv)}'
        if not ok and found == 'conditional' and len(owners) == 1 and isinstance(owners[0], ast.If) and not owners[0].orelse:
            # classified single-test guards (closed table; anything else is outside the vocabulary)
            t = u(owners[0].test).replace(' ', '')
            sufficient = {f'not{hay}.isupper()', f'{hay}!={hay}.upper()', f'{hay}.upper()!={hay}', f'not({hay}=={hay}.upper())'}
            insufficient = {f'{hay}.islower()': 'bytes.islower() is True only when ALL cased bytes are lower case: mixed-case (soft-masked) input is not folded',
                            f'{hay}[0:1].islower()': 'looks at the first byte only', f'{hay}[:1].islower()': 'looks at the first byte only',
                            f'{hay}.isalpha()': 'unrelated to case'}
            if t in sufficient:
                ok, found = before, f'guarded by `{u(owners[0].test)}` (true whenever any byte is lower case)'
            elif t in insufficient:
                ok, found = False, f'guarded by `{u(owners[0].test)}`: {insufficient[t]}'
        if not ok and found == 'conditional':
            raise Undecided('find_kmers: upper() of the haystack is under an unrecognised condition')
    rep.add('K6', fi.site(up), 'the haystack is upper-cased whenever it contains a lower-case nucleotide, before either search', ok,
            expected='unconditional, or guarded by "some byte in NUCLEOTIDES.lower()"', found=found, stmt='upper')


# ------------------------------------------------------------------------------------------------ K2 / K3 / K4
def analyse_slices(ctx, loops):
    rep, m = ctx.rep, ctx.model
    fi = m.func('gambit.kmers.KmerMatch.kmer_indices')
    rep.functions.add(fi.qualname)
    env = spec_env('self.kmerspec')
    env = straightline_env(fi.node, env)
    env['self.pos'] = sym('pos')
    gm = guard_map(fi.node)
    rets = [s for s in stmts_in(fi.node.body) if isinstance(s, ast.Return)]
    found = {}
    for r in rets:
        vals = [(r.value, path_atoms(gm[r]))]
        if isinstance(r.value, ast.IfExp):
            vals = [(r.value.body, path_atoms(gm[r] + ((r.value.test, True),))), (r.value.orelse, path_atoms(gm[r] + ((r.value.test, False),)))]
        for v, at in vals:
            strand = 'reverse' if ('true', 'self.reverse') in at else 'forward' if ('false', 'self.reverse') in at else None
            rep.require(strand is not None, f'kmer_indices: return not controlled by self.reverse: {u(r)}')
            rep.require(isinstance(v, ast.Call) and u(v.func) == 'slice' and len(v.args) == 2 and not v.keywords,
                        f'kmer_indices: return value is not slice(lo, hi): {u(v)}')
            lo, hi = Aff.try_of(v.args[0], env), Aff.try_of(v.args[1], env)
            rep.require(lo is not None and hi is not None, f'kmer_indices: non-affine slice bound in {u(v)}')
            rep.require(strand not in found, f'kmer_indices: two returns for the {strand} strand')
            found[strand] = (lo, hi, r)
    rep.floor('K2', 'slice returns in kmer_indices', len(found), 2)
    pos = sym('pos')
    want = {'forward': (pos.add(P), pos.add(P).add(K)), 'reverse': (pos.sub(P).sub(K).plus(1), pos.sub(P).plus(1))}
    for strand in ('forward', 'reverse'):
        lo, hi, r = found[strand]
        rep.add('K2', fi.site(r), f'{strand} k-mer slice start', lo == want[strand][0], expected=want[strand][0], found=lo, stmt=f'{strand}: lo')
        rep.add('K2', fi.site(r), f'{strand} k-mer slice stop', hi == want[strand][1], expected=want[strand][1], found=hi, stmt=f'{strand}: hi')
    rep.account_returns('K2', fi, [found[k][2] for k in found], 'k-mer slice')
    # K3: composition with the positions yielded by the search loops
    loc = sym('loc')
    f, rv = loops['forward'], loops['reverse']
    if f['pos'] is not None:
        lo, hi, r = found['forward']
        lo2, hi2 = lo.subst({'pos': f['pos']}), hi.subst({'pos': f['pos']})
        rep.add('K3', fi.site(r), 'forward: the slice is exactly the k bases that follow the prefix occurrence', lo2 == loc.add(P) and hi2.sub(lo2) == K,
                expected='[loc+P, loc+P+K)', found=f'[{lo2}, {hi2})', stmt='forward: composition')
        if f['end'] is not None:
            # window guarantee: loc + P <= LEN + end  =>  hi <= LEN  iff  hi - (loc + P) == -end
            rep.add('K3', fi.site(r), 'forward: the slice never runs past the end of the sequence (window guarantee)',
                    hi2.sub(loc.add(P)) == f['end'].scale(-1), expected='hi - (loc+P) == -end', found=f'{hi2.sub(loc.add(P))} vs {f["end"].scale(-1)}',
                    stmt='forward: bound')
    if rv['pos'] is not None:
        lo, hi, r = found['reverse']
        lo2, hi2 = lo.subst({'pos': rv['pos']}), hi.subst({'pos': rv['pos']})
        rep.add('K3', fi.site(r), 'reverse: the slice is exactly the k bases that precede the reverse-complemented prefix', hi2 == loc and hi2.sub(lo2) == K,
                expected='[loc-K, loc)', found=f'[{lo2}, {hi2})', stmt='reverse: composition')
        if rv['init'] is not None:
            rep.add('K3', fi.site(r), 'reverse: the slice never starts before the sequence (loc >= start >= k) and no occurrence with a full k-mer is skipped',
                    loc.sub(lo2) == rv['init'], expected='loc - lo == initial start', found=f'{loc.sub(lo2)} vs {rv["init"]}', stmt='reverse: bound')
    # K4: strand dispatch
    fk = m.func('gambit.kmers.KmerMatch.kmer_index')
    rep.functions.add(fk.qualname)
    gmk = guard_map(fk.node)
    disp = {}
    for r in [s for s in stmts_in(fk.node.body) if isinstance(s, ast.Return)]:
        vals = [(r.value, path_atoms(gmk[r]))]
        if isinstance(r.value, ast.IfExp):
            vals = [(r.value.body, path_atoms(gmk[r] + ((r.value.test, True),))), (r.value.orelse, path_atoms(gmk[r] + ((r.value.test, False),)))]
        for v, at in vals:
            strand = 'reverse' if ('true', 'self.reverse') in at else 'forward' if ('false', 'self.reverse') in at else None
            rep.require(strand is not None and isinstance(v, ast.Call), f'kmer_index: return not controlled by self.reverse: {u(r)}')
            disp[strand] = (v, r)
    rep.floor('K4', 'dispatch branches in kmer_index', len(disp), 2)
    for strand, wantf in (('forward', 'gambit.kmers.kmer_to_index'), ('reverse', 'gambit.kmers.kmer_to_index_rc')):
        v, r = disp[strand]
        tgt = m.resolve_call(fk, v)
        rep.add('K4', fk.site(r), f'{strand} match is encoded with {wantf.rsplit(".", 1)[1]}', tgt == wantf, expected=wantf, found=tgt, stmt=f'{strand}: encoder')
        arg = v.args[0] if v.args else None
        av = arg
        if isinstance(arg, ast.Name):
            d = reaching_def(fk.node, arg.id, r)
            av = def_value(d) if d not in (None, PARAM, AMBIGUOUS) else None
        ok = isinstance(av, ast.Subscript) and u(av.value) == 'self.seq' and isinstance(av.slice, ast.Call) \
            and m.resolve_call(fk, av.slice) == 'gambit.kmers.KmerMatch.kmer_indices'
        rep.add('K4', fk.site(r), f'{strand}: the encoded bytes are self.seq[self.kmer_indices()]', ok, expected='self.seq[self.kmer_indices()]', found=u(av),
                stmt=f'{strand}: operand')
    rep.account_returns('K4', fk, [disp[k][1] for k in disp], 'k-mer index')
    c07.check_bindings(ctx)


# ------------------------------------------------------------------------------------------------ K5 / K9
def analyse_accumulate(ctx):
    rep, m = ctx.rep, ctx.model
    fi = m.func('gambit.sigs.calc.accumulate_kmers')
    rep.functions.add(fi.qualname)
    acc, spec, seq = fi.params()[:3]
    fors = [s for s in fi.node.body if isinstance(s, ast.For)]
    rep.require(len(fors) == 1, 'accumulate_kmers: expected one for loop')
    loop = fors[0]
    it = loop.iter
    ok = isinstance(it, ast.Call) and m.resolve_call(fi, it) == 'gambit.kmers.find_kmers' and [u(a) for a in it.args] == [spec, seq]
    rep.add('K5', fi.site(loop), 'iterates every match of find_kmers(kmerspec, seq)', ok, expected=f'find_kmers({spec}, {seq})', found=u(it), stmt=loop.iter)
    rep.require(isinstance(loop.target, ast.Name), 'accumulate_kmers: loop target')
    mv = loop.target.id
    tries = [s for s in loop.body if isinstance(s, ast.Try)]
    rep.require(len(tries) == 1, 'accumulate_kmers: expected one try statement in the loop')
    t = tries[0]
    idx_calls = [c for c in calls_in(ast.Module(body=t.body, type_ignores=[])) if callee_attr(c) == 'kmer_index']
    rep.add('K5', fi.site(t), 'the try body computes the index of the current match', len(idx_calls) == 1 and u(idx_calls[0].func.value) == mv,
            expected=f'{mv}.kmer_index()', found=[u(c) for c in idx_calls], stmt='try body')
    other = [s for s in t.body if not (isinstance(s, ast.Assign) and any(x in idx_calls for x in ast.walk(s)))]
    hset = sorted(u(h.type) if h.type is not None else 'BaseException' for h in t.handlers)
    rep.add('K5', fi.site(t), 'only ValueError (invalid k-mer) is swallowed', hset == ['ValueError'], expected=['ValueError'], found=hset, stmt='handlers')
    bad_exit = []
    for h in t.handlers:
        for s in stmts_in(h.body):
            if isinstance(s, (ast.Break, ast.Return, ast.Raise)):
                bad_exit.append(u(s))
    rep.add('K5', fi.site(t), 'a skipped occurrence drops only itself (handler neither breaks, returns nor raises)', not bad_exit, expected='continue / pass',
            found=bad_exit, stmt='handler exit')
    # accumulator.add(index) on the non-exceptional path
    idx_name = None
    for s in t.body:
        if isinstance(s, ast.Assign) and isinstance(s.targets[0], ast.Name) and any(x in idx_calls for x in ast.walk(s)):
            idx_name = s.targets[0].id
    adds = [c for c in calls_in(loop) if callee_attr(c) == 'add' and u(c.func.value) == acc]
    ok = len(adds) == 1 and idx_name is not None and [u(a) for a in adds[0].args] == [idx_name]
    rep.add('K5', fi.site(adds[0] if adds else loop), 'every valid index is added to the accumulator it was given', ok, expected=f'{acc}.add({idx_name})',
            found=[u(c) for c in adds], stmt='add')
    if adds:
        st = next(s for s in stmts_in(loop.body) if any(x is adds[0] for x in ast.walk(s)) and isinstance(s, ast.Expr))
        bp = block_path(fi.node, st)
        owner_chain = [type(o).__name__ for (_, _, o) in bp[1:]]
        placed = (bp[-1][0] is loop.body and loop.body.index(st) > loop.body.index(t)) or (bp[-1][0] is t.orelse) or \
                 (bp[-1][0] is t.body and t.body.index(st) > 0)
        rep.add('K5', fi.site(st), 'the add is unconditional on the success path', placed and 'If' not in owner_chain, expected='after the try / in its else',
                found=owner_chain, stmt='add placement')
        rep.add('K5', fi.site(t), 'the try body does nothing else that could be skipped or mask errors',
                not other or all(any(x is adds[0] for x in ast.walk(s)) for s in other), expected='index computation only', found=[u(s) for s in other],
                stmt='try extent')

    rep.account_returns('K5', fi, [], 'match (the loop must see every occurrence: no return at all)')
    # K9
    fc = m.func('gambit.sigs.calc.calc_signature')
    rep.functions.add(fc.qualname)
    ps = fc.params()
    spec2, seqs = ps[0], ps[1]
    accp = 'accumulator'
    fors = [s for s in fc.node.body if isinstance(s, ast.For)]
    rep.require(len(fors) == 1, 'calc_signature: expected one for loop over the sequences')
    loop = fors[0]
    calls = [c for c in calls_in(loop) if m.resolve_call(fc, c) == 'gambit.sigs.calc.accumulate_kmers']
    ok = u(loop.iter) == seqs and isinstance(loop.target, ast.Name) and len(calls) == 1 and \
        [u(a) for a in calls[0].args] == [accp, spec2, loop.target.id] and len(loop.body) == 1
    rep.add('K9', fc.site(loop), 'each sequence is searched separately and feeds one shared accumulator', ok,
            expected=f'for s in {seqs}: accumulate_kmers({accp}, {spec2}, s)', found=u(loop)[:100], stmt='per-sequence loop')
    wrap = [s for s in fc.node.body if isinstance(s, ast.If) and isinstance(s.test, ast.Call) and u(s.test.func) == 'isinstance'
            and u(s.test.args[0]) == seqs]
    okw = len(wrap) == 1 and m.resolve(fc.module, wrap[0].test.args[1]) == 'gambit.seq.SEQ_TYPES' and len(wrap[0].body) == 1 \
        and u(wrap[0].body[0]) in (f'{seqs} = [{seqs}]', f'{seqs} = ({seqs},)') and wrap[0].lineno < loop.lineno
    rep.add('K9', fc.site(wrap[0] if wrap else loop), 'a single sequence of any accepted type is treated as a one-element collection', okw,
            expected=f'if isinstance({seqs}, SEQ_TYPES): {seqs} = [{seqs}]', found=[u(w)[:80] for w in wrap], stmt='single-sequence wrap')
    dflt = [s for s in fc.node.body if isinstance(s, ast.If) and ('is', 'None', accp) in (atoms(s.test) or set())]
    okd = len(dflt) == 1 and len(dflt[0].body) == 1 and isinstance(def_value(dflt[0].body[0]), ast.Call) and \
        m.resolve_call(fc, def_value(dflt[0].body[0])) == 'gambit.sigs.calc.default_accumulator' and \
        [u(a) for a in def_value(dflt[0].body[0]).args] == [f'{spec2}.k'] and dflt[0].lineno < loop.lineno
    rep.add('K9', fc.site(dflt[0] if dflt else loop), 'the default accumulator is built for this k', okd, expected=f'default_accumulator({spec2}.k)',
            found=[u(d)[:80] for d in dflt], stmt='default accumulator')
    last = fc.node.body[-1]
    rep.add('K9', fc.site(last), 'the result is the signature of that accumulator', isinstance(last, ast.Return) and u(last.value) == f'{accp}.signature()',
            expected=f'return {accp}.signature()', found=u(last)[:80], stmt='result')
    rets = [s for s in stmts_in(fc.node.body) if isinstance(s, ast.Return) and s is not last]
    rep.add('K9', fc.site(), 'no early return', not rets, expected='none', found=[u(r) for r in rets], stmt='early return')


# ------------------------------------------------------------------------------------------------ K7
def analyse_accumulators(ctx):
    rep, m = ctx.rep, ctx.model
    subs = m.subclasses('gambit.sigs.calc.KmerAccumulator')
    rep.floor('K7', 'KmerAccumulator subclasses', len(subs), 2)
    for ci in sorted(subs, key=lambda c: c.qualname):
        init, add, sig = ci.methods.get('__init__'), ci.methods.get('add'), ci.methods.get('signature')
        rep.require(init and add and sig, f'{ci.qualname}: missing __init__/add/signature')
        for f in (init, add, sig):
            rep.functions.add(f.qualname)
        kparam = init.params()[1] if len(init.params()) > 1 else None
        sets = {}
        for s in stmts_in(init.node.body):
            if isinstance(s, ast.Assign) and len(s.targets) == 1 and isinstance(s.targets[0], ast.Attribute) and u(s.targets[0].value) == 'self':
                sets[s.targets[0].attr] = s
        dt = sets.get('_dtype')
        okdt = dt is not None and isinstance(dt.value, ast.Call) and m.resolve_call(init, dt.value) == 'gambit.kmers.index_dtype' \
            and [u(a) for a in dt.value.args] in (['self.k'], [kparam])
        okk = 'k' in sets and u(sets['k'].value) == kparam
        rep.add('K7', init.site(dt if dt is not None else None), f'{ci.name}: output dtype is index_dtype(k) of its own k', okdt and okk,
                expected='self.k = k; self._dtype = index_dtype(self.k)', found=(u(sets.get('k')), u(dt)), stmt=f'{ci.name}: dtype')
        # storage
        store_attr = None
        store_kind = None
        for a, s in sets.items():
            v = s.value
            if isinstance(v, ast.Call) and u(v.func) == 'set' and not v.args:
                store_attr, store_kind = a, 'set'
            elif isinstance(v, ast.Call) and u(v.func) in ('np.zeros', 'numpy.zeros'):
                store_attr, store_kind = a, 'dense'
                n_arg = v.args[0] if v.args else None
                okn = isinstance(n_arg, ast.Call) and m.resolve_call(init, n_arg) == 'gambit.kmers.nkmers' and [u(x) for x in n_arg.args] in ([kparam], ['self.k'])
                dtk = get_arg(v, 1, 'dtype')
                rep.add('K7', init.site(s), f'{ci.name}: dense array has one boolean cell per possible k-mer', okn and u(dtk) in ('bool', 'np.bool_', "'bool'"),
                        expected='np.zeros(nkmers(k), dtype=bool)', found=u(v), stmt=f'{ci.name}: dense storage')
        rep.require(store_kind is not None, f'{ci.qualname}: storage is neither a set() nor np.zeros(...)')
        # add
        ap = add.params()[1]
        body = [s for s in add.node.body if not (isinstance(s, ast.Expr) and isinstance(s.value, ast.Constant))]
        ok = False
        if store_kind == 'dense':
            ok = len(body) == 1 and isinstance(body[0], ast.Assign) and isinstance(body[0].targets[0], ast.Subscript) \
                and u(body[0].targets[0].value) == f'self.{store_attr}' and u(body[0].targets[0].slice) == ap and is_const(body[0].value, True)
        else:
            if len(body) == 1 and isinstance(body[0], ast.Expr) and isinstance(body[0].value, ast.Call):
                c = body[0].value
                a0 = c.args[0] if c.args else None
                inner = a0
                if isinstance(a0, ast.Call) and u(a0.func) in ('self._dtype.type', 'int') and len(a0.args) == 1:
                    inner = a0.args[0]
                ok = u(c.func) == f'self.{store_attr}.add' and u(inner) == ap
        rep.add('K7', add.site(), f'{ci.name}.add records exactly its own argument', ok, expected='store of the argument', found=[u(s) for s in body],
                stmt=f'{ci.name}: add')
        # signature
        rets = [s for s in stmts_in(sig.node.body) if isinstance(s, ast.Return)]
        rep.require(len(rets) == 1, f'{ci.qualname}.signature: expected one return')
        r = rets[0]
        v = r.value
        sorted_unique = False
        dtype_ok = False
        found = u(v)
        if store_kind == 'dense':
            inner = v
            if isinstance(v, ast.Call) and callee_attr(v) == 'astype' and isinstance(v.func, ast.Attribute):
                dtype_ok = [u(a) for a in v.args] == ['self._dtype']
                inner = v.func.value
            sorted_unique = isinstance(inner, ast.Call) and u(inner.func) in ('np.flatnonzero', 'numpy.flatnonzero') \
                and [u(a) for a in inner.args] == [f'self.{store_attr}']
        else:
            if isinstance(v, ast.Name):
                defs = assigns_to(sig.node, v.id)
                rep.require(len(defs) >= 1, f'{ci.qualname}.signature: {v.id} undefined')
                dv = def_value(defs[-1])
                vid = v.id
            else:
                defs, dv, vid = [r], v, None      # array expression returned directly: nothing can sort it in place afterwards
            found = u(dv)
            from_set = isinstance(dv, ast.Call) and u(dv.func) in ('np.fromiter', 'numpy.fromiter', 'np.array', 'np.unique') and dv.args \
                and (u(dv.args[0]) in (f'self.{store_attr}', f'list(self.{store_attr})', f'sorted(self.{store_attr})'))
            dtype_ok = isinstance(dv, ast.Call) and u(get_arg(dv, 1, 'dtype')) == 'self._dtype'
            sorts = [s for s in sig.node.body if vid is not None and isinstance(s, ast.Expr) and isinstance(s.value, ast.Call) and u(s.value.func) == f'{vid}.sort'
                     and not s.value.args and not s.value.keywords and defs[-1].lineno < s.lineno < r.lineno]
            resort = isinstance(dv, ast.Call) and (u(dv.func) == 'np.unique' or (dv.args and u(dv.args[0]).startswith('sorted(')))
            sorted_unique = from_set and (bool(sorts) or resort)
            found = f'{found}; sort statements: {[u(s) for s in sorts]}'
        rep.add('K7', sig.site(r), f'{ci.name}.signature is sorted and duplicate-free by construction', sorted_unique,
                expected='np.flatnonzero(dense) | array from the set followed by an in-place sort', found=found, stmt=f'{ci.name}: sorted unique')
        rep.add('K7', sig.site(r), f'{ci.name}.signature has dtype index_dtype(k)', dtype_ok, expected='self._dtype', found=found, stmt=f'{ci.name}: result dtype')
    # default_accumulator
    fd = m.func('gambit.sigs.calc.default_accumulator')
    rep.functions.add(fd.qualname)
    kp = fd.params()[0]
    ctors = [c for c in calls_in(fd.node) if (m.resolve_call(fd, c) or '') in {c.qualname for c in subs}]
    rets = [s for s in stmts_in(fd.node.body) if isinstance(s, ast.Return)]
    all_ret_ctor = all(any(x in ctors for x in ast.walk(r)) for r in rets) and bool(rets)
    rep.add('K7', fd.site(), 'default_accumulator always returns one of the analysed accumulators, built with the requested k',
            all_ret_ctor and ctors and all([u(a) for a in c.args] == [kp] and not c.keywords for c in ctors), expected=f'<Accumulator>({kp})',
            found=[u(c) for c in ctors], stmt='default_accumulator')


# ------------------------------------------------------------------------------------------------ K8 / K10
def analyse_dtype_table(ctx):
    rep, m = ctx.rep, ctx.model
    fi = m.func('gambit.kmers.index_dtype')
    rep.functions.add(fi.qualname)
    kp = fi.params()[0]

    def on_call(mini, e):
        f = u(e.func)
        if f in ('np.dtype', 'numpy.dtype') and len(e.args) == 1 and isinstance(e.args[0], ast.Constant):
            return ('dtype', e.args[0].value)
        if f in ('np.dtype', 'numpy.dtype') and len(e.args) == 1 and isinstance(e.args[0], ast.Attribute):
            names = {'uint8': 'u1', 'uint16': 'u2', 'uint32': 'u4', 'uint64': 'u8'}
            if e.args[0].attr in names:
                return ('dtype', names[e.args[0].attr])
        raise Undecided(f'index_dtype: call {u(e)}')
    body = [s for s in fi.node.body if not (isinstance(s, ast.Expr) and isinstance(s.value, ast.Constant))]
    bad = []
    rows = {}
    for k in range(1, 33):
        mini = Mini({kp: k}, on_call=on_call)
        try:
            mini.run(body)
            res = None
        except Return as r:
            res = r.value
        want = next(n for n in (1, 2, 4, 8) if 4 * n >= k)
        got = res[1] if isinstance(res, tuple) and res and res[0] == 'dtype' else res
        rows.setdefault(got, []).append(k)
        if got not in (f'u{want}', f'<u{want}', f'uint{8 * want}'):
            bad.append((k, got, f'u{want}'))
    rep.add('K8', fi.site(), 'for every k in 1..32 the dtype is the smallest unsigned type holding 4^k - 1 (evaluated exhaustively)', not bad,
            expected='u1: k<=4, u2: k<=8, u4: k<=16, u8: k<=32', found=bad[:6] if bad else {d: (min(v), max(v)) for d, v in rows.items()}, stmt='index_dtype table')
    rep.info['index_dtype_rows'] = {str(d): [min(v), max(v)] for d, v in rows.items()}
    fn = m.func('gambit.kmers.nkmers')
    rep.functions.add(fn.qualname)
    body = [s for s in fn.node.body if not (isinstance(s, ast.Expr) and isinstance(s.value, ast.Constant))]
    ok = len(body) == 1 and isinstance(body[0], ast.Return) and isinstance(body[0].value, ast.BinOp) and isinstance(body[0].value.op, ast.Pow) \
        and is_const(body[0].value.left, 4) and u(body[0].value.right) == fn.params()[0]
    rep.add('K8', fn.site(), 'nkmers(k) == 4 ** k', ok, expected='4 ** k', found=u(body[0]) if body else None, stmt='nkmers')
    check_seq_to_bytes(ctx)


def check_seq_to_bytes(ctx):
    """K10: seq_to_bytes is the identity on the byte content of every accepted sequence type (shared with C07)."""
    rep, m = ctx.rep, ctx.model
    seqmod = m.module('gambit.seq')
    rep.require('SEQ_TYPES' in seqmod.assigns and isinstance(seqmod.assigns['SEQ_TYPES'], ast.Tuple), 'gambit.seq.SEQ_TYPES is not a tuple literal')
    members = [u(e) for e in seqmod.assigns['SEQ_TYPES'].elts]
    rep.floor('K10', 'SEQ_TYPES members', len(members), 4)
    fs = m.func('gambit.seq.seq_to_bytes')
    rep.functions.add(fs.qualname)
    sp = fs.params()[0]
    covered = {}
    for s in fs.node.body:
        if isinstance(s, ast.If) and isinstance(s.test, ast.Call) and u(s.test.func) == 'isinstance' and u(s.test.args[0]) == sp:
            t = s.test.args[1]
            names = [u(e) for e in t.elts] if isinstance(t, ast.Tuple) else [u(t)]
            ret = s.body[0].value if len(s.body) >= 1 and isinstance(s.body[-1], ast.Return) else None
            ret = s.body[-1].value if isinstance(s.body[-1], ast.Return) else None
            for n in names:
                covered[n] = ret
    want_conv = {'bytes': [sp], 'bytearray': [sp], 'str': [f"{sp}.encode('ascii')", f'{sp}.encode("ascii")', f"{sp}.encode()"], 'Seq': [f'bytes({sp})']}
    for mname in members:
        r = covered.get(mname)
        ok = r is not None and (mname not in want_conv or u(r) in want_conv[mname])
        rep.add('K10', fs.site(r) if r is not None else fs.site(), f'seq_to_bytes converts {mname} to its byte content', ok,
                expected=want_conv.get(mname, 'a return'), found=u(r), stmt=f'seq_to_bytes[{mname}]')
    last = fs.node.body[-1]
    rep.account_returns('K10', fs, [s_.body[-1] for s_ in fs.node.body if isinstance(s_, ast.If) and s_.body and isinstance(s_.body[-1], ast.Return)], 'byte form')
    rep.add('K10', fs.site(last), 'anything else is a TypeError', isinstance(last, ast.Raise) and raised_name(last) == 'TypeError', expected='raise TypeError',
            found=u(last)[:60], stmt='seq_to_bytes[else]')


def check(ctx):
    rep = ctx.rep
    rep.rule('K1', 'search loops of find_kmers: start/end/restart as affine forms, exit on miss, yielded pos and strand flag')
    rep.rule('K2', 'kmer_indices slice bounds as affine forms per strand')
    rep.rule('K2.0', 'KmerSpec attribute definitions harvested from __attrs_init__')
    rep.rule('K3', 'composition K1 o K2: slice adjacent to the prefix, length k, inside the sequence')
    rep.rule('K4', 'strand dispatch to the right encoder on self.seq[self.kmer_indices()]')
    rep.rule('K5', 'skip discipline in accumulate_kmers: only ValueError, drops only the occurrence, add on success path')
    rep.rule('K6', 'case folding: haystack upper-cased (unconditionally or under the any-lower-case-nucleotide guard); needle upper-case')
    rep.rule('K7', 'accumulator siblings: dtype, storage, add, sorted-unique signature; default_accumulator returns one of them')
    rep.rule('K8', 'index_dtype evaluated for every k in 1..32; nkmers = 4**k')
    rep.rule('K9', 'calc_signature: one shared accumulator, one accumulate_kmers call per sequence')
    rep.rule('K10', 'seq_to_bytes covers every member of SEQ_TYPES')
    rep.rule('T9', 'public k-mer functions bind to the analysed Cython functions (C07-T9)')
    rep.trusted += ['bytes.find(sub, start, end) returns the lowest index of a full occurrence inside [start, end) or -1',
                    'np.flatnonzero returns sorted distinct indices; ndarray.sort() sorts in place']
    rep.assumptions += ['That the discharged premises imply set equality with the specification is a hand argument (DESIGN.md 5/C01).',
                        'Encoder correctness is C07.']
    harvest_kmerspec(ctx)
    loops = analyse_search_loops(ctx)
    analyse_slices(ctx, loops)
    analyse_accumulate(ctx)
    analyse_accumulators(ctx)
    analyse_dtype_table(ctx)
    rep.floor('K1', 'obligations', len(rep.obs), 60)


from ..variants import V  # noqa: E402

_K = 'src/gambit/kmers.py'
_C = 'src/gambit/sigs/calc.py'
VARIANTS = [
    V('forward restart after the whole prefix (overlaps missed)', 'B', _K, "\t\tyield KmerMatch(kmerspec, seq, loc, False)\n\n\t\tstart = loc + 1",
      "\t\tyield KmerMatch(kmerspec, seq, loc, False)\n\n\t\tstart = loc + kmerspec.prefix_len", 'K1'),
    V('forward window one too long', 'B', _K, "haystack.find(kmerspec.prefix, start, -kmerspec.k)", "haystack.find(kmerspec.prefix, start, -kmerspec.k + 1)", 'K1'),
    V('forward window end len-k (negative for short sequences)', 'B', _K, "haystack.find(kmerspec.prefix, start, -kmerspec.k)",
      "haystack.find(kmerspec.prefix, start, len(haystack) - kmerspec.k)", 'K1'),
    V('reverse search starts at k-1', 'B', _K, "\tstart = kmerspec.k\n", "\tstart = kmerspec.k - 1\n", 'K1'),
    V('reverse search starts at k+1 (flush match missed)', 'B', _K, "\tstart = kmerspec.k\n", "\tstart = kmerspec.k + 1\n", 'K1'),
    V('reverse pos off by one', 'B', _K, "loc + kmerspec.prefix_len - 1, True)", "loc + kmerspec.prefix_len, True)", 'K1'),
    V('reverse slice stop drops +1', 'B', _K, "self.pos - self.kmerspec.prefix_len + 1)", "self.pos - self.kmerspec.prefix_len)", 'K2'),
    V('forward slice uses k for total_len', 'B', _K, "return slice(self.pos + self.kmerspec.prefix_len, self.pos + self.kmerspec.total_len)",
      "return slice(self.pos + self.kmerspec.prefix_len, self.pos + self.kmerspec.k)", 'K2'),
    V('encoders swapped in kmer_index', 'B', _K, "return kmer_to_index_rc(kmer) if self.reverse else kmer_to_index(kmer)",
      "return kmer_to_index(kmer) if self.reverse else kmer_to_index_rc(kmer)", 'K4'),
    V('strand flag of reverse matches False', 'B', _K, "loc + kmerspec.prefix_len - 1, True)", "loc + kmerspec.prefix_len - 1, False)", 'K1'),
    V('skip handler breaks', 'B', _C, "\t\texcept ValueError:\n\t\t\tcontinue\n\t\taccumulator.add(index)", "\t\texcept ValueError:\n\t\t\tbreak\n\t\taccumulator.add(index)", 'K5'),
    V('skip handler catches everything', 'B', _C, "\t\texcept ValueError:\n\t\t\tcontinue\n\t\taccumulator.add(index)", "\t\texcept Exception:\n\t\t\tcontinue\n\t\taccumulator.add(index)", 'K5'),
    V('set accumulator result unsorted', 'B', _C, "\t\tsig = np.fromiter(self.set, dtype=self._dtype)\n\t\tsig.sort()\n", "\t\tsig = np.fromiter(self.set, dtype=self._dtype)\n", 'K7'),
    V('dtype row k <= 9 -> u2', 'B', _K, "\telif k <= 8:\n\t\treturn np.dtype('u2')", "\telif k <= 9:\n\t\treturn np.dtype('u2')", 'K8'),
    V('dtype row not minimal (k<=4 -> u2)', 'B', _K, "\tif k <= 4:\n\t\treturn np.dtype('u1')", "\tif k <= 4:\n\t\treturn np.dtype('u2')", 'K8'),
    V('upper-casing removed', 'B', _K, "\t\tif char in nucs_lower:\n\t\t\thaystack = haystack.upper()\n\t\t\tbreak", "\t\tif char in nucs_lower:\n\t\t\tbreak", 'K6'),
    V('islower() guard (mixed-case input not folded; seeded C01a/C06a)', 'B', _K, "\tnucs_lower = NUCLEOTIDES.lower()\n\tfor char in haystack:\n\t\tif char in nucs_lower:\n\t\t\thaystack = haystack.upper()\n\t\t\tbreak\n",
      "\tif haystack.islower():\n\t\thaystack = haystack.upper()\n", 'K6'),
    V('E: not isupper() guard', 'E', _K, "\tnucs_lower = NUCLEOTIDES.lower()\n\tfor char in haystack:\n\t\tif char in nucs_lower:\n\t\t\thaystack = haystack.upper()\n\t\t\tbreak\n",
      "\tif not haystack.isupper():\n\t\thaystack = haystack.upper()\n"),
    V('upper-casing guard looks at upper-case letters', 'B', _K, "\tnucs_lower = NUCLEOTIDES.lower()", "\tnucs_lower = NUCLEOTIDES", 'K6'),
    V('dense accumulator returns intp dtype', 'B', _C, "return np.flatnonzero(self.array).astype(self._dtype)", "return np.flatnonzero(self.array)", 'K7'),
    V('set accumulator uses wrong k for dtype', 'B', _C, "\t\tself.set = set()\n\t\tself._dtype = index_dtype(self.k)", "\t\tself.set = set()\n\t\tself._dtype = index_dtype(8)", 'K7'),
    V('calc_signature creates a fresh accumulator per sequence (last wins)', 'B', _C,
      "\tfor seq in seqs:\n\t\taccumulate_kmers(accumulator, kmerspec, seq)\n", "\tfor seq in seqs:\n\t\taccumulator = default_accumulator(kmerspec.k)\n\t\taccumulate_kmers(accumulator, kmerspec, seq)\n", 'K9'),
    V('prefix not upper-cased in KmerSpec', 'B', _K, "prefix = seq_to_bytes(prefix).upper()", "prefix = seq_to_bytes(prefix)", 'K6'),
    V('total_len off by one', 'B', _K, "total_len=k + len(prefix),", "total_len=k + len(prefix) + 1,", 'K2.0'),
    V('miss continues instead of leaving the forward loop', 'B', _K, "\t\tloc = haystack.find(kmerspec.prefix, start, -kmerspec.k)\n\t\tif loc < 0:\n\t\t\tbreak",
      "\t\tloc = haystack.find(kmerspec.prefix, start, -kmerspec.k)\n\t\tif loc < 0:\n\t\t\treturn", None),
    V('str inputs no longer accepted', 'B', 'src/gambit/seq.py', "\tif isinstance(seq, str):\n\t\treturn seq.encode('ascii')\n", "", 'K10'),
    # behaviour-preserving
    V('E: start = 1 + loc', 'E', _K, "\t\tyield KmerMatch(kmerspec, seq, loc, False)\n\n\t\tstart = loc + 1", "\t\tyield KmerMatch(kmerspec, seq, loc, False)\n\n\t\tstart = 1 + loc"),
    V('E: local alias for prefix_len', 'E', _K, "\tprefix_rc = revcomp(kmerspec.prefix)\n", "\tprefix_rc = revcomp(kmerspec.prefix)\n\tplen = kmerspec.prefix_len\n",
      also=[(_K, "loc + kmerspec.prefix_len - 1, True)", "loc + plen - 1, True)")]),
    V('E: total_len inlined in kmer_indices', 'E', _K, "return slice(self.pos + self.kmerspec.prefix_len, self.pos + self.kmerspec.total_len)",
      "return slice(self.pos + self.kmerspec.prefix_len, self.pos + self.kmerspec.k + self.kmerspec.prefix_len)"),
    V('E: unconditional upper()', 'E', _K, "\tnucs_lower = NUCLEOTIDES.lower()\n\tfor char in haystack:\n\t\tif char in nucs_lower:\n\t\t\thaystack = haystack.upper()\n\t\t\tbreak\n",
      "\thaystack = haystack.upper()\n"),
    V('E: nested if in index_dtype', 'E', _K, "\telif k <= 16:\n\t\treturn np.dtype('u4')\n\telif k <= 32:\n\t\treturn np.dtype('u8')\n\telse:\n\t\treturn None",
      "\telse:\n\t\tif k <= 16:\n\t\t\treturn np.dtype('u4')\n\t\tif k < 33:\n\t\t\treturn np.dtype('u8')\n\t\treturn None"),
    V('E: if/else statement in kmer_index', 'E', _K, "\t\treturn kmer_to_index_rc(kmer) if self.reverse else kmer_to_index(kmer)",
      "\t\tif self.reverse:\n\t\t\treturn kmer_to_index_rc(kmer)\n\t\treturn kmer_to_index(kmer)"),
    V('E: miss test loc == -1', 'E', _K, "\t\tloc = haystack.find(prefix_rc, start)\n\t\tif loc < 0:\n\t\t\tbreak", "\t\tloc = haystack.find(prefix_rc, start)\n\t\tif loc == -1:\n\t\t\tbreak"),
    V('E: handler pass + else add', 'E', _C, "\t\texcept ValueError:\n\t\t\tcontinue\n\t\taccumulator.add(index)", "\t\texcept ValueError:\n\t\t\tpass\n\t\telse:\n\t\t\taccumulator.add(index)"),
]
