"""C13 - multi-file signature computation keeps file order under every completion order.

The schedule quantifier is decided by def-use: the slot a result is written to is the submit-time index of the
future that produced it, whatever order as_completed yields (S1); every future is awaited through .result()
outside any handler (S2); the sequential branch appends in input order (S3); the worker is the single-file
function (S4); executor lifetime (S5); list-preserving result (S6).

The rules look at the pairing / ordering, not at the statement shape: the (index, file) pairs may be produced by a `for`
statement that stores map[future] = index or by a dict comprehension {submit(...): index for index, file in enumerate(files)};
the sequential pass may be an append loop or a list comprehension; a value (the number of files, the result of a future) may
be bound to a local first; a helper that lives in another module is expanded at the call (c06.expand_foreign_helpers) and a small
state object wrapping the list / dict is replaced by its attributes as locals (c06.expand_state_objects) before the rules
run; an accumulator may be handed to the per-file call of the sequential pass only when it is new or provably cleared for every
file (S3, _accumulator_reuse); the futures may be collected in a list in file order first and indexed by their position
in that list (enumerate of the list).  S5 and S6 are decided per path (c06.sym_paths): which object receives .submit and whether it is
among the open context managers (with items, or handed to enter_context() of an ExitStack that is open there); which list object each `return` hands to SignatureList - so guard clauses with early
return, chained assignments, helper expansion and conditional expressions all reduce to the same question.
"""
import ast
import re

from ..astutil import (assigned_targets, u, guard_map, path_atoms, stmts_in, calls_in, callee, callee_attr, reaching_def, def_value,
                       PARAM, AMBIGUOUS, raised_name, assigns_to, get_arg, block_path, find_parent_map, is_none)
from ..report import Undecided
from .c06 import sym_paths, returning, subst, is_unknown, _is_simple, expand_foreign_helpers, expand_state_objects, expand_generator_loops

FN = 'gambit.sigs.calc.calc_file_signatures'
ORDER_PRESERVING_ITER = {'gambit.util.progress.iter_progress'}


def check(ctx):
    declare_rules(ctx.rep)
    core(ctx)


def declare_rules(rep):
    rep.rule('S1', 'result slot = submit-time index: map[future] = enumerate index at the submit site; store sigs[map[f]] = f.result(); pre-sized list; no positional collection')
    rep.rule('S2', 'every future is awaited via .result() in a loop over as_completed(<the same map>); no enclosing handler')
    rep.rule('S3', 'sequential branch collects calc_file_signature(kspec, file) in iteration order of files (append loop or list comprehension, no filter)')
    rep.rule('S4', 'submitted callable is calc_file_signature with (kspec, file)')
    rep.rule('S5', 'per path: an executor created here is among the open with-contexts at the submit site (shut down), a caller-supplied one never is; unknown concurrency raises')
    rep.rule('S6', 'every return hands the list filled on that path (sequential or concurrent), unmodified, to SignatureList(..., kspec); no other return')
    rep.rule('S7', 'a failing file fails the call: no context manager of the package swallows the exception raised inside its with block (__exit__ returns nothing / a false constant; @contextmanager generators do not catch around the yield without re-raising)')
    rep.trusted += ['concurrent.futures: Future.result() re-raises the worker exception; as_completed yields each given future exactly once',
                    'iter_progress / ProgressIterator yield the wrapped items unchanged and in order (checked under C08-A7)',
                    'np.flatnonzero / ndarray.astype / np.fromiter / np.sort return newly allocated arrays (an accumulator that is cleared and re-used does not alias earlier signatures)']


def unfold(fn, e, at):
    """A local that names one side-effect free expression (assigned exactly once, reaching `at`) stands for that expression."""
    seen = 0
    while isinstance(e, ast.Name) and seen < 5:
        d = reaching_def(fn, e.id, at)
        v = def_value(d) if d not in (None, PARAM, AMBIGUOUS) else None
        if v is None or len(assigns_to(fn, e.id)) != 1 or not _is_simple(v):
            break
        e, at, seen = v, d, seen + 1
    return e


def _falsy_returns(m, fi, depth=0):
    """(True, '') when every return of the function yields None / False / nothing; else (False, reason) or (None, reason) for unknown."""
    verdict, why = True, ''
    for s in stmts_in(fi.node.body):
        if not isinstance(s, ast.Return) or s.value is None:
            continue
        v = s.value
        if isinstance(v, ast.Constant):
            if v.value:
                return False, f'return {u(v)}'
            continue
        if isinstance(v, ast.Call) and depth < 2:
            r = m.resolve_call(fi, v)
            callee_fi = m.functions.get(r) if r else None
            if callee_fi is not None:
                ok, w = _falsy_returns(m, callee_fi, depth + 1)
                if ok is True:
                    continue
                return ok, f'return {u(v)} -> {callee_fi.qualname}: {w}'
        if isinstance(v, ast.Name):
            ds = [a for a in stmts_in(fi.node.body) if isinstance(a, ast.Assign) and len(a.targets) == 1 and u(a.targets[0]) == v.id]
            if len(ds) == 1:
                v = ds[0].value
        if isinstance(v, (ast.Compare, ast.BoolOp)) or (isinstance(v, ast.UnaryOp) and isinstance(v.op, ast.Not)) or (isinstance(v, ast.Constant) and v.value):
            return False, f'return {u(s.value)} (= {u(v)}): a computed truth value'
        verdict, why = None, f'return {u(v)}'
    return verdict, why


def check_no_swallow(ctx):
    rep, m = ctx.rep, ctx.model
    n = 0
    for q, fi in sorted(m.functions.items()):
        if fi.module.kind != 'py':
            continue
        if fi.name == '__exit__' and fi.cls is not None:
            ok, why = _falsy_returns(m, fi)
            n += 1
            rep.require(ok is not None, f'{q}: cannot tell whether the value returned by __exit__ is false ({why})')
            rep.add('S7', fi.site(), f'{fi.cls.node.name}.__exit__ does not suppress an exception raised inside the with block', ok, expected='no return value / None / False', found=why or 'no truthy return', stmt=f'{fi.cls.node.name}.__exit__')
        elif any(u(d) in ('contextmanager', 'contextlib.contextmanager') for d in fi.node.decorator_list):
            n += 1
            bad = []
            for t in [x for x in ast.walk(fi.node) if isinstance(x, ast.Try)]:
                if not any(isinstance(y, (ast.Yield, ast.YieldFrom)) for b in t.body for y in ast.walk(b)):
                    continue
                for h in t.handlers:
                    if not any(isinstance(y, ast.Raise) for b in h.body for y in ast.walk(b)):
                        bad.append(f'except {u(h.type) if h.type else ""}: without re-raise around the yield')
            rep.add('S7', fi.site(), f'{fi.name} (@contextmanager) does not swallow an exception raised inside the with block', not bad, expected='handlers around the yield re-raise', found=bad or 'no swallowing handler',
                    stmt=f'{fi.name} contextmanager')
    rep.floor('S7', 'context managers of the package', n, 4)


def _staged_submission(rep, fi, fn, pm, comp, sub_stmt, files):
    """futures = [submit(.., f) for f in files]; index map built from enumerate(futures).  Returns what the S1 obligations need."""
    g = comp.generators
    rep.require(len(g) == 1 and not g[0].is_async, f'{FN}: submit inside a list comprehension with several / async generators')
    rep.require(isinstance(sub_stmt, ast.Assign) and sub_stmt.value is comp and len(sub_stmt.targets) == 1 and isinstance(sub_stmt.targets[0], ast.Name),
                f'{FN}: the list of futures is not bound to a local: {u(sub_stmt)[:80]}')
    lst = sub_stmt.targets[0].id
    out = dict(listname=lst, found=u(comp), iter=g[0].iter, ivar=None, fvar=None)
    # one task per file, in the order of files: plain `for f in files` (or `for _, f in enumerate(files)`), no filter
    it, tgt = g[0].iter, g[0].target
    if isinstance(it, ast.Call) and u(it.func) == 'enumerate' and len(it.args) == 1 and not it.keywords and isinstance(tgt, ast.Tuple) and len(tgt.elts) == 2 and all(isinstance(e, ast.Name) for e in tgt.elts):
        it, tgt = it.args[0], tgt.elts[1]
    out['ok'] = u(it) == files and isinstance(tgt, ast.Name) and not g[0].ifs and len(assigns_to(fn, lst)) == 1
    out['fvar'] = tgt.id if isinstance(tgt, ast.Name) else None
    if not out['ok']:
        return out
    # every other use of the list: the pairing construct, or as_completed(<list>)
    uses = [n for n in ast.walk(fn) if isinstance(n, ast.Name) and n.id == lst and isinstance(n.ctx, ast.Load)]
    pairs, other = [], []
    for n in uses:
        par = pm.get(n)
        if isinstance(par, ast.Call) and u(par.func) == 'enumerate' and par.args == [n] and not par.keywords:
            pairs.append(par)
        elif isinstance(par, ast.Call) and ((callee(par) or '').endswith('as_completed') or u(par.func) == 'len') and par.args == [n] and not par.keywords:
            pass            # reads that neither edit nor re-order the list
        elif isinstance(par, ast.Attribute) and par.attr in ('sort', 'reverse', 'pop', 'insert', 'remove', 'append', 'extend', 'clear') and isinstance(pm.get(par), ast.Call):
            # the list is re-ordered / edited after the submissions: position k no longer holds the task of files[k]
            out['ok'], out['found'] = False, f'{u(comp)}; {u(pm.get(par))}'
            return out
        else:
            other.append(u(par)[:60])
    rep.require(not other and len(pairs) == 1, f'{FN}: the list of futures {lst} is used by a construct outside the vocabulary (enumerate({lst}) once, as_completed({lst})): {other or len(pairs)}')
    en = pairs[0]
    holder = pm.get(en)
    out['rebinds'] = []
    if isinstance(holder, ast.comprehension):
        dc = pm.get(holder)
        rep.require(isinstance(dc, ast.DictComp) and len(dc.generators) == 1 and not holder.is_async, f'{FN}: enumerate({lst}) drives {type(dc).__name__}, not a dict comprehension')
        st = pm.get(dc)
        rep.require(isinstance(st, ast.Assign) and st.value is dc and len(st.targets) == 1 and isinstance(st.targets[0], ast.Name), f'{FN}: the future->index comprehension is not bound to a local: {u(st)[:80]}')
        t = holder.target
        shape = isinstance(t, ast.Tuple) and len(t.elts) == 2 and all(isinstance(e, ast.Name) for e in t.elts)
        out['pair_ok'] = shape and u(dc.key) == t.elts[1].id and u(dc.value) == t.elts[0].id and not holder.ifs
        out['pair_found'], out['pair_site'], out['mapname'] = u(dc), st, st.targets[0].id
        out['ivar'] = t.elts[0].id if shape else None
        mdef = [x for x in assigns_to(fn, out['mapname']) if x is not st]
        out['init_ok'], out['init_found'] = not mdef, [u(x) for x in mdef]
        out['rebinds'] = [u(x) for x in ast.walk(dc) if isinstance(x, ast.NamedExpr)]
    elif isinstance(holder, ast.For) and holder.iter is en:
        t = holder.target
        shape = isinstance(t, ast.Tuple) and len(t.elts) == 2 and all(isinstance(e, ast.Name) for e in t.elts)
        rep.require(shape, f'{FN}: the loop over enumerate({lst}) does not unpack (index, future)')
        iv, fv = t.elts[0].id, t.elts[1].id
        stores = [x for x in stmts_in(holder.body) if isinstance(x, ast.Assign) and len(x.targets) == 1 and isinstance(x.targets[0], ast.Subscript) and u(x.targets[0].slice) == fv]
        rep.require(len(stores) == 1, f'{FN}: expected one `map[future] = index` store in the loop over enumerate({lst}), found {len(stores)}')
        ms = stores[0]
        out['pair_ok'] = ms in holder.body and u(ms.value) == iv and not holder.orelse and not any(isinstance(x, (ast.Break, ast.Continue, ast.Return)) for x in stmts_in(holder.body))
        out['pair_found'], out['pair_site'], out['mapname'], out['ivar'] = f'for {u(t)} in {u(en)}: {u(ms)}', ms, u(ms.targets[0].value), iv
        out['rebinds'] = [u(x) for x in stmts_in(holder.body) if x is not ms and any(isinstance(n, ast.Name) and isinstance(n.ctx, ast.Store) and n.id in (iv, fv) for n in ast.walk(x))]
        mdef = assigns_to(fn, out['mapname'])
        out['init_ok'] = len(mdef) == 1 and u(def_value(mdef[0])) in ('dict()', '{}')
        out['init_found'] = [u(x) for x in mdef]
    else:
        rep.require(False, f'{FN}: enumerate({lst}) is used by a construct outside the vocabulary: {u(holder)[:80]}')
    return out


def _accumulators_resettable(rep, m):
    """clear() of every k-mer accumulator class puts back the state the constructor creates, and signature() does not hand out
    that state itself - the two facts that make an accumulator that was cleared indistinguishable from a new one."""
    base = 'gambit.sigs.calc.KmerAccumulator'
    MUT = ('add', 'discard', 'update', 'remove', 'pop', 'append', 'extend', 'insert', 'setdefault', 'popitem', 'difference_update', 'intersection_update')
    subs = m.subclasses(base)
    rep.require(subs, f'no subclass of {base} found')
    aliasing = []
    for ci in subs:                     # a located deviation first: the array handed out IS the accumulator's state
        sig = ci.methods.get('signature')
        for s in stmts_in(sig.node.body) if sig is not None else []:
            if isinstance(s, ast.Return) and s.value is not None:
                v = s.value
                while isinstance(v, ast.Subscript):
                    v = v.value
                if isinstance(v, ast.Attribute) and u(v.value) == 'self':
                    aliasing.append(f'{ci.name}.signature returns {u(s.value)}')
    if aliasing:
        return aliasing
    for ci in subs:
        init, clear, sig = ci.methods.get('__init__'), ci.methods.get('clear'), ci.methods.get('signature')
        rep.require(init is not None and clear is not None and sig is not None, f'{ci.qualname}: __init__ / clear / signature is not defined in the class itself (an accumulator that is re-used cannot be shown to be reset)')
        inits = {t.attr: s.value for s in stmts_in(init.node.body) if isinstance(s, ast.Assign) for t in s.targets if isinstance(t, ast.Attribute) and u(t.value) == 'self'}
        mutated = set()
        for name, f in ci.methods.items():
            if name in ('__init__', 'clear'):
                continue
            for n in ast.walk(f.node):
                if isinstance(n, (ast.Assign, ast.AugAssign, ast.Delete)):
                    for t in (n.targets if not isinstance(n, ast.AugAssign) else [n.target]):
                        root = t
                        while isinstance(root, (ast.Subscript, ast.Attribute)) and not (isinstance(root, ast.Attribute) and u(root.value) == 'self'):
                            root = root.value
                        if isinstance(root, ast.Attribute) and u(root.value) == 'self':
                            rep.require(root is not t, f'{ci.qualname}.{name} rebinds self.{root.attr}: the state of a re-used accumulator cannot be followed')
                            mutated.add(root.attr)
                if isinstance(n, ast.Call) and isinstance(n.func, ast.Attribute) and n.func.attr in MUT and isinstance(n.func.value, ast.Attribute) and u(n.func.value.value) == 'self':
                    mutated.add(n.func.value.attr)
        reset = set()
        for s in clear.node.body:
            if isinstance(s, ast.Expr) and isinstance(s.value, ast.Constant):
                continue
            tgt = s.targets[0] if isinstance(s, ast.Assign) and len(s.targets) == 1 else None
            if isinstance(tgt, ast.Subscript) and isinstance(tgt.value, ast.Attribute) and u(tgt.value.value) == 'self' and u(tgt.slice) == ':' and isinstance(s.value, ast.Constant) and not s.value.value \
                    and isinstance(inits.get(tgt.value.attr), ast.Call) and callee_attr(inits[tgt.value.attr]) == 'zeros':
                reset.add(tgt.value.attr)            # array of zeros / False again
            elif isinstance(s, ast.Expr) and isinstance(s.value, ast.Call) and isinstance(s.value.func, ast.Attribute) and s.value.func.attr == 'clear' and not s.value.args \
                    and isinstance(s.value.func.value, ast.Attribute) and u(s.value.func.value.value) == 'self' and u(inits.get(s.value.func.value.attr)) in ('set()', 'dict()', 'list()', '[]', '{}'):
                reset.add(s.value.func.value.attr)   # empty container again
            elif isinstance(tgt, ast.Attribute) and u(tgt.value) == 'self' and tgt.attr in inits and u(s.value) == u(inits[tgt.attr]) and not any(isinstance(x, ast.Name) and x.id != 'self' for x in ast.walk(s.value) if isinstance(x, ast.Name) and x.id in init.params()):
                reset.add(tgt.attr)
            else:
                rep.require(False, f'{ci.qualname}.clear: statement outside the vocabulary: {u(s)[:60]}')
        rep.require(mutated <= reset, f'{ci.qualname}: clear() resets {sorted(reset)} but the other methods change {sorted(mutated)}')
    return aliasing


def _accumulator_reuse(rep, m, fi, loop, c, kspec):
    """The per-file call in the sequential loop is given accumulator=A.  Accepted only when on EVERY path through the loop body A
    is in the freshly constructed state when the call is made: None, an accumulator created in this very iteration by
    default_accumulator(kspec.k), or an accumulator of that kind that lives across iterations and was clear()ed earlier in this
    iteration with nothing touching it in between.  Returns (ok, found)."""
    QD, QF = 'gambit.sigs.calc.default_accumulator', 'gambit.sigs.calc.calc_file_signature'
    fn = fi.node

    def is_default(e):
        return isinstance(e, ast.Call) and m.resolve_call(fi, e) == QD and [u(a) for a in e.args] == [f'{kspec}.k'] and not e.keywords

    aliasing = _accumulators_resettable(rep, m)
    if aliasing:
        return False, f'an accumulator is re-used although {aliasing}'
    targets = {n.id for n in ast.walk(loop.target) if isinstance(n, ast.Name)}
    carried = {n.id for s in stmts_in(loop.body) for t in assigned_targets(s) for n in ast.walk(t) if isinstance(n, ast.Name) and isinstance(n.ctx, ast.Store)} - targets
    ok, found, npaths = True, [], 0

    def touches(e, name):
        return any(isinstance(x, ast.Name) and x.id == name for y in e.exprs() for x in ast.walk(y))

    runs = []
    for p in sym_paths(fn):
        ev = p.event_of(loop, 'loop')
        if ev is None:
            continue
        env = dict(ev.env)
        for v in carried:
            entry = env.get(v)
            rep.require(entry is None or is_none(entry) or (isinstance(entry, ast.Name) and is_default(p.defs.get(entry.id))),
                        f'{FN}: {v} enters the sequential loop with a value that is neither None nor default_accumulator({kspec}.k): {u(entry)}')
            if isinstance(entry, ast.Name) and any(touches(e, entry.id) for e in p.events[:p.events.index(ev)] if not (e.kind == 'def' and e.sym == entry.id)):
                rep.require(False, f'{FN}: {entry.id} is used before the sequential loop by a construct that is not interpreted')
            env[v] = ast.Name(id=f'{v}~0', ctx=ast.Load())
        runs.append((p, sym_paths(fn, block=loop.body, env=env)))
    # does every iteration leave the accumulator it passes on empty (cleared after use, or not used)?  Then, by induction over
    # the iterations, the inherited one is empty at the top of every iteration as well (it starts as None / new).
    leaves_clean = True
    for p, body in runs:
        for b in body:
            for v in carried:
                out = subst(ast.Name(id=v, ctx=ast.Load()), b.env)
                if isinstance(out, ast.Name) and not is_none(out):
                    last = [e for e in b.events if touches(e, out.id) and not (e.kind == 'def' and e.sym == out.id)]
                    if last and not (last[-1].kind == 'call' and u(last[-1].expr) == f'{out.id}.clear()'):
                        leaves_clean = False
    for p, body in runs:
        for b in body:
            npaths += 1
            calls = [(i, x) for i, e in enumerate(b.events) for y in e.exprs() for x in ast.walk(y) if isinstance(x, ast.Call) and m.resolve_call(fi, x) == QF]
            if b.end[0] != 'fall' or len(calls) != 1:
                ok = False
                found.append(f'{len(calls)} calls on a path that ends in {b.end[0]}')
                continue
            at, call = calls[0]
            a = next((k.value for k in call.keywords if k.arg == 'accumulator'), None)
            for v in carried:                      # what the next iteration inherits
                out = subst(ast.Name(id=v, ctx=ast.Load()), b.env)
                rep.require(is_none(out) or (isinstance(out, ast.Name) and (out.id == f'{v}~0' or is_default(b.defs.get(out.id)))),
                            f'{FN}: {v} leaves an iteration of the sequential loop with a value outside the vocabulary: {u(out)}')
            if a is None or is_none(a) or is_default(a):
                continue                        # nothing given / a new accumulator built in the call itself
            rep.require(isinstance(a, ast.Name) and not is_unknown(a), f'{FN}: cannot follow the accumulator handed to calc_file_signature: {u(a)}')
            made_here = a.id in b.defs and a.id not in p.defs
            if made_here:
                rep.require(is_default(b.defs[a.id]), f'{FN}: the accumulator handed to calc_file_signature is built by a construct outside the vocabulary: {u(b.defs[a.id])[:60]}')
                continue
            lives_on = a.id.endswith('~0') or is_default(p.defs.get(a.id))
            if not lives_on:
                rep.require(a.id in p.defs or a.id in fi.params(), f'{FN}: cannot follow the accumulator handed to calc_file_signature: {a.id}')
                ok = False
                found.append(f'{a.id} is shared between files and is not an accumulator created here')
                continue
            if a.id.endswith('~0') and not b.feasible_with(('isnot', 'None', a.id)):
                continue                        # known to be None here: the callee creates a new one
            cleared = [i for i, e in enumerate(b.events[:at]) if e.kind == 'call' and u(e.expr) == f'{a.id}.clear()']
            touched = [u(e.stmt)[:50] for e in b.events[(cleared[-1] + 1 if cleared else 0):at] if touches(e, a.id)]
            inherited_clean = leaves_clean and a.id.endswith('~0')
            if (not cleared and not inherited_clean) or touched:
                ok = False
                found.append(f'{a.id} carries the k-mers of the previous file: ' + ('neither cleared before the call nor left empty by every iteration' if not touched else f'used before the call: {touched}'))
    rep.require(npaths > 0, f'{FN}: no path through the sequential loop')
    return ok, sorted(set(found)) or 'fresh or cleared on every path'


def _executor_lifetime(rep, m, fi, fn, gm, sub, sub_scope, cloop, with_owner):
    # ------------------------------------------------------------------ S5: executor lifetime, decided per path
    # On every path that reaches the submissions: which object receives .submit, and is it among the context managers that
    # are open there?  An executor created on that path must be (it is shut down by the with); the caller's must not be.
    exn = 'executor'
    paths = sym_paths(fn)
    n_own = n_foreign = 0
    ctors = {}
    for p in paths:
        ev = p.event_of(sub_scope)
        if ev is None:
            continue
        recv = subst(sub.func.value, ev.env)
        rep.require(isinstance(recv, ast.Name) and not is_unknown(recv), f'{FN}: cannot follow the object that receives .submit ({u(recv)})')
        items = [(w, x) for w in ev.withs for x in p.event_of(w, 'enter').expr]
        at = p.atoms()
        held = [w for (w, x) in items if u(x) == recv.id]
        before = p.events[:p.events.index(ev)]
        # an ExitStack that is open here manages whatever was handed to its enter_context() before the submissions
        stacks = {e.sym: e.stmt for e in before if e.kind == 'def' and isinstance(e.stmt, ast.With) and any(e.stmt is w for w in ev.withs)
                  and isinstance(e.expr, ast.Call) and e.expr.args and isinstance(e.expr.args[0], ast.Call) and (m.resolve_call(fi, e.expr.args[0]) or '') == 'contextlib.ExitStack'}
        for e in before:
            c = e.expr if e.kind == 'call' else (p.defs.get(e.sym) if e.kind == 'def' else None)
            if isinstance(c, ast.Call) and isinstance(c.func, ast.Attribute) and isinstance(c.func.value, ast.Name) and c.func.value.id in stacks and any(u(a) == recv.id for a in c.args):
                rep.require(c.func.attr == 'enter_context' and len(c.args) == 1 and not c.keywords, f'{FN}: the executor is handed to the exit stack by a construct outside the vocabulary: {u(c)}')
                held.append(stacks[c.func.value.id])
                items.append((stacks[c.func.value.id], c))
        # a context manager built from the executor by something else (closing(executor), a helper ...) is not interpreted;
        # neither is an explicit shutdown() in place of a with
        wrapped = [u(p.resolve(x)) for (_, x) in items if u(x) != recv.id and not (isinstance(x, ast.Call) and isinstance(x.func, ast.Attribute) and x.func.attr == 'enter_context')
                   and any(isinstance(n, ast.Name) and n.id == recv.id for n in ast.walk(p.resolve(x)))]
        shut = [u(e.expr) for e in p.events if e.kind == 'call' and isinstance(e.expr, ast.Call) and u(e.expr.func) == f'{recv.id}.shutdown']
        rep.require(not wrapped, f'{FN}: the executor reaches a with statement through a construct outside the vocabulary: {wrapped}')
        if recv.id in p.defs:
            n_own += 1
            rep.require(held or not shut, f'{FN}: an executor created here is shut down by an explicit call instead of a with statement: {shut}')
            rep.add('S5', fi.site(held[0] if held else sub_scope), 'only an executor created here becomes the with-context (and is shut down)', bool(held),
                    expected=f'with <the executor created under {sorted(a for a in at if "concurrency" in a[1:] and a[0] == "eq")}>', found=[u(x) for _, x in items], stmt='own executor context')
            ctor = p.defs[recv.id]
            rep.require(isinstance(ctor, ast.Call) and isinstance(ctor.func, (ast.Name, ast.Attribute)) and not is_unknown(ctor),
                        f'{FN}: the executor is created by a construct outside the vocabulary (a direct call of the executor class is interpreted): {u(ctor)[:80]}')
            mode = next((a[2] if a[1] == 'concurrency' else a[1] for a in at if a[0] == 'eq' and 'concurrency' in a[1:]), None)
            ctors.setdefault(mode, []).append((p.defs[recv.id], next(e.stmt for e in p.events if e.kind == 'def' and e.sym == recv.id), ('is', 'None', exn) in at))
        else:
            rep.require(recv.id == exn, f'{FN}: .submit is called on {recv.id}, which is neither the executor parameter nor an executor created here')
            rep.require(('isnot', 'None', exn) in at, f'{FN}: the concurrent branch is reachable with executor None ({sorted(at)})')
            n_foreign += 1
            rep.add('S5', fi.site(held[0] if held else sub_scope), 'a caller-supplied executor is never the with-context (left open for the caller)', not held and not shut,
                    expected=f'no `with {exn}` under `{exn} is not None`', found=[u(x) for _, x in items], stmt='foreign executor context')
    rep.floor('S5', 'paths that submit to an executor created here', n_own, 1)
    rep.floor('S5', 'paths that submit to the caller\'s executor', n_foreign, 1)
    both_in_with = with_owner is not None and any(x is cloop for x in ast.walk(with_owner)) and any(x is sub_scope for x in ast.walk(with_owner))
    rep.add('S5', fi.site(cloop), 'results are collected before the executor context exits', both_in_with, expected='completion loop inside the with', found=both_in_with,
            stmt='collection inside with')
    raises = [s for s in stmts_in(fn.body) if isinstance(s, ast.Raise)]
    okr = any(raised_name(r) == 'ValueError' and ('isnot', 'None', 'concurrency') in path_atoms(gm[r]) for r in raises)
    rep.add('S5', fi.site(raises[0] if raises else fn), 'an unknown concurrency mode raises instead of silently running sequentially', okr,
            expected="raise ValueError under concurrency not in {'threads','processes',None}", found=[(raised_name(r), sorted(path_atoms(gm[r]))) for r in raises],
            stmt='unknown concurrency')
    want = {"'threads'": 'ThreadPoolExecutor', "'processes'": 'ProcessPoolExecutor'}
    for mode, cls in want.items():
        got = ctors.get(mode, [])
        good = bool(got) and all(isinstance(c, ast.Call) and (m.resolve_call(fi, c) or callee(c) or '').endswith(cls) and u(get_arg(c, 0, 'max_workers')) == 'max_workers' and fresh for (c, _, fresh) in got)
        rep.add('S5', fi.site(got[0][1]) if got else fi.site(), f'concurrency={mode} builds a {cls} with the requested worker count (only when the caller gave no executor)',
                good, expected=f'{cls}(max_workers=max_workers)', found=[u(c) for (c, _, _) in got] or None, stmt=f'executor[{mode}]')
    stray = {k: [u(c) for (c, _, _) in v] for k, v in ctors.items() if k not in want}
    rep.add('S5', fi.site(), 'executors are created for the two documented concurrency modes only', not stray, expected='none', found=stray, stmt='executor[other]')

    return paths


def _pair_append(fn, pm, value):
    """(list name, tuple, append statement) when `value` is one element of a 2-tuple that is appended to a list, directly or
    through a local that names the tuple; else None."""
    tup = pm.get(value)
    if not (isinstance(tup, ast.Tuple) and len(tup.elts) == 2):
        return None
    holder = pm.get(tup)
    if isinstance(holder, ast.Call) and callee_attr(holder) == 'append' and len(holder.args) == 1 and holder.args[0] is tup and isinstance(holder.func.value, ast.Name) and isinstance(pm.get(holder), ast.Expr):
        return holder.func.value.id, tup, pm.get(holder)
    if isinstance(holder, ast.Assign) and holder.value is tup and len(holder.targets) == 1 and isinstance(holder.targets[0], ast.Name):
        t = holder.targets[0].id
        apps = [s for s in stmts_in(fn.body) if isinstance(s, ast.Expr) and isinstance(s.value, ast.Call) and callee_attr(s.value) == 'append' and isinstance(s.value.func.value, ast.Name)
                and len(s.value.args) == 1 and isinstance(s.value.args[0], ast.Name) and s.value.args[0].id == t and reaching_def(fn, t, s) is holder]
        if len(apps) == 1:
            return apps[0].value.func.value.id, tup, apps[0]
    return None


def _tagged_style(m, fi, fn, pm):
    """The other way to keep file order under any completion order: every result is collected together with a TAG of its task,
    (tag, result) pairs are appended as they arrive and put in order afterwards by a sort on the tag.  Detected by the result
    of a completed future being one half of an appended pair.  Returns the pieces, or None for the slot style."""
    acs = [c for c in calls_in(fn) if (m.resolve_call(fi, c) or callee(c) or '').endswith('as_completed')]
    if len(acs) != 1:
        return None
    cloop = pm.get(acs[0])
    if not (isinstance(cloop, ast.For) and cloop.iter is acs[0] and isinstance(cloop.target, ast.Name)):
        return None
    results = [c for c in calls_in(cloop) if callee_attr(c) == 'result' and u(c.func.value) == cloop.target.id]
    if len(results) != 1:
        return None
    pa = _pair_append(fn, pm, results[0])
    if pa is None:
        return None
    return dict(ac=acs[0], cloop=cloop, res=results[0], lst=pa[0], tup=pa[1], app=pa[2])


def _tagged_core(ctx, fi, st):
    rep, m = ctx.rep, ctx.model
    fn = fi.node
    kspec, files = fi.params()[:2]
    gm, pm = guard_map(fn), find_parent_map(fn)
    QF = 'gambit.sigs.calc.calc_file_signature'
    cloop, res, L, tup, app, ac = st['cloop'], st['res'], st['lst'], st['tup'], st['app'], st['ac']
    cf = cloop.target.id

    def over_files(it, tgt):
        """(index variable or None, file variable) of an iteration that visits every file once, in order"""
        if isinstance(it, ast.Call) and u(it.func) == 'enumerate' and [u(a) for a in it.args] == [files] and not it.keywords and isinstance(tgt, ast.Tuple) and len(tgt.elts) == 2 \
                and all(isinstance(e, ast.Name) for e in tgt.elts):
            return tgt.elts[0].id, tgt.elts[1].id
        if u(it) == files and isinstance(tgt, ast.Name):
            return None, tgt.id
        return None

    # ---------------------------------------------------------------- submit site: which tag is recorded for a future
    submits = [c for c in calls_in(fn) if callee_attr(c) == 'submit']
    rep.floor('S1', 'submit sites', len(submits), 1)
    rep.require(len(submits) == 1, f'{FN}: expected exactly one submit site, found {len(submits)}')
    sub = submits[0]
    rep.call_sites += 1
    sub_stmt = next((s for s in stmts_in(fn.body) if isinstance(s, (ast.Assign, ast.Expr)) and any(x is sub for x in ast.walk(s))), None)
    rep.require(sub_stmt is not None, f'{FN}: the submit call is not part of an assignment or expression statement')
    drive = pm.get(sub)
    while drive is not None and not isinstance(drive, (ast.For, ast.DictComp, ast.ListComp, ast.SetComp, ast.GeneratorExp, ast.Lambda, ast.stmt)):
        drive = pm.get(drive)
    if isinstance(drive, ast.DictComp) and drive.key is sub and len(drive.generators) == 1 and not drive.generators[0].is_async:
        g = drive.generators[0]
        rep.require(isinstance(sub_stmt, ast.Assign) and sub_stmt.value is drive and len(sub_stmt.targets) == 1 and isinstance(sub_stmt.targets[0], ast.Name), f'{FN}: the future->tag comprehension is not bound to a local')
        it, tgt, filt, tagx, mapname, sub_scope = g.iter, g.target, bool(g.ifs), drive.value, sub_stmt.targets[0].id, sub_stmt
        init_ok, init_found = not [x for x in assigns_to(fn, mapname) if x is not sub_stmt], u(sub_stmt)[:80]
        store_site = drive
    else:
        sub_loop = next((o for (_, _, o) in reversed(block_path(fn, sub_stmt)) if isinstance(o, ast.For)), None)
        rep.require(sub_loop is not None and drive is sub_stmt, f'{FN}: submit is neither inside a for loop nor the key of a dict comprehension ({type(drive).__name__})')
        if isinstance(sub_stmt, ast.Assign) and isinstance(sub_stmt.targets[0], ast.Name) and sub_stmt.value is sub:
            stores = [s for s in stmts_in(sub_loop.body) if isinstance(s, ast.Assign) and isinstance(s.targets[0], ast.Subscript) and u(s.targets[0].slice) == sub_stmt.targets[0].id]
        else:
            stores = [sub_stmt] if isinstance(sub_stmt, ast.Assign) and isinstance(sub_stmt.targets[0], ast.Subscript) and sub_stmt.targets[0].slice is sub else []
        rep.require(len(stores) == 1, f'{FN}: expected one `map[future] = tag` store next to the submit, found {len(stores)}')
        ms = stores[0]
        it, tgt, filt, tagx, mapname, sub_scope = sub_loop.iter, sub_loop.target, not (ms in sub_loop.body and sub_stmt in sub_loop.body), ms.value, u(ms.targets[0].value), sub_loop
        mdef = assigns_to(fn, mapname)
        init_ok, init_found = len(mdef) == 1 and u(def_value(mdef[0])) in ('dict()', '{}'), [u(x) for x in mdef]
        store_site = ms
    vars_ = over_files(it, tgt)
    rep.add('S1', fi.site(sub_scope), 'tasks are submitted in one pass over enumerate(files)', vars_ is not None, expected=f'one task per element of {files}, in order', found=u(it), stmt='submit loop')
    rep.require(vars_ is not None, f'{FN}: submissions are not driven by one pass over {files}')
    ivar, fvar = vars_
    wk = m.resolve(fi.module, sub.args[0]) if sub.args else None
    rep.add('S4', fi.site(sub), 'the worker is the single-file function with the same parameters and this file', wk == QF and [u(a) for a in sub.args[1:]] == [kspec, fvar] and not sub.keywords,
            expected=f'submit(calc_file_signature, {kspec}, {fvar})', found=u(sub), stmt='submit call')
    kind = 'index' if ivar is not None and u(tagx) == ivar else 'file' if u(tagx) == fvar else None
    rep.require(kind is not None, f'{FN}: the tag recorded for a future is neither the index nor the file of its own submission: {u(tagx)}')
    rep.add('S1', fi.site(store_site), 'the future is recorded unconditionally in the iteration that submitted it, with that iteration\'s index', not filt,
            expected='every future recorded with the tag of its own submission', found=u(store_site)[:100], stmt='map store')
    rep.add('S1', fi.site(store_site), 'the future->index map starts empty', init_ok, expected='filled by the submissions only', found=init_found, stmt='map init')

    # ---------------------------------------------------------------- completion loop: (tag of this future, its result) appended
    rep.add('S2', fi.site(cloop), 'the completion loop waits on exactly the recorded futures', [u(a) for a in ac.args] in ([mapname], [f'{mapname}.keys()'], [f'list({mapname})']),
            expected=f'as_completed({mapname})', found=u(ac), stmt='as_completed')
    res_stmt = next(s for s in stmts_in(cloop.body) if any(x is res for x in ast.walk(s)) and isinstance(s, (ast.Assign, ast.Expr)))
    for what, s_ in (('result', res_stmt), ('store', app)):
        rbp = block_path(fn, s_)
        inner = rbp[[i for i, (_, _, o) in enumerate(rbp) if o is cloop][0] + 1:]
        if what == 'result':
            in_try = [o for (_, _, o) in rbp if isinstance(o, ast.Try) and o.handlers]
            rep.add('S2', fi.site(s_), 'a worker exception propagates: .result() is not inside a try with handlers', not in_try, expected='no handler', found=[u(h.type) for t in in_try for h in t.handlers], stmt='result handler')
        cond = [type(o).__name__ for (_, _, o) in inner if isinstance(o, (ast.If, ast.Try, ast.While, ast.For))]
        rep.add('S2', fi.site(s_), 'every completed future has its result taken (unconditional in the loop body)' if what == 'result' else 'every result taken is stored (unconditional in the loop body)',
                not cond and not cloop.orelse, expected='unconditional', found=cond, stmt=f'{what} unconditional')
    leaves = [s for s in stmts_in(cloop.body) if isinstance(s, (ast.Break, ast.Return, ast.Continue))]
    rep.add('S2', fi.site(cloop), 'the completion loop is never left early', not leaves, expected='no break/return/continue', found=[u(s) for s in leaves], stmt='completion loop exits')
    t = 1 if tup.elts[0] is res else 0            # position of the tag in the pair
    tag_c = unfold(fn, tup.elts[t], app)
    own = isinstance(tag_c, ast.Subscript) and u(tag_c.value) == mapname and u(tag_c.slice) == cf
    rep.add('S1', fi.site(app), 'the tag collected with a result is the one recorded for the future that produced it', own, expected=f'({mapname}[{cf}], {cf}.result())', found=u(tup), stmt='result tag')
    rep.require(own, f'{FN}: the tag paired with the result of a future is not {mapname}[{cf}]')

    # ---------------------------------------------------------------- S3: sequential branch appends (tag, result) of each file in order
    seq_calls = [c for c in calls_in(fn) if m.resolve_call(fi, c) == QF]
    rep.floor('S3', 'direct calls of calc_file_signature', len(seq_calls), 1)
    seq_loops = []
    for c in seq_calls:
        pa = _pair_append(fn, pm, c)
        rep.require(pa is not None, f'{FN}: the sequential result is not collected as a (tag, result) pair like the concurrent one: {u(pm.get(c))[:80]}')
        l2, tup2, app2 = pa
        loop = next((o for (_, _, o) in reversed(block_path(fn, app2)) if isinstance(o, ast.For)), None)
        rep.require(loop is not None, f'{FN}: sequential call outside a for loop')
        v2 = over_files(loop.iter, loop.target)
        t2 = 1 if tup2.elts[0] is c else 0
        tagv = unfold(fn, tup2.elts[t2], app2)
        k2 = None if v2 is None else ('index' if v2[0] is not None and u(tagv) == v2[0] else 'file' if u(tagv) == v2[1] else None)
        ok = v2 is not None and l2 == L and t2 == t and k2 == kind and [u(a) for a in c.args] == [kspec, v2[1]] and not c.keywords and app2 in loop.body and not loop.orelse \
            and not any(isinstance(x, (ast.Break, ast.Continue, ast.Return)) for x in stmts_in(loop.body))
        rep.add('S3', fi.site(app2), 'sequential branch appends the single-file result of each file, in the order of files', ok,
                expected=f'for ... in {files}: {L}.append((<{kind} of the file>, calc_file_signature({kspec}, file)))', found=f'for {u(loop.target)} in {u(loop.iter)}: {u(tup2)}', stmt='sequential append')
        seq_loops.append(loop)
    ldefs = assigns_to(fn, L)
    rep.add('S3', fi.site(ldefs[0] if ldefs else app), 'the sequential result list starts empty', len(ldefs) == 1 and isinstance(def_value(ldefs[0]), ast.List) and not def_value(ldefs[0]).elts,
            expected=f'{L} = [] once, before both branches', found=[u(x) for x in ldefs], stmt='sequential init')

    # ---------------------------------------------------------------- S1: the order is restored by the tag, and the tag must be the submission index
    uses = [n for n in ast.walk(fn) if isinstance(n, ast.Name) and n.id == L and isinstance(n.ctx, ast.Load)]
    sorts, projs, other = [], [], []
    for n in uses:
        par = pm.get(n)
        if isinstance(par, ast.Attribute) and par.attr == 'append':
            continue
        if isinstance(par, ast.Attribute) and par.attr == 'sort' and isinstance(pm.get(par), ast.Call) and isinstance(pm.get(pm.get(par)), ast.Expr):
            sorts.append(pm.get(par))
        elif isinstance(par, ast.comprehension) and par.iter is n and isinstance(pm.get(par), ast.ListComp):
            projs.append(pm.get(par))
        else:
            other.append(u(par)[:60])
    rep.require(not other, f'{FN}: the list of (tag, result) pairs is used by a construct outside the vocabulary (append, one sort, the projection of the results): {other}')
    site = fi.site(sorts[0] if sorts else app)
    if len(sorts) != 1:
        rep.add('S1', site, 'each result is stored at the index recorded for the future that produced it (independent of completion order)', False,
                expected=f'{L}.sort(key=<submission index>) once, after all results arrived', found=f'{len(sorts)} sorts of the pairs collected in completion order', stmt='result store')
        rep.require(False, f'{FN}: the pairs are not put in order by exactly one sort')
    srt = sorts[0]
    after = all(x.lineno < srt.lineno for x in [cloop] + seq_loops) and not any(isinstance(o, (ast.For, ast.While, ast.If)) for (_, _, o) in block_path(fn, pm[srt]))
    key = next((k.value for k in srt.keywords if k.arg == 'key'), None)
    rev = next((k.value for k in srt.keywords if k.arg == 'reverse'), None)
    rep.require(not srt.args and all(k.arg in ('key', 'reverse') for k in srt.keywords), f'{FN}: sort with arguments outside the vocabulary: {u(srt)}')
    by = None                   # the expression the pairs are ordered by, in terms of the tag `TAG`
    if key is None:
        by = 'TAG' if t == 0 else None
    elif isinstance(key, ast.Lambda) and len(key.args.args) == 1 and not (key.args.vararg or key.args.kwarg or key.args.kwonlyargs or key.args.defaults):
        class _R(ast.NodeTransformer):
            def visit_Subscript(self, node):
                if isinstance(node.value, ast.Name) and node.value.id == key.args.args[0].arg and isinstance(node.slice, ast.Constant) and node.slice.value == t:
                    return ast.Name(id='TAG', ctx=ast.Load())
                self.generic_visit(node)
                return node
        import copy as _copy
        body = _R().visit(_copy.deepcopy(key.body))
        by = None if any(isinstance(x, ast.Name) and x.id == key.args.args[0].arg for x in ast.walk(body)) else body
        by = u(by) if by is not None else None
    elif isinstance(key, ast.Call) and m.resolve_call(fi, key) == 'operator.itemgetter' and len(key.args) == 1 and isinstance(key.args[0], ast.Constant) and key.args[0].value == t:
        by = 'TAG'
    rep.require(by is not None, f'{FN}: the sort key does not order the pairs by their tag alone: {u(key) if key is not None else "natural order of pairs whose tag is second"}')
    desc = 'each result is stored at the index recorded for the future that produced it (independent of completion order)'
    exp = f'{L}.sort(key=lambda pair: pair[{t}]) with the submission index as tag'
    if by == 'TAG' and kind == 'index':
        rep.add('S1', site, desc, after and (rev is None or (isinstance(rev, ast.Constant) and not rev.value)), expected=exp, found=u(srt), stmt='result store')
    elif kind == 'file':
        # the position is derived from the FILE OBJECT: two submissions of equal files share that key, so a result can land in
        # the slot of another submission - whatever the lookup is (a dict built from the files, files.index(..), the file itself)
        look = by
        m_ = re.fullmatch(r'(\w+)\[TAG\]', by)
        if m_:
            d = [x for x in assigns_to(fn, m_.group(1))]
            look = f'{by} with {u(d[0])}' if len(d) == 1 else by
        rep.add('S1', site, desc, False, expected=exp + ' (a position looked up by the file is shared by equal files)', found=f'{u(srt)}: position = {look}, TAG = the submitted file ({fvar})', stmt='result store')
    else:
        rep.require(False, f'{FN}: the pairs are ordered by {by} of the submission index, which is not interpreted')

    # ---------------------------------------------------------------- S5, S6
    bp = block_path(fn, sub_stmt)
    with_owner = next((o for (_, _, o) in bp if isinstance(o, ast.With)), None)
    _executor_lifetime(rep, m, fi, fn, gm, sub, sub_scope, cloop, with_owner)
    s_pos = 1 - t
    rets = [s for s in stmts_in(fn.body) if isinstance(s, ast.Return)]
    for r in rets:
        v = r.value
        pj = v.args[0] if isinstance(v, ast.Call) and m.resolve_call(fi, v) == 'gambit.sigs.base.SignatureList' and len(v.args) >= 2 and u(v.args[1]) == kspec else None
        pj = unfold(fn, pj, r) if pj is not None else None
        good = isinstance(pj, ast.ListComp) and any(pj is x for x in projs) and len(pj.generators) == 1 and not pj.generators[0].ifs and r.lineno > srt.lineno and r in fn.body
        if good:
            g, e = pj.generators[0], pj.elt
            if isinstance(g.target, ast.Tuple) and len(g.target.elts) == 2 and all(isinstance(x, ast.Name) for x in g.target.elts):
                good = u(e) == g.target.elts[s_pos].id
            else:
                good = isinstance(g.target, ast.Name) and isinstance(e, ast.Subscript) and u(e.value) == g.target.id and isinstance(e.slice, ast.Constant) and e.slice.value == s_pos
        rep.add('S6', fi.site(r), 'the result is the list of signatures in slot order, with the k-mer parameters', good, expected=f'SignatureList([result for tag, result in {L}], {kspec}) after the sort',
                found=u(v)[:100] if v is not None else None, stmt='result')
    rep.add('S6', fi.site(), 'no other return path', len(rets) == 1, expected='one return', found=[u(r)[:60] for r in rets], stmt='returns')
    sl = m.func('gambit.sigs.base.SignatureList.__init__')
    rep.functions.add(sl.qualname)
    lst = [s for s in sl.node.body if isinstance(s, ast.Assign) and u(s.targets[0]) == 'self._list']
    rep.add('S6', sl.site(lst[0] if lst else None), 'SignatureList keeps the given order (list(signatures))', len(lst) == 1 and u(lst[0].value) == f'list({sl.params()[1]})',
            expected='self._list = list(signatures)', found=[u(s) for s in lst], stmt='SignatureList storage')


def core(ctx):
    check_no_swallow(ctx)
    rep, m = ctx.rep, ctx.model
    fi = expand_foreign_helpers(m, m.func(FN))
    fi, gnotes = expand_generator_loops(m, fi)
    fi, notes = expand_state_objects(m, fi)
    notes = gnotes + notes
    rep.functions.add(fi.qualname)
    if notes:
        try:
            return _core(ctx, fi)
        except Undecided as e:
            raise Undecided(f'{e} [not followed by value flow: {"; ".join(notes)}]')
    return _core(ctx, fi)


def _core(ctx, fi):
    rep, m = ctx.rep, ctx.model
    fn = fi.node
    params = fi.params()
    rep.require(params[:2] == ['kspec', 'files'] and 'executor' in params, f'{FN}: parameters changed: {params}')
    kspec, files = params[0], params[1]
    gm = guard_map(fn)
    pm = find_parent_map(fn)
    style = _tagged_style(m, fi, fn, pm)
    if style is not None:
        return _tagged_core(ctx, fi, style)

    # ------------------------------------------------------------------ S1 / S4: submit site
    submits = [c for c in calls_in(fn) if callee_attr(c) == 'submit']
    rep.floor('S1', 'submit sites', len(submits), 1)
    rep.require(len(submits) == 1, f'{FN}: expected exactly one submit site, found {len(submits)}')
    sub = submits[0]
    rep.call_sites += 1
    sub_stmt = next((s for s in stmts_in(fn.body) if isinstance(s, (ast.Assign, ast.Expr)) and any(x is sub for x in ast.walk(s))), None)
    rep.require(sub_stmt is not None, f'{FN}: the submit call is not part of an assignment or expression statement')
    bp = block_path(fn, sub_stmt)
    # the iteration that drives the submissions: the innermost enclosing `for` statement, or the generator of a dict
    # comprehension {submit(...): index for index, file in enumerate(files)} - either way one (index, file) pair per task
    drive = pm.get(sub)
    while drive is not None and not isinstance(drive, (ast.For, ast.DictComp, ast.ListComp, ast.SetComp, ast.GeneratorExp, ast.Lambda, ast.stmt)):
        drive = pm.get(drive)
    staged = None
    if isinstance(drive, ast.DictComp):
        rep.require(len(drive.generators) == 1 and not drive.generators[0].is_async, f'{FN}: submit inside a dict comprehension with several / async generators')
        sub_loop = None
        sub_scope = sub_stmt
        it, tgt = drive.generators[0].iter, drive.generators[0].target
    elif isinstance(drive, ast.ListComp) and drive.elt is sub:
        # two stages: futures = [submit(.., f) for f in files] keeps the order of files (position k holds the task of files[k]);
        # the index of a future is then its position in that list: {future: k for k, future in enumerate(futures)}
        staged = _staged_submission(rep, fi, fn, pm, drive, sub_stmt, files)
        sub_loop = None
        sub_scope = sub_stmt
    else:
        sub_loop = next((o for (_, _, o) in reversed(bp) if isinstance(o, ast.For)), None)
        rep.require(sub_loop is not None and drive is sub_stmt, f'{FN}: submit is neither inside a for loop nor the key of a dict comprehension ({type(drive).__name__})')
        sub_scope = sub_loop
        it, tgt = sub_loop.iter, sub_loop.target
    if staged is not None:
        en_ok, it, ivar, fvar = staged['ok'], staged['iter'], staged['ivar'], staged['fvar']
        rep.add('S1', fi.site(sub_scope), 'tasks are submitted in one pass over enumerate(files)', en_ok, expected=f'[submit(.., f) for f in {files}] indexed by position', found=staged['found'], stmt='submit loop')
        rep.require(en_ok, f'{FN}: submissions are not driven by one pass over {files}: {staged["found"]}')
    else:
        en_ok = isinstance(it, ast.Call) and u(it.func) == 'enumerate' and [u(a) for a in it.args] == [files] and not it.keywords \
            and isinstance(tgt, ast.Tuple) and len(tgt.elts) == 2 and all(isinstance(e, ast.Name) for e in tgt.elts)
        rep.add('S1', fi.site(sub_scope), 'tasks are submitted in one pass over enumerate(files)', en_ok, expected=f'for i, file in enumerate({files})', found=u(it),
                stmt='submit loop')
        rep.require(en_ok, f'{FN}: submissions are not driven by `for i, f in enumerate({files})`')
        ivar, fvar = (e.id for e in tgt.elts)
    wk = m.resolve(fi.module, sub.args[0]) if sub.args else None
    rep.add('S4', fi.site(sub), 'the worker is the single-file function with the same parameters and this file',
            wk == 'gambit.sigs.calc.calc_file_signature' and [u(a) for a in sub.args[1:]] == [kspec, fvar] and not sub.keywords,
            expected=f'submit(calc_file_signature, {kspec}, {fvar})', found=u(sub), stmt='submit call')
    if staged is not None:
        fut = None
        mapname = staged['mapname']
        rep.add('S1', fi.site(staged['pair_site']), 'the future is recorded unconditionally in the iteration that submitted it, with that iteration\'s index',
                staged['pair_ok'], expected=f'{{future: k for k, future in enumerate({staged["listname"]})}}', found=staged['pair_found'], stmt='map store')
        rep.add('S1', fi.site(sub_stmt), 'neither the index nor the future variable is rebound inside the submit loop', not staged['rebinds'], expected='none', found=staged['rebinds'], stmt='submit loop rebinding')
        rep.add('S1', fi.site(staged['pair_site']), 'the future->index map starts empty', staged['init_ok'], expected='built from the list of futures only', found=staged['init_found'], stmt='map init')
    elif sub_loop is None:
        # comprehension form: the pairing future -> index is the key/value pair itself; the map is born complete
        rep.require(drive.key is sub, f'{FN}: the future is not the key of the comprehension that submits it: {u(drive)[:80]}')
        rep.require(isinstance(sub_stmt, ast.Assign) and sub_stmt.value is drive and len(sub_stmt.targets) == 1 and isinstance(sub_stmt.targets[0], ast.Name),
                    f'{FN}: the future->index comprehension is not bound to a local: {u(sub_stmt)[:80]}')
        fut = None
        mapname = sub_stmt.targets[0].id
        rep.add('S1', fi.site(drive), 'the future is recorded unconditionally in the iteration that submitted it, with that iteration\'s index',
                u(drive.value) == ivar and not drive.generators[0].ifs, expected=f'{{submit(...): {ivar} for {ivar}, {fvar} in enumerate({files})}}', found=u(drive), stmt='map store')
        walrus = [x for x in ast.walk(drive) if isinstance(x, ast.NamedExpr)]
        rep.add('S1', fi.site(drive), 'neither the index nor the future variable is rebound inside the submit loop', not walrus, expected='none', found=[u(x) for x in walrus], stmt='submit loop rebinding')
        mdef = [x for x in assigns_to(fn, mapname) if x is not sub_stmt]
        rep.add('S1', fi.site(sub_stmt), 'the future->index map starts empty', not mdef, expected='built by the comprehension only', found=[u(x) for x in mdef], stmt='map init')
    else:
        # the future returned by submit
        if isinstance(sub_stmt, ast.Assign) and isinstance(sub_stmt.targets[0], ast.Name) and sub_stmt.value is sub:
            fut = sub_stmt.targets[0].id
            map_stores = [s for s in stmts_in(sub_loop.body) if isinstance(s, ast.Assign) and isinstance(s.targets[0], ast.Subscript)
                          and u(s.targets[0].slice) == fut]
        else:
            fut = None
            map_stores = [sub_stmt] if isinstance(sub_stmt, ast.Assign) and isinstance(sub_stmt.targets[0], ast.Subscript) and \
                sub_stmt.targets[0].slice is sub else []
        rep.require(len(map_stores) == 1, f'{FN}: expected one `map[future] = index` store next to the submit, found {len(map_stores)}')
        ms = map_stores[0]
        mapname = u(ms.targets[0].value)
        same_block = ms in sub_loop.body and sub_stmt in sub_loop.body
        rep.add('S1', fi.site(ms), 'the future is recorded unconditionally in the iteration that submitted it, with that iteration\'s index',
                same_block and u(ms.value) == ivar, expected=f'{mapname}[future] = {ivar}', found=u(ms), stmt='map store')
        rebinds = [s for s in stmts_in(sub_loop.body) if s is not ms and any(isinstance(t, ast.Name) and t.id in (ivar, fut) for t in
                   [x for st in [s] for x in (st.targets if isinstance(st, ast.Assign) else [getattr(st, 'target', None)]) if x is not None])
                   and s is not sub_stmt]
        rep.add('S1', fi.site(sub_loop), 'neither the index nor the future variable is rebound inside the submit loop', not rebinds, expected='none',
                found=[u(s) for s in rebinds], stmt='submit loop rebinding')
        mdef = [s for s in assigns_to(fn, mapname) if s is not ms]
        okm = len(mdef) == 1 and isinstance(def_value(mdef[0]), (ast.Call, ast.Dict)) and u(def_value(mdef[0])) in ('dict()', '{}')
        rep.add('S1', fi.site(mdef[0] if mdef else ms), 'the future->index map starts empty', okm, expected='dict()', found=[u(s) for s in mdef], stmt='map init')

    # ------------------------------------------------------------------ S1 / S2: completion loop
    acs = [c for c in calls_in(fn) if (m.resolve_call(fi, c) or callee(c) or '').endswith('as_completed')]
    rep.floor('S2', 'as_completed sites', len(acs), 1)
    rep.require(len(acs) == 1, f'{FN}: expected one as_completed site')
    ac = acs[0]
    cloop = pm.get(ac)
    rep.require(isinstance(cloop, ast.For) and cloop.iter is ac and isinstance(cloop.target, ast.Name), f'{FN}: as_completed is not the iterable of a for loop')
    cf = cloop.target.id
    rep.add('S2', fi.site(cloop), 'the completion loop waits on exactly the recorded futures', [u(a) for a in ac.args] in ([mapname], [f'{mapname}.keys()'], [f'list({mapname})']) + (([staged['listname']],) if staged is not None else ()),
            expected=f'as_completed({mapname})', found=u(ac), stmt='as_completed')
    results = [c for c in calls_in(cloop) if callee_attr(c) == 'result' and u(c.func.value) == cf]
    rep.floor('S2', '.result() calls in the completion loop', len(results), 1)
    res = results[0]
    res_stmt = next(s for s in stmts_in(cloop.body) if any(x is res for x in ast.walk(s)) and isinstance(s, (ast.Assign, ast.Expr, ast.AugAssign)))
    rbp = block_path(fn, res_stmt)
    in_try = [o for (_, _, o) in rbp if isinstance(o, ast.Try) and o.handlers]
    in_if = [o for (_, _, o) in rbp[[i for i, (_, _, o) in enumerate(rbp) if o is cloop][0] + 1:] if isinstance(o, (ast.If, ast.Try, ast.While))]
    rep.add('S2', fi.site(res_stmt), 'a worker exception propagates: .result() is not inside a try with handlers', not in_try, expected='no handler',
            found=[u(h.type) for t in in_try for h in t.handlers], stmt='result handler')
    rep.add('S2', fi.site(res_stmt), 'every completed future has its result taken (unconditional in the loop body)', not in_if and not cloop.orelse,
            expected='unconditional', found=[type(o).__name__ for o in in_if], stmt='result unconditional')
    leaves = [s for s in stmts_in(cloop.body) if isinstance(s, (ast.Break, ast.Return, ast.Continue))]
    rep.add('S2', fi.site(cloop), 'the completion loop is never left early', not leaves, expected='no break/return/continue', found=[u(s) for s in leaves],
            stmt='completion loop exits')
    # the store
    ok_store = False
    found = u(res_stmt)
    sigs = None
    store_stmt = res_stmt
    if isinstance(res_stmt, ast.Assign) and len(res_stmt.targets) == 1 and isinstance(res_stmt.targets[0], ast.Name) and res_stmt.value is res:
        # the result is bound to a local first: the store is the statement that puts that local into a slot
        held = res_stmt.targets[0].id
        puts = [s for s in stmts_in(cloop.body) if isinstance(s, ast.Assign) and len(s.targets) == 1 and isinstance(s.targets[0], ast.Subscript) and isinstance(s.value, ast.Name)
                and s.value.id == held and reaching_def(fn, held, s) is res_stmt]
        if len(puts) == 1:
            store_stmt = puts[0]
            found = f'{u(res_stmt)}; {u(store_stmt)}'
            sbp_ = block_path(fn, store_stmt)
            cond = [o for (_, _, o) in sbp_[[i for i, (_, _, o) in enumerate(sbp_) if o is cloop][0] + 1:] if isinstance(o, (ast.If, ast.Try, ast.While, ast.For))]
            rep.add('S2', fi.site(store_stmt), 'every result taken is stored (unconditional in the loop body)', not cond, expected='unconditional', found=[type(o).__name__ for o in cond], stmt='store unconditional')
    if isinstance(store_stmt, ast.Assign) and len(store_stmt.targets) == 1 and isinstance(store_stmt.targets[0], ast.Subscript) and (store_stmt.value is res or store_stmt is not res_stmt):
        tgt = store_stmt.targets[0]
        sigs = u(tgt.value)
        idx = tgt.slice
        iv = idx
        if isinstance(idx, ast.Name):
            d = reaching_def(fn, idx.id, store_stmt)
            iv = def_value(d) if d not in (None, PARAM, AMBIGUOUS) else None
            found = f'{found} with {idx.id} := {u(iv) if iv is not None else d}'
        ok_store = isinstance(iv, ast.Subscript) and u(iv.value) == mapname and u(iv.slice) == cf
    rep.add('S1', fi.site(res_stmt), 'each result is stored at the index recorded for the future that produced it (independent of completion order)', ok_store,
            expected=f'sigs[{mapname}[{cf}]] = {cf}.result()', found=found, stmt='result store')
    rep.require(sigs is not None, f'{FN}: result of a future is not stored by subscript ({found})')
    # pre-sized, no positional collection in this branch
    sdefs = assigns_to(fn, sigs)
    pres = [s for s in sdefs if isinstance(def_value(s), ast.BinOp) and isinstance(def_value(s).op, ast.Mult)]
    okp = False
    for s in pres:
        v = def_value(s)
        l, r = v.left, v.right
        if isinstance(r, ast.List):
            l, r = r, l
        r = unfold(fn, r, s)
        okp = okp or (isinstance(l, ast.List) and len(l.elts) == 1 and is_none(l.elts[0]) and u(r) == f'len({files})')
    rep.add('S1', fi.site(pres[0] if pres else res_stmt), 'the result list is pre-sized with one slot per file', okp, expected=f'[None] * len({files})',
            found=[u(s) for s in sdefs], stmt='presize')
    with_owner = next((o for (_, _, o) in bp if isinstance(o, ast.With)), None)
    scope = with_owner if with_owner is not None else cloop
    appends = [c for c in calls_in(scope) if callee_attr(c) in ('append', 'insert', 'extend') and u(c.func.value) == sigs]
    rep.add('S1', fi.site(scope), 'no positional collection (append/insert) of results in the concurrent branch', not appends, expected='none',
            found=[u(c) for c in appends], stmt='no append')

    # ------------------------------------------------------------------ S3: sequential branch
    seq_calls = [c for c in calls_in(fn) if m.resolve_call(fi, c) == 'gambit.sigs.calc.calc_file_signature']
    rep.floor('S3', 'direct calls of calc_file_signature', len(seq_calls), 1)
    seq_sites = []       # (statement that builds the sequential list, name of the list)
    for c in seq_calls:
        st = next((s for s in stmts_in(fn.body) if any(x is c for x in ast.walk(s)) and isinstance(s, (ast.Assign, ast.Expr, ast.Return, ast.AugAssign, ast.AnnAssign))), None)
        rep.require(st is not None, f'{FN}: cannot locate the statement of the direct call {u(c)}')
        sbp = block_path(fn, st)
        # one call per file, in order: the body of a `for` statement that appends, or the element of a list comprehension
        comp = pm.get(c)
        inner = comp
        while inner is not None and not isinstance(inner, (ast.stmt, ast.Lambda, ast.GeneratorExp, ast.ListComp, ast.SetComp, ast.DictComp)):
            inner = pm.get(inner)
        if inner is st and not any(isinstance(o, (ast.For, ast.While)) for (_, _, o) in sbp):
            # evaluated once, for one file, outside any iteration: a special-cased input, not the per-file pass
            rep.add('S3', fi.site(st), 'sequential branch appends the single-file result of each file, in the order of files', False,
                    expected=f'for file in {files}: sigs.append(calc_file_signature({kspec}, file))', found=u(st)[:100], stmt='sequential append')
            continue
        if isinstance(comp, ast.ListComp) and comp.elt is c:
            rep.require(len(comp.generators) == 1 and not comp.generators[0].is_async and isinstance(comp.generators[0].target, ast.Name),
                        f'{FN}: sequential comprehension with several generators / a structured target')
            loop, src, var = None, comp.generators[0].iter, comp.generators[0].target.id
        else:
            comp = None
            loop = next((o for (_, _, o) in reversed(sbp) if isinstance(o, ast.For)), None)
            rep.require(loop is not None and isinstance(loop.target, ast.Name), f'{FN}: sequential call outside a simple for loop / list comprehension')
            src, var = loop.iter, loop.target.id
        src_ok = u(src) == files
        if isinstance(src, ast.Name) and not src_ok:
            # `with iter_progress(files, progress) as file_itr`
            w = next((o for (_, _, o) in sbp if isinstance(o, ast.With) and any(i.optional_vars is not None and u(i.optional_vars) == src.id for i in o.items)), None)
            if w is not None:
                item = next(i for i in w.items if i.optional_vars is not None and u(i.optional_vars) == src.id)
                ce = item.context_expr
                src_ok = isinstance(ce, ast.Call) and m.resolve_call(fi, ce) in ORDER_PRESERVING_ITER and ce.args and u(ce.args[0]) == files
        if comp is not None:
            bound = isinstance(st, ast.Assign) and st.value is comp and len(st.targets) == 1 and isinstance(st.targets[0], ast.Name)
            ok = src_ok and bound and not comp.generators[0].ifs and [u(a) for a in c.args] == [kspec, var] and not c.keywords
            rep.add('S3', fi.site(st), 'sequential branch appends the single-file result of each file, in the order of files', ok,
                    expected=f'[calc_file_signature({kspec}, file) for file in {files}]', found=u(st), stmt='sequential append')
            rep.add('S3', fi.site(st), 'the sequential result list starts empty', bound, expected='a fresh list built by the comprehension', found=u(st)[:80], stmt='sequential init')
            if bound:
                seq_sites.append((st, st.targets[0].id))
            continue
        app = isinstance(st, ast.Expr) and isinstance(st.value, ast.Call) and callee_attr(st.value) == 'append' and st.value.args and st.value.args[0] is c
        ok = src_ok and app and [u(a) for a in c.args] == [kspec, var] and st in loop.body
        reuse = ''
        if ok and c.keywords:
            # an accumulator handed to the per-file call: every file must still see an empty one (else files leak into each other)
            if [k.arg for k in c.keywords] == ['accumulator']:
                ok, reuse = _accumulator_reuse(rep, m, fi, loop, c, kspec)
                reuse = f' [{reuse}]'
            else:
                ok = False
        rep.add('S3', fi.site(st), 'sequential branch appends the single-file result of each file, in the order of files', ok,
                expected=f'for file in {files}: sigs.append(calc_file_signature({kspec}, file))  (an accumulator may be passed only if it is new or cleared for every file)',
                found=f'for {u(loop.target)} in {u(src)}: {u(st)}{reuse}', stmt='sequential append')
        if app:
            lst = u(st.value.func.value)
            d = reaching_def(fn, lst, loop if not any(isinstance(o, ast.With) for (_, _, o) in sbp) else next(o for (_, _, o) in sbp if isinstance(o, ast.With)))
            v = def_value(d) if d not in (None, PARAM, AMBIGUOUS) else None
            rep.add('S3', fi.site(st), 'the sequential result list starts empty', isinstance(v, ast.List) and not v.elts, expected='[]', found=u(v) if v is not None else str(d),
                    stmt='sequential init')
            seq_sites.append((loop, lst))

    paths = _executor_lifetime(rep, m, fi, fn, gm, sub, sub_scope, cloop, with_owner)

    # ------------------------------------------------------------------ S6: what is returned, per path
    MUT = ('sort', 'reverse', 'append', 'insert', 'extend', 'pop', 'remove', 'clear')
    rets = returning(paths)
    ended = []
    for p in rets:
        if not any(p.end[1] is x for x in ended):
            ended.append(p.end[1])
        v = p.resolve(p.end[2])
        filled = None            # the list this path filled, as a value
        ev_c = p.event_of(cloop, 'loop')
        if ev_c is not None:
            filled, after = subst(ast.Name(id=sigs, ctx=ast.Load()), ev_c.env), ev_c
        for (st, lst) in seq_sites:
            e = p.event_of(st)
            if e is not None and filled is None:
                filled, after = (ast.Name(id=e.sym, ctx=ast.Load()) if e.kind == 'def' else subst(ast.Name(id=lst, ctx=ast.Load()), e.env)), e
        ok = isinstance(v, ast.Call) and m.resolve_call(fi, v) == 'gambit.sigs.base.SignatureList' and len(v.args) >= 2 and filled is not None and isinstance(filled, ast.Name) \
            and not is_unknown(filled) and u(v.args[0]) == filled.id and u(v.args[1]) == kspec
        later = []
        if ok:
            for e in p.events[p.events.index(after) + 1:]:
                if e.kind == 'call' and isinstance(e.expr, ast.Call) and isinstance(e.expr.func, ast.Attribute) and u(e.expr.func.value) == filled.id and e.expr.func.attr in MUT:
                    later.append(u(e.expr))
                if e.kind == 'store' and filled.id in {x.id for x in ast.walk(e.target) if isinstance(x, ast.Name)}:
                    later.append(u(e.stmt))
        rep.add('S6', fi.site(p.end[1]), 'the result is the list of signatures in slot order, with the k-mer parameters', ok and not later, expected=f'SignatureList(<the list filled on this path>, {kspec})',
                found=(u(v)[:80] if v is not None else None) if not later else f'{u(v)[:60]} after {later}', stmt='result')
    early = [s for s in stmts_in(fn.body) if isinstance(s, ast.Return) and not any(s is x for x in ended)]
    rep.add('S6', fi.site(early[0] if early else None), 'no other return path', not early and bool(rets), expected='none', found=[u(e) for e in early], stmt='returns')
    sl = m.func('gambit.sigs.base.SignatureList.__init__')
    rep.functions.add(sl.qualname)
    lst = [s for s in sl.node.body if isinstance(s, ast.Assign) and u(s.targets[0]) == 'self._list']
    rep.add('S6', sl.site(lst[0] if lst else None), 'SignatureList keeps the given order (list(signatures))', len(lst) == 1 and u(lst[0].value) == f'list({sl.params()[1]})',
            expected='self._list = list(signatures)', found=[u(s) for s in lst], stmt='SignatureList storage')


from ..variants import V  # noqa: E402

_C = 'src/gambit/sigs/calc.py'
_SUBMIT_OLD = ("\t\tfuture_to_index = dict()\n\n\t\twith executor_context, get_progress(progress, len(files)) as meter:\n\t\t\tfor i, file in enumerate(files):\n"
               "\t\t\t\tfuture = executor.submit(calc_file_signature, kspec, file)\n\t\t\t\tfuture_to_index[future] = i\n")
_SUBMIT_DC = ("\t\twith executor_context, get_progress(progress, len(files)) as meter:\n\t\t\tfuture_to_index = {\n\t\t\t\texecutor.submit(calc_file_signature, kspec, %s): %s\n"
              "\t\t\t\tfor i, file in %s%s\n\t\t\t}\n")
_SEQ_OLD = "\t\tsigs = []\n\n\t\twith iter_progress(files, progress) as file_itr:\n\t\t\tfor file in file_itr:\n\t\t\t\tsigs.append(calc_file_signature(kspec, file))\n"
_SEQ_LC = "\t\twith iter_progress(files, progress) as file_itr:\n\t\t\tsigs = [calc_file_signature(kspec, file) for file in %s]\n"
_BODY_OLD = (_SEQ_OLD + "\n\telse:\n\t\tsigs = [None] * len(files)\n" + _SUBMIT_OLD + "\n\t\t\tfor future in as_completed(future_to_index):\n\t\t\t\ti = future_to_index[future]\n"
             "\t\t\t\tsigs[i] = future.result()\n\t\t\t\tmeter.increment()\n\n\t\tassert all(sig is not None for sig in sigs)\n")
_BODY_GUARD = (_SEQ_OLD + "\n\t\treturn SignatureList(%s, kspec)\n\n\tsigs = [None] * len(files)\n" + _SUBMIT_OLD.replace("\n\t\t", "\n\t").replace("\t\tfuture_to_index = dict()", "\tfuture_to_index = dict()")
               + "\n\t\tfor future in as_completed(future_to_index):\n\t\t\ti = future_to_index[future]\n\t\t\tsigs[i] = future.result()\n\t\t\tmeter.increment()\n\n\tassert all(sig is not None for sig in sigs)\n")
_GEN = ("def _signatures_as_ready(kspec, files, executor):\n\tif executor is None:\n\t\tfor n, file in enumerate(files):\n\t\t\tyield %s, calc_file_signature(kspec, file)\n\t\treturn\n\n"
        "\tpending = {executor.submit(calc_file_signature, kspec, file): %s for n, file in enumerate(files)}\n\n\tfor future in as_completed(pending):\n\t\tyield pending[future], future.result()\n\n\n")


def _gen_use(key, before_sort):
    srt = "" if key is None else before_sort + "\tpairs.sort(key=%s)\n\n" % key
    return [(_C, "\t\texecutor_context = executor\n", "\t\texecutor_context = nullcontext() if executor is None else executor\n"),
            (_C, "\tif executor is None:\n" + _BODY_OLD + "\n\treturn SignatureList(sigs, kspec)\n",
             "\tpairs = []\n\n\twith executor_context, get_progress(progress, len(files)) as meter:\n\t\tfor pair in _signatures_as_ready(kspec, files, executor):\n\t\t\tpairs.append(pair)\n\t\t\tmeter.increment()\n\n"
             + srt + "\treturn SignatureList([sig for n, sig in pairs], kspec)\n")]


_CLS_ANCHOR = "def calc_file_signatures(kspec: KmerSpec,"
_SLOTS = ("class _Slots:\n\tdef __init__(self, n):\n\t\tself.items = [None] * n\n\t\tself.where = dict()\n\n\tdef track(self, future, index):\n\t\t%s\n\n"
          "\tdef store(self, future):\n\t\t%s\n\n\n")
_SLOTS_USE = [(_C, "\t\tsigs = [None] * len(files)\n\t\tfuture_to_index = dict()\n", "\t\tslots = _Slots(len(files))\n"),
              (_C, "\t\t\t\tfuture = executor.submit(calc_file_signature, kspec, file)\n\t\t\t\tfuture_to_index[future] = i\n", "\t\t\t\tslots.track(executor.submit(calc_file_signature, kspec, file), i)\n"),
              (_C, "\t\t\tfor future in as_completed(future_to_index):\n\t\t\t\ti = future_to_index[future]\n\t\t\t\tsigs[i] = future.result()\n", "\t\t\tfor future in as_completed(slots.where):\n\t\t\t\tslots.store(future)\n"),
              (_C, "\t\tassert all(sig is not None for sig in sigs)\n", "\t\tsigs = slots.items\n")]
_GATHER_OLD = "\t\t\tfor future in as_completed(future_to_index):\n\t\t\t\ti = future_to_index[future]\n\t\t\t\tsigs[i] = future.result()\n\t\t\t\tmeter.increment()\n"
_REUSE = "\t\tsigs = []\n\t\tshared = None\n\n\t\twith iter_progress(files, progress) as file_itr:\n\t\t\tfor file in file_itr:\n%s\t\t\t\tsigs.append(calc_file_signature(kspec, file, accumulator=shared))\n%s"


def _moved(store):
    misc = 'src/gambit/util/misc.py'
    return [(_C, "from gambit.util.progress import iter_progress, get_progress\n", "from gambit.util.progress import iter_progress, get_progress\nfrom gambit.util.misc import gather_results\n"),
            (misc, "def type_singledispatchmethod(func: Callable):", "def gather_results(positions, out, meter):\n\tfrom concurrent.futures import as_completed as done\n\tfor future in done(positions):\n\t\ti = positions[future]\n"
             + store + "\t\tmeter.increment()\n\n\ndef type_singledispatchmethod(func: Callable):")]


_STAGED = ("\t\twith executor_context, get_progress(progress, len(files)) as meter:\n\t\t\tfutures = [executor.submit(calc_file_signature, kspec, %s) for file in %s]\n%s"
           "\t\t\tfuture_to_index = {future: %s for i, future in enumerate(futures)}\n")
_CTX_OLD = "\n\t\texecutor_context = executor\n\n\telse:\n\t\texecutor_context = nullcontext()\n"
_WITH_OLD = ("\t\twith executor_context, get_progress(progress, len(files)) as meter:\n\t\t\tfor i, file in enumerate(files):\n\t\t\t\tfuture = executor.submit(calc_file_signature, kspec, file)\n"
             "\t\t\t\tfuture_to_index[future] = i\n\n\t\t\tfor future in as_completed(future_to_index):\n\t\t\t\ti = future_to_index[future]\n\t\t\t\tsigs[i] = future.result()\n\t\t\t\tmeter.increment()\n")


def _stack(flag, action):
    inner = "".join(("\t" + ln if ln.strip() else ln) for ln in _WITH_OLD.replace("with executor_context, get_progress", "with get_progress").splitlines(True))
    return ((_C, "from contextlib import nullcontext\n", "from contextlib import ExitStack, nullcontext\n"),
            (_C, "\t.calc_file_signature\n\t\"\"\"\n\tif executor is None:\n\t\tif concurrency", "\t.calc_file_signature\n\t\"\"\"\n\towns = executor is None\n\tif owns:\n\t\tif concurrency"),
            (_C, _WITH_OLD, "\t\twith ExitStack() as cleanup:\n\t\t\tif %s:\n\t\t\t\t%s\n\n" % (flag, action) + inner))


VARIANTS = [
    V('ClosingIterator.__exit__ returns True (exceptions of a failing file swallowed)', 'B', 'src/gambit/util/io.py', "\tdef __exit__(self, *args):\n\t\tself.close()\n", "\tdef __exit__(self, *args):\n\t\tself.close()\n\t\treturn True\n", 'S7'),
    V('close() reports whether the stream was open and __exit__ returns it (seeded C13c)', 'B', 'src/gambit/util/io.py', "\t\tself.fobj.close()\n\n\t@property\n\tdef closed(self) -> bool:",
      "\t\twas_open = not self.fobj.closed\n\t\tself.fobj.close()\n\t\treturn was_open\n\n\t@property\n\tdef closed(self) -> bool:", 'S7',
      also=(('src/gambit/util/io.py', "\tdef __exit__(self, *args):\n\t\tself.close()\n", "\tdef __exit__(self, *args):\n\t\treturn self.close()\n"),)),
    V('E: __exit__ returns the None of close()', 'E', 'src/gambit/util/io.py', "\tdef __exit__(self, *args):\n\t\tself.close()\n", "\tdef __exit__(self, *args):\n\t\treturn self.close()\n"),
    V('E: __exit__ returns False explicitly', 'E', 'src/gambit/util/io.py', "\tdef __exit__(self, *args):\n\t\tself.close()\n", "\tdef __exit__(self, *args):\n\t\tself.close()\n\t\treturn False\n"),
    V('collect in completion order', 'B', _C, "\t\t\t\ti = future_to_index[future]\n\t\t\t\tsigs[i] = future.result()\n", "\t\t\t\tsigs.append(future.result())\n", 'S1',
      also=[(_C, "\t\tsigs = [None] * len(files)\n", "\t\tsigs = []\n")]),
    V('index from a different counter', 'B', _C, "\t\t\t\tfuture_to_index[future] = i\n", "\t\t\t\tfuture_to_index[future] = len(files) - 1 - i\n", 'S1'),
    V('index = number of completed futures', 'B', _C, "\t\t\t\ti = future_to_index[future]\n\t\t\t\tsigs[i] = future.result()\n",
      "\t\t\t\ti = meter.n\n\t\t\t\tsigs[i] = future.result()\n", 'S1'),
    V('worker errors swallowed', 'B', _C, "\t\t\t\tsigs[i] = future.result()\n", "\t\t\t\ttry:\n\t\t\t\t\tsigs[i] = future.result()\n\t\t\t\texcept Exception:\n\t\t\t\t\tpass\n", 'S2'),
    V('caller executor shut down', 'B', _C, "\telse:\n\t\texecutor_context = nullcontext()\n", "\telse:\n\t\texecutor_context = executor\n", 'S5'),
    V('results collected after the executor context', 'B', _C,
      "\t\t\t\tfuture_to_index[future] = i\n\n\t\t\tfor future in as_completed(future_to_index):\n\t\t\t\ti = future_to_index[future]\n\t\t\t\tsigs[i] = future.result()\n\t\t\t\tmeter.increment()\n",
      "\t\t\t\tfuture_to_index[future] = i\n\n\t\t\tfor future in as_completed(future_to_index):\n\t\t\t\tif future.cancelled():\n\t\t\t\t\tcontinue\n\t\t\t\ti = future_to_index[future]\n\t\t\t\tsigs[i] = future.result()\n\t\t\t\tmeter.increment()\n", 'S2'),
    V('worker gets the wrong file', 'B', _C, "future = executor.submit(calc_file_signature, kspec, file)", "future = executor.submit(calc_file_signature, kspec, files[0])", 'S4'),
    V('sequential branch iterates reversed', 'B', _C, "\t\twith iter_progress(files, progress) as file_itr:", "\t\twith iter_progress(files[::-1], progress) as file_itr:", 'S3'),
    V('unknown concurrency silently sequential', 'B', _C, "\t\telif concurrency is not None:\n\t\t\traise ValueError(f'concurrency should be one of [None, \"threads\", \"processes\"], got {concurrency!r}')\n", "", 'S5'),
    V('map store under a condition', 'B', _C, "\t\t\t\tfuture_to_index[future] = i\n", "\t\t\t\tif i % 2 == 0:\n\t\t\t\t\tfuture_to_index[future] = i\n", 'S1'),
    V('wait only on first half', 'B', _C, "for future in as_completed(future_to_index):", "for future in as_completed(list(future_to_index)[:1]):", 'S2'),
    # ---- idioms accepted by meaning, each with its broken twin
    # a comprehension instead of a loop that stores
    V('E: future->index map built by a dict comprehension', 'E', _C, _SUBMIT_OLD, _SUBMIT_DC % ('file', 'i', 'enumerate(files)', '')),
    V('twin: dict comprehension records a mirrored index', 'B', _C, _SUBMIT_OLD, _SUBMIT_DC % ('file', 'len(files) - 1 - i', 'enumerate(files)', ''), 'S1'),
    V('twin: dict comprehension submits in sorted order but keeps the running index', 'B', _C, _SUBMIT_OLD, _SUBMIT_DC % ('file', 'i', 'enumerate(sorted(files))', ''), 'S1'),
    V('twin: dict comprehension skips some files', 'B', _C, _SUBMIT_OLD, _SUBMIT_DC % ('file', 'i', 'enumerate(files)', ' if file.path.exists()'), 'S1'),
    V('twin: dict comprehension hands every worker the first file', 'B', _C, _SUBMIT_OLD, _SUBMIT_DC % ('files[0]', 'i', 'enumerate(files)', ''), 'S4'),
    V('E: sequential branch as a list comprehension', 'E', _C, _SEQ_OLD, _SEQ_LC % 'file_itr'),
    V('twin: sequential comprehension over the files in sorted order', 'B', _C, _SEQ_OLD, _SEQ_LC % 'sorted(file_itr)', 'S3'),
    V('twin: sequential comprehension that filters', 'B', _C, _SEQ_OLD, _SEQ_LC % 'file_itr if file.path.exists()', 'S3'),
    # a value bound to a local first
    V('E: number of files bound to a local first', 'E', _C, "\t\tsigs = [None] * len(files)\n", "\t\tnfiles = len(files)\n\t\tsigs = [None] * nfiles\n"),
    V('twin: local holds one slot too few', 'B', _C, "\t\tsigs = [None] * len(files)\n", "\t\tnfiles = len(files) - 1\n\t\tsigs = [None] * nfiles\n", 'S1'),
    # guard clause with early return instead of if/else
    V('E: sequential branch as a guard clause with early return', 'E', _C, _BODY_OLD, _BODY_GUARD % 'sigs'),
    V('twin: guard clause returns the sequential list re-ordered', 'B', _C, _BODY_OLD, _BODY_GUARD % 'sorted(sigs, key=len)', 'S6'),
    # the context chosen by a conditional expression over a flag instead of a second local assigned in both arms
    V('E: executor context chosen by a conditional expression over an ownership flag', 'E', _C, "\t\texecutor_context = executor\n\n\telse:\n\t\texecutor_context = nullcontext()\n", "\t\town = True\n\n\telse:\n\t\town = False\n",
      also=[(_C, "\t\twith executor_context, get_progress", "\t\twith (executor if own else nullcontext()), get_progress")]),
    V('twin: ownership flag inverted (caller executor shut down, own executor leaked)', 'B', _C, "\t\texecutor_context = executor\n\n\telse:\n\t\texecutor_context = nullcontext()\n", "\t\town = False\n\n\telse:\n\t\town = True\n", 'S5',
      also=[(_C, "\t\twith executor_context, get_progress", "\t\twith (executor if own else nullcontext()), get_progress")]),
    # both branches merged into a generator of (tag, signature) pairs, collected as they arrive and sorted by the tag afterwards
    V('E: generator yields (submission index, signature), pairs sorted by that index', 'E', _C, _CLS_ANCHOR, _GEN % ('n', 'n') + _CLS_ANCHOR, also=_gen_use("lambda pair: pair[0]", "")),
    V('E: same, sorted with itemgetter', 'E', _C, _CLS_ANCHOR, _GEN % ('n', 'n') + _CLS_ANCHOR, also=_gen_use("itemgetter(0)", "") + [(_C, "from contextlib import nullcontext\n", "from contextlib import nullcontext\nfrom operator import itemgetter\n")]),
    V('twin: generator tags results with the file object, position looked up by file (seeded C13d)', 'B', _C, _CLS_ANCHOR, _GEN % ('file', 'file') + _CLS_ANCHOR, 'S1',
      also=_gen_use("lambda pair: where[pair[0]]", "\twhere = {file: n for n, file in enumerate(files)}\n")),
    V('twin: file tags ordered by files.index', 'B', _C, _CLS_ANCHOR, _GEN % ('file', 'file') + _CLS_ANCHOR, 'S1', also=_gen_use("lambda pair: files.index(pair[0])", "")),
    V('twin: index-tagged pairs never sorted (completion order returned)', 'B', _C, _CLS_ANCHOR, _GEN % ('n', 'n') + _CLS_ANCHOR, 'S1', also=_gen_use(None, "")),
    V('twin: index-tagged pairs sorted in reverse', 'B', _C, _CLS_ANCHOR, _GEN % ('n', 'n') + _CLS_ANCHOR, 'S1', also=_gen_use("lambda pair: pair[0], reverse=True", "")),
    V('twin: concurrent results tagged with the arrival count instead of the recorded index', 'B', _C, _CLS_ANCHOR,
      (_GEN % ('n', 'n')).replace("\tfor future in as_completed(pending):\n\t\tyield pending[future], future.result()\n", "\tdone = 0\n\tfor future in as_completed(pending):\n\t\tyield done, future.result()\n\t\tdone += 1\n") + _CLS_ANCHOR, 'S1',
      also=_gen_use("lambda pair: pair[0]", "")),
    # a small state class in place of the list + dict (read by value flow: methods expanded, attributes as locals)
    V('E: result list and index map wrapped in a small state class', 'E', _C, _CLS_ANCHOR, _SLOTS % ('self.where[future] = index', 'self.items[self.where[future]] = future.result()') + _CLS_ANCHOR, also=_SLOTS_USE),
    V('twin: state class stores each result at the number of results so far', 'B', _C, _CLS_ANCHOR, _SLOTS % ('self.where[future] = index', 'self.items[sum(x is not None for x in self.items)] = future.result()') + _CLS_ANCHOR, 'S1', also=_SLOTS_USE),
    V('twin: state class registers the mirrored position', 'B', _C, _CLS_ANCHOR, _SLOTS % ('self.where[future] = len(self.items) - 1 - index', 'self.items[self.where[future]] = future.result()') + _CLS_ANCHOR, 'S1', also=_SLOTS_USE),
    V('twin: state class swallows the exception of a failed task', 'B', _C, _CLS_ANCHOR,
      _SLOTS % ('self.where[future] = index', 'try:\n\t\t\tself.items[self.where[future]] = future.result()\n\t\texcept Exception:\n\t\t\tpass') + _CLS_ANCHOR, 'S2', also=_SLOTS_USE),
    # the gather loop moved into a utility module and imported back (a helper N8 does not see)
    V('E: completion loop moved to gambit.util.misc and imported', 'E', _C, _GATHER_OLD, "\t\t\tgather_results(future_to_index, sigs, meter)\n",
      also=_moved("\t\tout[i] = future.result()\n")),
    V('twin: moved completion loop stores in arrival order', 'B', _C, _GATHER_OLD, "\t\t\tgather_results(future_to_index, sigs, meter)\n", 'S1', also=_moved("\t\tout[meter.n] = future.result()\n")),
    V('twin: moved completion loop ignores failed tasks', 'B', _C, _GATHER_OLD, "\t\t\tgather_results(future_to_index, sigs, meter)\n", 'S2',
      also=_moved("\t\tif future.exception() is None:\n\t\t\tout[i] = future.result()\n")),
    # one accumulator re-used for all files of the sequential pass
    V('E: sequential pass re-uses one accumulator, cleared before every later file', 'E', _C, _SEQ_OLD, _REUSE % ("\t\t\t\tif shared is None:\n\t\t\t\t\tshared = default_accumulator(kspec.k)\n\t\t\t\telse:\n\t\t\t\t\tshared.clear()\n", "")),
    V('E: sequential pass re-uses one accumulator, cleared after every file', 'E', _C, _SEQ_OLD, _REUSE % ("\t\t\t\tif shared is None:\n\t\t\t\t\tshared = default_accumulator(kspec.k)\n", "\t\t\t\tshared.clear()\n")),
    V('twin: re-used accumulator never cleared (files leak into each other)', 'B', _C, _SEQ_OLD, _REUSE % ("\t\t\t\tif shared is None:\n\t\t\t\t\tshared = default_accumulator(kspec.k)\n", ""), 'S3'),
    V('twin: re-used accumulator cleared for every other file only', 'B', _C, _SEQ_OLD,
      _REUSE % ("\t\t\t\tif shared is None:\n\t\t\t\t\tshared = default_accumulator(kspec.k)\n\t\t\t\telif len(sigs) % 2:\n\t\t\t\t\tshared.clear()\n", ""), 'S3'),
    V('twin: re-used accumulator cleared, then primed again before the call', 'B', _C, _SEQ_OLD,
      _REUSE % ("\t\t\t\tif shared is None:\n\t\t\t\t\tshared = default_accumulator(kspec.k)\n\t\t\t\telse:\n\t\t\t\t\tshared.clear()\n\t\t\t\tshared.add(0)\n", ""), 'S3'),
    V('twin: accumulator re-used although signature() hands out its own array', 'B', _C, _SEQ_OLD, _REUSE % ("\t\t\t\tif shared is None:\n\t\t\t\t\tshared = default_accumulator(kspec.k)\n\t\t\t\telse:\n\t\t\t\t\tshared.clear()\n", ""), 'S3',
      also=[(_C, "\t\tsig = np.fromiter(self.set, dtype=self._dtype)\n\t\tsig.sort()\n\t\treturn sig\n", "\t\tself.sorted = np.sort(np.fromiter(self.set, dtype=self._dtype))\n\t\treturn self.sorted\n")]),
    # submissions collected in a list first, the index taken from the position in that list
    V('E: list of futures in file order, index map from enumerate of that list', 'E', _C, _SUBMIT_OLD, _STAGED % ('file', 'files', '', 'i')),
    V('E: list of futures, index map filled by a loop over enumerate of that list', 'E', _C, _SUBMIT_OLD,
      "\t\tfuture_to_index = dict()\n\n\t\twith executor_context, get_progress(progress, len(files)) as meter:\n\t\t\tfutures = [executor.submit(calc_file_signature, kspec, file) for file in files]\n"
      "\t\t\tfor i, future in enumerate(futures):\n\t\t\t\tfuture_to_index[future] = i\n"),
    V('twin: futures listed in sorted file order', 'B', _C, _SUBMIT_OLD, _STAGED % ('file', 'sorted(files)', '', 'i'), 'S1'),
    V('twin: futures listed for some files only', 'B', _C, _SUBMIT_OLD, _STAGED % ('file', 'files if file.path.exists()', '', 'i'), 'S1'),
    V('twin: list of futures reversed before the positions are taken', 'B', _C, _SUBMIT_OLD, _STAGED % ('file', 'files', '\t\t\tfutures.reverse()\n', 'i'), 'S1'),
    V('twin: position map counts from the end', 'B', _C, _SUBMIT_OLD, _STAGED % ('file', 'files', '', 'len(futures) - 1 - i'), 'S1'),
    V('twin: every listed task gets the last file', 'B', _C, _SUBMIT_OLD, _STAGED % ('files[-1]', 'files', '', 'i'), 'S4'),
    # the executor handed to an ExitStack under an ownership flag instead of being one of two with-contexts
    V('E: own executor entered into an ExitStack under an ownership flag', 'E', _C, _CTX_OLD, "", also=_stack('owns', 'cleanup.enter_context(executor)')),
    V('twin: ownership flag inverted on the ExitStack (caller executor shut down, own one leaked)', 'B', _C, _CTX_OLD, "", 'S5', also=_stack('not owns', 'cleanup.enter_context(executor)')),
    V('twin: ExitStack opened but the own executor never entered', 'B', _C, _CTX_OLD, "", 'S5', also=_stack('owns', 'pass')),
    V('twin: every executor entered into the ExitStack', 'B', _C, _CTX_OLD, "", 'S5', also=_stack('True', 'cleanup.enter_context(executor)')),
    V('E: result bound to a local before it is stored', 'E', _C, "\t\t\t\tsigs[i] = future.result()\n", "\t\t\t\tsig = future.result()\n\t\t\t\tsigs[i] = sig\n"),
    V('twin: result local stored at the completion count', 'B', _C, "\t\t\t\ti = future_to_index[future]\n\t\t\t\tsigs[i] = future.result()\n", "\t\t\t\tsig = future.result()\n\t\t\t\ti = meter.n\n\t\t\t\tsigs[i] = sig\n", 'S1'),
    V('twin: result local stored only when truthy', 'B', _C, "\t\t\t\tsigs[i] = future.result()\n", "\t\t\t\tsig = future.result()\n\t\t\t\tif len(sig):\n\t\t\t\t\tsigs[i] = sig\n", 'S2'),
    V('E: rename the map', 'E', _C, "future_to_index", "pending", count=4),
    V('E: store through a differently named local', 'E', _C, "\t\t\t\ti = future_to_index[future]\n\t\t\t\tsigs[i] = future.result()\n", "\t\t\t\tslot = future_to_index[future]\n\t\t\t\tsigs[slot] = future.result()\n"),
    V('E: inline subscript', 'E', _C, "\t\t\t\ti = future_to_index[future]\n\t\t\t\tsigs[i] = future.result()\n", "\t\t\t\tsigs[future_to_index[future]] = future.result()\n"),
    V('E: map[submit(...)] = i', 'E', _C, "\t\t\t\tfuture = executor.submit(calc_file_signature, kspec, file)\n\t\t\t\tfuture_to_index[future] = i\n",
      "\t\t\t\tfuture_to_index[executor.submit(calc_file_signature, kspec, file)] = i\n"),
]
