"""C13 - multi-file signature computation keeps file order under every completion order.

The schedule quantifier is decided by def-use: the slot a result is written to is the submit-time index of the
future that produced it, whatever order as_completed yields (S1); every future is awaited through .result()
outside any handler (S2); the sequential branch appends in input order (S3); the worker is the single-file
function (S4); executor lifetime (S5); list-preserving result (S6).
"""
import ast

from ..astutil import (u, atoms, guard_map, path_atoms, stmts_in, calls_in, callee, callee_attr, reaching_def, def_value,
                       PARAM, AMBIGUOUS, raised_name, assigns_to, get_arg, block_path, find_parent_map, is_none)
from ..report import Undecided

FN = 'gambit.sigs.calc.calc_file_signatures'
ORDER_PRESERVING_ITER = {'gambit.util.progress.iter_progress'}


def check(ctx):
    declare_rules(ctx.rep)
    core(ctx)


def declare_rules(rep):
    rep.rule('S1', 'result slot = submit-time index: map[future] = enumerate index at the submit site; store sigs[map[f]] = f.result(); pre-sized list; no positional collection')
    rep.rule('S2', 'every future is awaited via .result() in a loop over as_completed(<the same map>); no enclosing handler')
    rep.rule('S3', 'sequential branch appends calc_file_signature(kspec, file) in iteration order of files')
    rep.rule('S4', 'submitted callable is calc_file_signature with (kspec, file)')
    rep.rule('S5', 'an executor created here is the with-context; a caller-supplied one is wrapped in nullcontext(); unknown concurrency raises')
    rep.rule('S6', 'result is SignatureList(sigs, kspec)')
    rep.trusted += ['concurrent.futures: Future.result() re-raises the worker exception; as_completed yields each given future exactly once',
                    'iter_progress / ProgressIterator yield the wrapped items unchanged and in order (checked under C08-A7)']


def core(ctx):
    rep, m = ctx.rep, ctx.model
    fi = m.func(FN)
    rep.functions.add(fi.qualname)
    fn = fi.node
    params = fi.params()
    rep.require(params[:2] == ['kspec', 'files'] and 'executor' in params, f'{FN}: parameters changed: {params}')
    kspec, files = params[0], params[1]
    gm = guard_map(fn)
    pm = find_parent_map(fn)

    # ------------------------------------------------------------------ S1 / S4: submit site
    submits = [c for c in calls_in(fn) if callee_attr(c) == 'submit']
    rep.floor('S1', 'submit sites', len(submits), 1)
    rep.require(len(submits) == 1, f'{FN}: expected exactly one submit site, found {len(submits)}')
    sub = submits[0]
    rep.call_sites += 1
    sub_stmt = next(s for s in stmts_in(fn.body) if isinstance(s, (ast.Assign, ast.Expr)) and any(x is sub for x in ast.walk(s)))
    bp = block_path(fn, sub_stmt)
    sub_loop = next((o for (_, _, o) in reversed(bp) if isinstance(o, ast.For)), None)
    rep.require(sub_loop is not None, f'{FN}: submit is not inside a for loop')
    it = sub_loop.iter
    en_ok = isinstance(it, ast.Call) and u(it.func) == 'enumerate' and [u(a) for a in it.args] == [files] and not it.keywords \
        and isinstance(sub_loop.target, ast.Tuple) and len(sub_loop.target.elts) == 2 and all(isinstance(e, ast.Name) for e in sub_loop.target.elts)
    rep.add('S1', fi.site(sub_loop), 'tasks are submitted in one pass over enumerate(files)', en_ok, expected=f'for i, file in enumerate({files})', found=u(it),
            stmt='submit loop')
    rep.require(en_ok, f'{FN}: submit loop is not `for i, f in enumerate({files})`')
    ivar, fvar = (e.id for e in sub_loop.target.elts)
    wk = m.resolve(fi.module, sub.args[0]) if sub.args else None
    rep.add('S4', fi.site(sub), 'the worker is the single-file function with the same parameters and this file',
            wk == 'gambit.sigs.calc.calc_file_signature' and [u(a) for a in sub.args[1:]] == [kspec, fvar] and not sub.keywords,
            expected=f'submit(calc_file_signature, {kspec}, {fvar})', found=u(sub), stmt='submit call')
    # the future returned by submit
    if isinstance(sub_stmt, ast.Assign) and isinstance(sub_stmt.targets[0], ast.Name) and sub_stmt.value is sub:
        fut = sub_stmt.targets[0].id
        map_stores = [s for s in stmts_in(sub_loop.body) if isinstance(s, ast.Assign) and isinstance(s.targets[0], ast.Subscript)
                      and u(s.targets[0].slice) == fut]
    else:
        fut = None
        map_stores = [sub_stmt] if isinstance(sub_stmt, ast.Assign) and isinstance(sub_stmt.targets[0], ast.Subscript) and \
            sub_stmt.targets[0].slice is sub else []
    rep.require(len(map_stores) == 1, f'{FN}: expected one `map[future] = index` store next to the submit, found {len(map_stores)}')
    ms = map_stores[0]
    mapname = u(ms.targets[0].value)
    same_block = ms in sub_loop.body and sub_stmt in sub_loop.body
    rep.add('S1', fi.site(ms), 'the future is recorded unconditionally in the iteration that submitted it, with that iteration\'s index',
            same_block and u(ms.value) == ivar, expected=f'{mapname}[future] = {ivar}', found=u(ms), stmt='map store')
    rebinds = [s for s in stmts_in(sub_loop.body) if s is not ms and any(isinstance(t, ast.Name) and t.id in (ivar, fut) for t in
               [x for st in [s] for x in (st.targets if isinstance(st, ast.Assign) else [getattr(st, 'target', None)]) if x is not None])
               and s is not sub_stmt]
    rep.add('S1', fi.site(sub_loop), 'neither the index nor the future variable is rebound inside the submit loop', not rebinds, expected='none',
            found=[u(s) for s in rebinds], stmt='submit loop rebinding')
    mdef = [s for s in assigns_to(fn, mapname) if s is not ms]
    okm = len(mdef) == 1 and isinstance(def_value(mdef[0]), (ast.Call, ast.Dict)) and u(def_value(mdef[0])) in ('dict()', '{}')
    rep.add('S1', fi.site(mdef[0] if mdef else ms), 'the future->index map starts empty', okm, expected='dict()', found=[u(s) for s in mdef], stmt='map init')

    # ------------------------------------------------------------------ S1 / S2: completion loop
    acs = [c for c in calls_in(fn) if (m.resolve_call(fi, c) or callee(c) or '').endswith('as_completed')]
    rep.floor('S2', 'as_completed sites', len(acs), 1)
    rep.require(len(acs) == 1, f'{FN}: expected one as_completed site')
    ac = acs[0]
    cloop = pm.get(ac)
    rep.require(isinstance(cloop, ast.For) and cloop.iter is ac and isinstance(cloop.target, ast.Name), f'{FN}: as_completed is not the iterable of a for loop')
    cf = cloop.target.id
    rep.add('S2', fi.site(cloop), 'the completion loop waits on exactly the recorded futures', [u(a) for a in ac.args] in ([mapname], [f'{mapname}.keys()'], [f'list({mapname})']),
            expected=f'as_completed({mapname})', found=u(ac), stmt='as_completed')
    results = [c for c in calls_in(cloop) if callee_attr(c) == 'result' and u(c.func.value) == cf]
    rep.floor('S2', '.result() calls in the completion loop', len(results), 1)
    res = results[0]
    res_stmt = next(s for s in stmts_in(cloop.body) if any(x is res for x in ast.walk(s)) and isinstance(s, (ast.Assign, ast.Expr, ast.AugAssign)))
    rbp = block_path(fn, res_stmt)
    in_try = [o for (_, _, o) in rbp if isinstance(o, ast.Try) and o.handlers]
    in_if = [o for (_, _, o) in rbp[[i for i, (_, _, o) in enumerate(rbp) if o is cloop][0] + 1:] if isinstance(o, (ast.If, ast.Try, ast.While))]
    rep.add('S2', fi.site(res_stmt), 'a worker exception propagates: .result() is not inside a try with handlers', not in_try, expected='no handler',
            found=[u(h.type) for t in in_try for h in t.handlers], stmt='result handler')
    rep.add('S2', fi.site(res_stmt), 'every completed future has its result taken (unconditional in the loop body)', not in_if and not cloop.orelse,
            expected='unconditional', found=[type(o).__name__ for o in in_if], stmt='result unconditional')
    leaves = [s for s in stmts_in(cloop.body) if isinstance(s, (ast.Break, ast.Return, ast.Continue))]
    rep.add('S2', fi.site(cloop), 'the completion loop is never left early', not leaves, expected='no break/return/continue', found=[u(s) for s in leaves],
            stmt='completion loop exits')
    # the store
    ok_store = False
    found = u(res_stmt)
    sigs = None
    if isinstance(res_stmt, ast.Assign) and len(res_stmt.targets) == 1 and isinstance(res_stmt.targets[0], ast.Subscript) and res_stmt.value is res:
        tgt = res_stmt.targets[0]
        sigs = u(tgt.value)
        idx = tgt.slice
        iv = idx
        if isinstance(idx, ast.Name):
            d = reaching_def(fn, idx.id, res_stmt)
            iv = def_value(d) if d not in (None, PARAM, AMBIGUOUS) else None
            found = f'{u(res_stmt)} with {idx.id} := {u(iv) if iv is not None else d}'
        ok_store = isinstance(iv, ast.Subscript) and u(iv.value) == mapname and u(iv.slice) == cf
    rep.add('S1', fi.site(res_stmt), 'each result is stored at the index recorded for the future that produced it (independent of completion order)', ok_store,
            expected=f'sigs[{mapname}[{cf}]] = {cf}.result()', found=found, stmt='result store')
    rep.require(sigs is not None, f'{FN}: result of a future is not stored by subscript ({found})')
    # pre-sized, no positional collection in this branch
    sdefs = assigns_to(fn, sigs)
    exec_branch_defs = [s for s in sdefs if block_path(fn, s)[-1][0] is block_path(fn, [o for (_, _, o) in bp if isinstance(o, ast.With)][0] if any(isinstance(o, ast.With) for (_, _, o) in bp) else sub_loop)[-1][0]]
    pres = [s for s in sdefs if isinstance(def_value(s), ast.BinOp) and isinstance(def_value(s).op, ast.Mult)]
    okp = False
    for s in pres:
        v = def_value(s)
        l, r = v.left, v.right
        if isinstance(r, ast.List):
            l, r = r, l
        okp = okp or (isinstance(l, ast.List) and len(l.elts) == 1 and is_none(l.elts[0]) and u(r) == f'len({files})')
    rep.add('S1', fi.site(pres[0] if pres else res_stmt), 'the result list is pre-sized with one slot per file', okp, expected=f'[None] * len({files})',
            found=[u(s) for s in sdefs], stmt='presize')
    with_owner = next((o for (_, _, o) in bp if isinstance(o, ast.With)), None)
    scope = with_owner if with_owner is not None else cloop
    appends = [c for c in calls_in(scope) if callee_attr(c) in ('append', 'insert', 'extend') and u(c.func.value) == sigs]
    rep.add('S1', fi.site(scope), 'no positional collection (append/insert) of results in the concurrent branch', not appends, expected='none',
            found=[u(c) for c in appends], stmt='no append')

    # ------------------------------------------------------------------ S3: sequential branch
    seq_calls = [c for c in calls_in(fn) if m.resolve_call(fi, c) == 'gambit.sigs.calc.calc_file_signature']
    rep.floor('S3', 'direct calls of calc_file_signature', len(seq_calls), 1)
    for c in seq_calls:
        st = next(s for s in stmts_in(fn.body) if any(x is c for x in ast.walk(s)) and isinstance(s, (ast.Assign, ast.Expr)))
        sbp = block_path(fn, st)
        loop = next((o for (_, _, o) in reversed(sbp) if isinstance(o, ast.For)), None)
        rep.require(loop is not None and isinstance(loop.target, ast.Name), f'{FN}: sequential call outside a simple for loop')
        src = loop.iter
        src_ok = u(src) == files
        if isinstance(src, ast.Name) and not src_ok:
            # `with iter_progress(files, progress) as file_itr`
            w = next((o for (_, _, o) in sbp if isinstance(o, ast.With) and any(i.optional_vars is not None and u(i.optional_vars) == src.id for i in o.items)), None)
            if w is not None:
                item = next(i for i in w.items if i.optional_vars is not None and u(i.optional_vars) == src.id)
                ce = item.context_expr
                src_ok = isinstance(ce, ast.Call) and m.resolve_call(fi, ce) in ORDER_PRESERVING_ITER and ce.args and u(ce.args[0]) == files
        app = isinstance(st, ast.Expr) and isinstance(st.value, ast.Call) and callee_attr(st.value) == 'append' and st.value.args and st.value.args[0] is c
        ok = src_ok and app and [u(a) for a in c.args] == [kspec, loop.target.id] and st in loop.body
        rep.add('S3', fi.site(st), 'sequential branch appends the single-file result of each file, in the order of files', ok,
                expected=f'for file in {files}: sigs.append(calc_file_signature({kspec}, file))', found=f'for {u(loop.target)} in {u(src)}: {u(st)}', stmt='sequential append')
        if app:
            lst = u(st.value.func.value)
            d = reaching_def(fn, lst, loop if not any(isinstance(o, ast.With) for (_, _, o) in sbp) else next(o for (_, _, o) in sbp if isinstance(o, ast.With)))
            v = def_value(d) if d not in (None, PARAM, AMBIGUOUS) else None
            rep.add('S3', fi.site(st), 'the sequential result list starts empty', isinstance(v, ast.List) and not v.elts, expected='[]', found=u(v) if v is not None else str(d),
                    stmt='sequential init')

    # ------------------------------------------------------------------ S5: executor lifetime
    exn = 'executor'
    ctx_stores = [s for s in stmts_in(fn.body) if isinstance(s, ast.Assign) and len(s.targets) == 1 and isinstance(s.targets[0], ast.Name)
                  and (u(s.value) == exn or (isinstance(s.value, ast.Call) and (m.resolve_call(fi, s.value) or '').endswith('nullcontext')))]
    ctxnames = {s.targets[0].id for s in ctx_stores}
    rep.require(len(ctxnames) == 1, f'{FN}: cannot identify the executor context variable ({ctxnames})')
    cname = ctxnames.pop()
    for s in ctx_stores:
        at = path_atoms(gm[s])
        if u(s.value) == exn:
            rep.add('S5', fi.site(s), 'only an executor created here becomes the with-context (and is shut down)', ('is', 'None', exn) in at,
                    expected=f'under `{exn} is None`', found=sorted(at), stmt='own executor context')
        else:
            rep.add('S5', fi.site(s), 'a caller-supplied executor is wrapped in nullcontext() (left open)', ('isnot', 'None', exn) in at,
                    expected=f'under `{exn} is not None`', found=sorted(at), stmt='foreign executor context')
    rep.floor('S5', 'executor-context assignments', len(ctx_stores), 2)
    used = with_owner is not None and any(u(i.context_expr) == cname for i in with_owner.items)
    rep.add('S5', fi.site(with_owner if with_owner is not None else sub_loop), 'submission and completion run inside `with <executor context>`', used,
            expected=f'with {cname}', found=[u(i.context_expr) for i in with_owner.items] if with_owner is not None else None, stmt='with context')
    bad_ctx = with_owner is not None and any(u(i.context_expr) == exn for i in with_owner.items)
    rep.add('S5', fi.site(with_owner if with_owner is not None else sub_loop), 'the raw executor is never used as the with-context directly', not bad_ctx,
            expected='no `with executor`', found=bad_ctx, stmt='raw executor context')
    both_in_with = with_owner is not None and any(x is cloop for x in ast.walk(with_owner)) and any(x is sub_loop for x in ast.walk(with_owner))
    rep.add('S5', fi.site(cloop), 'results are collected before the executor context exits', both_in_with, expected='completion loop inside the with', found=both_in_with,
            stmt='collection inside with')
    raises = [s for s in stmts_in(fn.body) if isinstance(s, ast.Raise)]
    okr = any(raised_name(r) == 'ValueError' and ('isnot', 'None', 'concurrency') in path_atoms(gm[r]) for r in raises)
    rep.add('S5', fi.site(raises[0] if raises else fn), 'an unknown concurrency mode raises instead of silently running sequentially', okr,
            expected="raise ValueError under concurrency not in {'threads','processes',None}", found=[(raised_name(r), sorted(path_atoms(gm[r]))) for r in raises],
            stmt='unknown concurrency')
    ctors = {}
    for s in stmts_in(fn.body):
        if isinstance(s, ast.Assign) and u(s.targets[0]) == exn and isinstance(s.value, ast.Call):
            at = path_atoms(gm[s])
            mode = next((a[2] if a[1] == 'concurrency' else a[1] for a in at if a[0] == 'eq' and 'concurrency' in a), None)
            ctors[mode] = (m.resolve_call(fi, s.value) or callee(s.value), s)
    want = {"'threads'": 'ThreadPoolExecutor', "'processes'": 'ProcessPoolExecutor'}
    for mode, cls in want.items():
        got = ctors.get(mode, (None, None))
        mw = get_arg(got[1].value, 0, 'max_workers') if got[1] is not None else None
        rep.add('S5', fi.site(got[1]) if got[1] is not None else fi.site(), f'concurrency={mode} builds a {cls} with the requested worker count',
                (got[0] or '').endswith(cls) and u(mw) == 'max_workers', expected=f'{cls}(max_workers=max_workers)', found=u(got[1].value) if got[1] is not None else None,
                stmt=f'executor[{mode}]')

    # ------------------------------------------------------------------ S6
    last = fn.body[-1]
    ok = isinstance(last, ast.Return) and isinstance(last.value, ast.Call) and m.resolve_call(fi, last.value) == 'gambit.sigs.base.SignatureList' \
        and [u(a) for a in last.value.args[:2]] == [sigs, kspec]
    rep.add('S6', fi.site(last), 'the result is the list of signatures in slot order, with the k-mer parameters', ok, expected=f'SignatureList({sigs}, {kspec})',
            found=u(last)[:80], stmt='result')
    early = [s for s in stmts_in(fn.body) if isinstance(s, ast.Return) and s is not last]
    rep.add('S6', fi.site(), 'no other return path', not early, expected='none', found=[u(e) for e in early], stmt='returns')
    sl = m.func('gambit.sigs.base.SignatureList.__init__')
    rep.functions.add(sl.qualname)
    lst = [s for s in sl.node.body if isinstance(s, ast.Assign) and u(s.targets[0]) == 'self._list']
    rep.add('S6', sl.site(lst[0] if lst else None), 'SignatureList keeps the given order (list(signatures))', len(lst) == 1 and u(lst[0].value) == f'list({sl.params()[1]})',
            expected='self._list = list(signatures)', found=[u(s) for s in lst], stmt='SignatureList storage')


from ..variants import V  # noqa: E402

_C = 'src/gambit/sigs/calc.py'
VARIANTS = [
    V('collect in completion order', 'B', _C, "\t\t\t\ti = future_to_index[future]\n\t\t\t\tsigs[i] = future.result()\n", "\t\t\t\tsigs.append(future.result())\n", 'S1',
      also=[(_C, "\t\tsigs = [None] * len(files)\n", "\t\tsigs = []\n")]),
    V('index from a different counter', 'B', _C, "\t\t\t\tfuture_to_index[future] = i\n", "\t\t\t\tfuture_to_index[future] = len(files) - 1 - i\n", 'S1'),
    V('index = number of completed futures', 'B', _C, "\t\t\t\ti = future_to_index[future]\n\t\t\t\tsigs[i] = future.result()\n",
      "\t\t\t\ti = meter.n\n\t\t\t\tsigs[i] = future.result()\n", 'S1'),
    V('worker errors swallowed', 'B', _C, "\t\t\t\tsigs[i] = future.result()\n", "\t\t\t\ttry:\n\t\t\t\t\tsigs[i] = future.result()\n\t\t\t\texcept Exception:\n\t\t\t\t\tpass\n", 'S2'),
    V('caller executor shut down', 'B', _C, "\telse:\n\t\texecutor_context = nullcontext()\n", "\telse:\n\t\texecutor_context = executor\n", 'S5'),
    V('results collected after the executor context', 'B', _C,
      "\t\t\t\tfuture_to_index[future] = i\n\n\t\t\tfor future in as_completed(future_to_index):\n\t\t\t\ti = future_to_index[future]\n\t\t\t\tsigs[i] = future.result()\n\t\t\t\tmeter.increment()\n",
      "\t\t\t\tfuture_to_index[future] = i\n\n\t\t\tfor future in as_completed(future_to_index):\n\t\t\t\tif future.cancelled():\n\t\t\t\t\tcontinue\n\t\t\t\ti = future_to_index[future]\n\t\t\t\tsigs[i] = future.result()\n\t\t\t\tmeter.increment()\n", 'S2'),
    V('worker gets the wrong file', 'B', _C, "future = executor.submit(calc_file_signature, kspec, file)", "future = executor.submit(calc_file_signature, kspec, files[0])", 'S4'),
    V('sequential branch iterates reversed', 'B', _C, "\t\twith iter_progress(files, progress) as file_itr:", "\t\twith iter_progress(files[::-1], progress) as file_itr:", 'S3'),
    V('unknown concurrency silently sequential', 'B', _C, "\t\telif concurrency is not None:\n\t\t\traise ValueError(f'concurrency should be one of [None, \"threads\", \"processes\"], got {concurrency!r}')\n", "", 'S5'),
    V('map store under a condition', 'B', _C, "\t\t\t\tfuture_to_index[future] = i\n", "\t\t\t\tif i % 2 == 0:\n\t\t\t\t\tfuture_to_index[future] = i\n", 'S1'),
    V('wait only on first half', 'B', _C, "for future in as_completed(future_to_index):", "for future in as_completed(list(future_to_index)[:1]):", 'S2'),
    V('E: rename the map', 'E', _C, "future_to_index", "pending", count=4),
    V('E: store through a differently named local', 'E', _C, "\t\t\t\ti = future_to_index[future]\n\t\t\t\tsigs[i] = future.result()\n", "\t\t\t\tslot = future_to_index[future]\n\t\t\t\tsigs[slot] = future.result()\n"),
    V('E: inline subscript', 'E', _C, "\t\t\t\ti = future_to_index[future]\n\t\t\t\tsigs[i] = future.result()\n", "\t\t\t\tsigs[future_to_index[future]] = future.result()\n"),
    V('E: map[submit(...)] = i', 'E', _C, "\t\t\t\tfuture = executor.submit(calc_file_signature, kspec, file)\n\t\t\t\tfuture_to_index[future] = i\n",
      "\t\t\t\tfuture_to_index[executor.submit(calc_file_signature, kspec, file)] = i\n"),
]
