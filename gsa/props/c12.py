"""C12 - signature files round-trip exactly and foreign files are refused.

H1 attribute names written == read   H2 SignaturesMeta fields == names written == keywords on read
H3 None<->Empty symmetry, extra via json.dumps/loads   H4 datasets and list-path bounds/fill arithmetic
H5 dtype preservation / id kinds   H6 refusal guards precede opening / construction; required items read with the raising form
H7 k-mer parameters   H8 create(): id shape check, attributes before datasets, returns cls(group); dump is one `with h5.File(path, 'w')`
"""
import ast

from ..affine import Aff, sym
from ..astutil import (u, atoms, guard_map, path_atoms, stmts_in, calls_in, callee, callee_attr, reaching_def, def_value,
                       PARAM, AMBIGUOUS, get_arg, get_kw, is_none, is_const, raised_name, block_path, has_starstar)
from ..report import Undecided

H = 'gambit.sigs.hdf5'


def attr_key(ctx, fi, node):
    try:
        return ctx.model.const_value(fi.module, node)
    except Undecided:
        return f'<{u(node)}>'


def attr_stores(ctx, fi, recv):
    """[(key, value node, stmt)] for `<recv>.attrs[key] = value`."""
    out = []
    for s in stmts_in(fi.node.body):
        if isinstance(s, ast.Assign) and len(s.targets) == 1 and isinstance(s.targets[0], ast.Subscript) and u(s.targets[0].value) == f'{recv}.attrs':
            out.append((attr_key(ctx, fi, s.targets[0].slice), s.value, s))
    return out


def attr_loads(ctx, fi, recv):
    """[(key, form, node)] form in raising|get|contains."""
    out = []
    for n in ast.walk(fi.node):
        if isinstance(n, ast.Subscript) and isinstance(n.ctx, ast.Load) and u(n.value) == f'{recv}.attrs':
            out.append((attr_key(ctx, fi, n.slice), 'raising', n))
        elif isinstance(n, ast.Call) and u(n.func) == f'{recv}.attrs.get' and n.args:
            out.append((attr_key(ctx, fi, n.args[0]), 'get' if len(n.args) == 1 and not n.keywords else 'get-default', n))
        elif isinstance(n, ast.Compare) and len(n.ops) == 1 and isinstance(n.ops[0], (ast.In, ast.NotIn)) and u(n.comparators[0]) == f'{recv}.attrs':
            out.append((attr_key(ctx, fi, n.left), 'contains', n))
    return out


def check(ctx):
    rep, m = ctx.rep, ctx.model
    rep.rule('H1', 'attribute names written by _init_attrs + write_metadata == names read by HDF5Signatures.__init__ + read_metadata')
    rep.rule('H2', 'attrs fields of SignaturesMeta == metadata names written == keywords passed to SignaturesMeta on read')
    rep.rule('H3', 'optional fields: none_to_empty on write, empty_to_none on read, same key as the field; extra json.dumps <-> json.loads')
    rep.rule('H4', 'datasets ids/values/bounds on both write paths and on read; list path bounds[0]=0, bounds[1:]=cumsum(sizes), fill values[bounds[i]:bounds[i+1]] = signatures[i]')
    rep.rule('H5', 'dtype preservation (values dtype, BOUNDS_DTYPE, id kinds), reader decodes object ids with asstr()')
    rep.rule('H6', 'refusal: magic comparison raises the SignaturesFileError before h5.File; marker test before construction; constructor raises SignaturesFileError first; raising read forms')
    rep.rule('H7', 'k-mer parameters written as (k, prefix_str) and read back as KmerSpec(k, prefix)')
    rep.rule('H8', 'create(): id shape check; returns cls(group); dump_signatures_hdf5 is one `with h5.File(path, "w")`')
    rep.trusted += ['h5py stores dtypes, variable-length strings and compressed chunks losslessly', 'h5py.Empty round-trips as h5py.Empty']
    hmod = m.module(H)
    cls = m.cls(f'{H}.HDF5Signatures')
    f_init = m.func(f'{H}.HDF5Signatures.__init__')
    f_ia = m.func(f'{H}.HDF5Signatures._init_attrs')
    f_ds = m.func(f'{H}.HDF5Signatures._init_datasets')
    f_cr = m.func(f'{H}.HDF5Signatures.create')
    f_wm = m.func(f'{H}.write_metadata')
    f_rm = m.func(f'{H}.read_metadata')
    f_ld = m.func(f'{H}.load_signatures_hdf5')
    f_dp = m.func(f'{H}.dump_signatures_hdf5')
    for f in (f_init, f_ia, f_ds, f_cr, f_wm, f_rm, f_ld, f_dp):
        rep.functions.add(f.qualname)

    # ------------------------------------------------------------------ H1
    g_ia = f_ia.params()[1]
    g_wm = f_wm.params()[0]
    w_core = attr_stores(ctx, f_ia, g_ia)
    w_meta = attr_stores(ctx, f_wm, g_wm)
    g_in = f_init.params()[1]
    g_rm = f_rm.params()[0]
    r_core = attr_loads(ctx, f_init, g_in)
    r_meta = attr_loads(ctx, f_rm, g_rm)
    written = {k for k, _, _ in w_core} | {k for k, _, _ in w_meta}
    read = {k for k, _, _ in r_core} | {k for k, _, _ in r_meta}
    rep.floor('H1', 'attribute names written', len(written), 9)
    for k in sorted(written | read, key=str):
        site = next((f_ia.site(s) for kk, _, s in w_core if kk == k), None) or next((f_wm.site(s) for kk, _, s in w_meta if kk == k), None) or f_init.site()
        rep.add('H1', site, f'attribute {k!r} is both written and read back', k in written and k in read, expected='written and read', found=('written' if k in written else 'NOT written') + ', ' + ('read' if k in read else 'NOT read'),
                stmt=f'attr {k}')
    calls_wm = [c for c in calls_in(f_ia.node) if m.resolve_call(f_ia, c) == f'{H}.write_metadata']
    rep.add('H1', f_ia.site(calls_wm[0] if calls_wm else None), '_init_attrs writes the metadata of the collection into the same group', len(calls_wm) == 1 and [u(a) for a in calls_wm[0].args] == [g_ia, f_ia.params()[3]],
            expected=f'write_metadata({g_ia}, meta)', found=[u(c) for c in calls_wm], stmt='write_metadata call')
    calls_rm = [c for c in calls_in(f_init.node) if m.resolve_call(f_init, c) == f'{H}.read_metadata']
    okrm = len(calls_rm) == 1 and [u(a) for a in calls_rm[0].args] == [g_in]
    st_rm = next((s for s in f_init.node.body if isinstance(s, ast.Assign) and calls_rm and s.value is calls_rm[0]), None)
    rep.add('H1', f_init.site(st_rm), 'the reader loads the metadata of the same group into .meta', okrm and st_rm is not None and u(st_rm.targets[0]) == 'self.meta', expected=f'self.meta = read_metadata({g_in})',
            found=u(st_rm) if st_rm is not None else None, stmt='read_metadata call')

    # ------------------------------------------------------------------ H2 / H3
    meta_cls = m.cls('gambit.sigs.base.SignaturesMeta')
    fields = [k for k, v in meta_cls.class_attrs.items() if isinstance(v, ast.Call) and u(v.func) == 'attrib']
    rep.floor('H2', 'SignaturesMeta fields', len(fields), 6)
    mw = {k: (v, s) for k, v, s in w_meta}
    ctor = [c for c in calls_in(f_rm.node) if m.resolve_call(f_rm, c) == 'gambit.sigs.base.SignaturesMeta']
    rep.require(len(ctor) == 1, 'read_metadata: expected one SignaturesMeta(...) construction')
    kws = {k.arg: k.value for k in ctor[0].keywords}
    rep.account_returns('H2', f_rm, [s for s in stmts_in(f_rm.node.body) if isinstance(s, ast.Return) and s.value is ctor[0]], 'metadata object')
    rep.add('H2', f_rm.site(ctor[0]), 'every metadata field is stored and restored (fields == names written == keywords on read)', set(fields) == set(mw) == set(kws) and not ctor[0].args,
            expected=sorted(fields), found=dict(written=sorted(map(str, mw)), restored=sorted(kws)), stmt='metadata coverage')
    metap = f_wm.params()[1]

    def load_of(expr):
        """(key, via_empty_to_none, form) for a keyword value of the SignaturesMeta constructor."""
        e = expr
        if isinstance(e, ast.Name):
            d = reaching_def(f_rm.node, e.id, next(s for s in f_rm.node.body if any(x is ctor[0] for x in ast.walk(s))))
            e = def_value(d) if d not in (None, PARAM, AMBIGUOUS) else None
        return e
    for fld in fields:
        wv = mw.get(fld)
        rv = kws.get(fld)
        if fld == 'extra':
            # write: json.dumps(meta.extra) under `meta.extra is not None`, Empty otherwise
            stores = [(v, s) for k, v, s in w_meta if k == 'extra']
            gm = guard_map(f_wm.node)
            dumps = [(v, s) for v, s in stores if isinstance(v, ast.Call) and u(v.func) == 'json.dumps' and [u(a) for a in v.args] == [f'{metap}.extra']
                     and ('isnot', 'None', f'{metap}.extra') in path_atoms(gm[s])]
            empt = [(v, s) for v, s in stores if isinstance(v, ast.Call) and u(v.func) in ('h5.Empty', 'h5py.Empty') and ('is', 'None', f'{metap}.extra') in path_atoms(gm[s])]
            rep.add('H3', f_wm.site(stores[0][1] if stores else None), 'extra is stored as JSON text, or Empty when None', len(dumps) == 1 and len(empt) == 1 and len(stores) == 2, expected='json.dumps(meta.extra) / h5.Empty',
                    found=[u(s) for _, s in stores], stmt='extra write')
            e = load_of(rv)
            # extra = None if extra_str is None else json.loads(extra_str), extra_str = empty_to_none(group.attrs.get('extra'))
            ok = isinstance(e, ast.IfExp) and is_none(e.body) and isinstance(e.orelse, ast.Call) and u(e.orelse.func) == 'json.loads' and atoms(e.test) is not None \
                and any(a[0] == 'is' and 'None' in a for a in atoms(e.test))
            src = None
            if ok:
                sname = e.orelse.args[0]
                d = reaching_def(f_rm.node, sname.id, f_rm.node.body[-1]) if isinstance(sname, ast.Name) else None
                src = def_value(d) if d not in (None, PARAM, AMBIGUOUS) else None
                ok = isinstance(src, ast.Call) and m.resolve_call(f_rm, src) == f'{H}.empty_to_none' and isinstance(src.args[0], ast.Call) and u(src.args[0].func) == f'{g_rm}.attrs.get' \
                    and attr_key(ctx, f_rm, src.args[0].args[0]) == 'extra'
            rep.add('H3', f_rm.site(ctor[0]), 'extra is restored by json.loads of the stored text, None when Empty', ok, expected="None if s is None else json.loads(s), s = empty_to_none(attrs.get('extra'))",
                    found=(u(e), u(src)), stmt='extra read')
            continue
        okw = wv is not None and isinstance(wv[0], ast.Call) and m.resolve_call(f_wm, wv[0]) == f'{H}.none_to_empty' and u(wv[0].args[0]) == f'{metap}.{fld}' \
            and m.resolve(f_wm.module, wv[0].args[1]) == f'{H}.STR_DTYPE'
        rep.add('H3', f_wm.site(wv[1]) if wv else f_wm.site(), f'{fld}: written from the field of the same name, None as a string-typed Empty', okw, expected=f"attrs['{fld}'] = none_to_empty(meta.{fld}, STR_DTYPE)",
                found=u(wv[1]) if wv else None, stmt=f'write {fld}')
        e = load_of(rv)
        okr = isinstance(e, ast.Call) and m.resolve_call(f_rm, e) == f'{H}.empty_to_none' and isinstance(e.args[0], ast.Call) and u(e.args[0].func) == f'{g_rm}.attrs.get' \
            and attr_key(ctx, f_rm, e.args[0].args[0]) == fld
        rep.add('H3', f_rm.site(ctor[0]), f'{fld}: restored from the attribute of the same name, Empty as None', okr, expected=f"{fld}=empty_to_none(attrs.get('{fld}'))", found=u(e), stmt=f'read {fld}')
    fn_ne = m.func(f'{H}.none_to_empty')
    b = [s for s in fn_ne.node.body if isinstance(s, ast.Return)]
    p0, p1 = fn_ne.params()[:2]
    okne = len(b) == 1 and isinstance(b[0].value, ast.IfExp) and atoms(b[0].value.test) == {('is', 'None', p0)} and u(b[0].value.body) in (f'h5.Empty({p1})', f'h5py.Empty({p1})') and u(b[0].value.orelse) == p0
    rep.add('H3', fn_ne.site(), 'none_to_empty maps None to Empty and passes everything else through', okne, expected=f'h5.Empty({p1}) if {p0} is None else {p0}', found=[u(x.value) for x in b], stmt='none_to_empty')
    fn_en = m.func(f'{H}.empty_to_none')
    b = [s for s in fn_en.node.body if isinstance(s, ast.Return)]
    p0 = fn_en.params()[0]
    oken = len(b) == 1 and isinstance(b[0].value, ast.IfExp) and is_none(b[0].value.body) and u(b[0].value.test) in (f'isinstance({p0}, h5.Empty)', f'isinstance({p0}, h5py.Empty)') and u(b[0].value.orelse) == p0
    rep.add('H3', fn_en.site(), 'empty_to_none maps Empty to None and passes everything else through', oken, expected=f'None if isinstance({p0}, h5.Empty) else {p0}', found=[u(x.value) for x in b], stmt='empty_to_none')
    rep.functions.update({fn_ne.qualname, fn_en.qualname})

    # ------------------------------------------------------------------ H4 / H5
    _, gd, sigs, idsp = f_ds.params()[:4]
    gmd = guard_map(f_ds.node)
    creates = [c for c in calls_in(f_ds.node) if u(c.func) == f'{gd}.create_dataset']
    by_name = {}
    for c in creates:
        st = next(s for s in stmts_in(f_ds.node.body) if any(x is c for x in ast.walk(s)) and isinstance(s, (ast.Assign, ast.Expr)))
        by_name.setdefault(attr_key(ctx, f_ds, c.args[0]), []).append((c, path_atoms(gmd[st]), st))
    isarr = ('true', f'isinstance({sigs}, SignatureArray)')
    notarr = ('false', f'isinstance({sigs}, SignatureArray)')
    okn = set(by_name) == {'ids', 'values', 'bounds'} and len(by_name['ids']) == 1 and len(by_name['values']) == 2 and len(by_name['bounds']) == 2
    rep.add('H4', f_ds.site(), 'both write paths create exactly the datasets ids, values and bounds', okn, expected="ids x1, values x2, bounds x2", found={k: len(v) for k, v in by_name.items()}, stmt='datasets written')
    rep.require(okn, '_init_datasets: dataset creation sites not recognised')
    reads = {}
    for n in ast.walk(f_init.node):
        if isinstance(n, ast.Subscript) and u(n.value) == g_in and isinstance(n.ctx, ast.Load):
            reads[attr_key(ctx, f_init, n.slice)] = n
    rep.add('H4', f_init.site(), 'the reader opens the same three datasets (raising form)', set(reads) == {'ids', 'values', 'bounds'}, expected=['bounds', 'ids', 'values'], found=sorted(map(str, reads)), stmt='datasets read')
    assigns = {u(s.targets[0]): u(s.value) for s in f_init.node.body if isinstance(s, ast.Assign)}
    rep.add('H4', f_init.site(), 'values and bounds are bound to the datasets of those names (not crossed)', assigns.get('self.values') == f"{g_in}['values']" and assigns.get('self.bounds') == f"{g_in}['bounds']",
            expected="self.values = group['values']; self.bounds = group['bounds']", found={k: v for k, v in assigns.items() if k in ('self.values', 'self.bounds')}, stmt='dataset binding')
    # array path
    va = next((c for c, at, _ in by_name['values'] if isarr in at), None)
    ba = next((c for c, at, _ in by_name['bounds'] if isarr in at), None)
    rep.add('H5', f_ds.site(va), 'array path: values written from signatures.values with no dtype override', va is not None and u(get_kw(va, 'data')) == f'{sigs}.values' and get_kw(va, 'dtype') is None,
            expected=f'create_dataset("values", data={sigs}.values, **values_kw)', found=u(va), stmt='array values')
    rep.add('H5', f_ds.site(ba), 'array path: bounds written from signatures.bounds as BOUNDS_DTYPE', ba is not None and u(get_kw(ba, 'data')) == f'{sigs}.bounds' and u(get_kw(ba, 'dtype')) == 'BOUNDS_DTYPE',
            expected=f'create_dataset("bounds", data={sigs}.bounds, dtype=BOUNDS_DTYPE)', found=u(ba), stmt='array bounds')
    # list path
    vl = next(((c, st) for c, at, st in by_name['values'] if notarr in at), (None, None))
    bl = next(((c, st) for c, at, st in by_name['bounds'] if notarr in at), (None, None))
    rep.require(vl[0] is not None and bl[0] is not None and isinstance(vl[1], ast.Assign) and isinstance(bl[1], ast.Assign), '_init_datasets: list path datasets not assigned to locals')
    vname, bname = u(vl[1].targets[0]), u(bl[1].targets[0])
    locs = {u(s.targets[0]): s.value for s in stmts_in(f_ds.node.body) if isinstance(s, ast.Assign) and isinstance(s.targets[0], ast.Name)}
    nname = next((k for k, v in locs.items() if u(v) == f'len({sigs})'), None)
    env = {nname: sym('n')} if nname else {}
    env[f'len({sigs})'] = sym('n')
    shp = Aff.try_of(get_kw(bl[0], 'shape'), env) if get_kw(bl[0], 'shape') is not None else None
    rep.add('H4', f_ds.site(bl[0]), 'list path: bounds has len(signatures) + 1 entries of BOUNDS_DTYPE', shp == sym('n').plus(1) and u(get_kw(bl[0], 'dtype')) == 'BOUNDS_DTYPE', expected='shape=n + 1, dtype=BOUNDS_DTYPE',
            found=u(bl[0]), stmt='list bounds shape')
    stores = [s for s in stmts_in(f_ds.node.body) if isinstance(s, ast.Assign) and isinstance(s.targets[0], ast.Subscript) and u(s.targets[0].value) == bname]
    b0 = [s for s in stores if u(s.targets[0].slice) == '0']
    b1 = [s for s in stores if isinstance(s.targets[0].slice, ast.Slice) and u(s.targets[0].slice.lower) == '1' and s.targets[0].slice.upper is None and s.targets[0].slice.step is None]
    okb0 = len(b0) == 1 and is_const(b0[0].value, 0)
    okb1 = False
    szname = None
    if len(b1) == 1 and isinstance(b1[0].value, ast.Call) and u(b1[0].value.func) in ('np.cumsum', 'numpy.cumsum'):
        szname = u(b1[0].value.args[0])
        szdef = locs.get(szname)
        okb1 = szdef is not None and u(szdef) in (f'np.asarray({sigs}.sizes())', f'{sigs}.sizes()', f'np.array({sigs}.sizes())')
    rep.add('H4', f_ds.site(b0[0] if b0 else bl[0]), 'list path: bounds[0] = 0', okb0 and len(stores) == 2, expected=f'{bname}[0] = 0', found=[u(s) for s in stores], stmt='list bounds[0]')
    rep.add('H4', f_ds.site(b1[0] if b1 else bl[0]), 'list path: bounds[1:] = cumulative sizes of the signatures in order', okb1, expected=f'{bname}[1:] = np.cumsum({sigs}.sizes())', found=[u(s) for s in stores], stmt='list bounds[1:]')
    vshape = get_kw(vl[0], 'shape')
    okvs = vshape is not None and u(vshape) in (f'int({bname}[-1])', f'{bname}[-1]') and u(get_kw(vl[0], 'dtype')) == f'{sigs}.dtype'
    rep.add('H5', f_ds.site(vl[0]), 'list path: values sized by the last bound and typed like the collection', okvs, expected=f'shape=int({bname}[-1]), dtype={sigs}.dtype', found=u(vl[0]), stmt='list values')
    fills = [s for s in stmts_in(f_ds.node.body) if isinstance(s, ast.Assign) and isinstance(s.targets[0], ast.Subscript) and u(s.targets[0].value) == vname]
    okf = False
    if len(fills) == 1:
        fs = fills[0]
        bp = block_path(f_ds.node, fs)
        loop = next((o for (_, _, o) in reversed(bp) if isinstance(o, ast.For)), None)
        sl = fs.targets[0].slice
        if loop is not None and isinstance(loop.target, ast.Name) and isinstance(sl, ast.Slice) and sl.step is None:
            i = loop.target.id
            rng = Aff.try_of(loop.iter.args[0], env) if isinstance(loop.iter, ast.Call) and u(loop.iter.func) == 'range' and len(loop.iter.args) == 1 else None
            okf = rng == sym('n') and u(sl.lower) == f'{bname}[{i}]' and isinstance(sl.upper, ast.Subscript) and u(sl.upper.value) == bname and Aff.try_of(sl.upper.slice) == sym(i).plus(1) \
                and u(fs.value) == f'{sigs}[{i}]'
    rep.add('H4', f_ds.site(fills[0] if fills else vl[0]), 'list path: signature i is written to values[bounds[i] : bounds[i+1]] for every i (the slice the reader uses)', okf,
            expected=f'for i in range(n): {vname}[{bname}[i]:{bname}[i + 1]] = {sigs}[i]', found=[u(s) for s in fills], stmt='list fill')
    for c, nm in ((va, 'array'), (vl[0], 'list')):
        rep.add('H5', f_ds.site(c), f'{nm} path: compression options are forwarded to the values dataset only', c is not None and has_starstar(c), expected='**values_kw', found=u(c), stmt=f'{nm} compression')
    # ids
    ic, iat, ist = by_name['ids'][0]
    kinds = {}
    idt = u(get_kw(ic, 'dtype'))
    for s in stmts_in(f_ds.node.body):
        if isinstance(s, ast.Assign) and u(s.targets[0]) == idt:
            at = path_atoms(gmd[s])
            for a in at:
                if a[0] in ('eq', 'in') and f'{idsp}.dtype.kind' in a:
                    lit = a[1] if a[2] == f'{idsp}.dtype.kind' else a[2]
                    kinds[lit.strip("'")] = u(s.value)
    okk = kinds.get('U') in ('h5.string_dtype()', 'STR_DTYPE') and kinds.get('OS', kinds.get('SO')) in ('h5.string_dtype()', 'STR_DTYPE') and kinds.get('ui', kinds.get('iu')) == f'{idsp}.dtype'
    rep.add('H5', f_ds.site(ist), 'id kinds: unicode/object/bytes ids stored as variable-length strings, integer ids in their own dtype', okk, expected="U,O,S -> string dtype; u,i -> ids.dtype", found=kinds, stmt='id kinds')
    conv = [s for s in stmts_in(f_ds.node.body) if isinstance(s, ast.Assign) and u(s.targets[0]) == idsp]
    okc = len(conv) == 1 and u(conv[0].value) == f'{idsp}.astype(object)' and ('eq', "'U'", f'{idsp}.dtype.kind') in path_atoms(gmd[conv[0]])
    rep.add('H5', f_ds.site(conv[0] if conv else ist), 'unicode ids are converted to objects only in the unicode branch', okc, expected=f"{idsp} = {idsp}.astype(object) under kind == 'U'", found=[u(c) for c in conv], stmt='unicode ids')
    rs = [s for s in stmts_in(f_ds.node.body) if isinstance(s, ast.Raise)]
    rep.add('H5', f_ds.site(rs[0] if rs else ist), 'any other id type is rejected', len(rs) == 1 and raised_name(rs[0]) == 'ValueError' and rs[0].lineno < ic.lineno, expected='raise ValueError before writing', found=[u(r)[:50] for r in rs], stmt='id reject')
    rep.add('H5', f_ds.site(ic), 'ids are written from the (converted) id array with the chosen dtype', u(get_kw(ic, 'data')) == idsp and isinstance(get_kw(ic, 'dtype'), ast.Name), expected=f'create_dataset("ids", data={idsp}, dtype=<chosen dtype>)',
            found=u(ic), stmt='ids write')
    gmi = guard_map(f_init.node)
    idset = [s for s in stmts_in(f_init.node.body) if isinstance(s, ast.Assign) and u(s.targets[0]) == 'self.ids']
    dec = [s for s in idset if u(s.value).endswith('.asstr()[:]')]
    raw = [s for s in idset if not u(s.value).endswith('.asstr()[:]') and u(s.value).endswith('[:]')]
    okd = len(dec) == 1 and len(raw) == 1 and any(a[0] == 'eq' and "'O'" in a for a in path_atoms(gmi[dec[0]])) and any(a[0] == 'ne' and "'O'" in a for a in path_atoms(gmi[raw[0]]))
    rep.add('H5', f_init.site(dec[0] if dec else None), 'string ids are decoded with asstr() on read, integer ids read as stored', okd, expected="ids_data.asstr()[:] if kind == 'O' else ids_data[:]", found=[u(s) for s in idset], stmt='ids read')

    # ------------------------------------------------------------------ H6
    gml = guard_map(f_ld.node)
    pth = f_ld.params()[0]
    opens = [c for c in calls_in(f_ld.node) if u(c.func) in ('h5.File', 'h5py.File')]
    rep.require(len(opens) == 1, 'load_signatures_hdf5: expected one h5.File call')
    op = opens[0]
    ost = next(s for s in f_ld.node.body if any(x is op for x in ast.walk(s)))
    exc_defs = [s for s in f_ld.node.body if isinstance(s, ast.Assign) and isinstance(s.value, ast.Call) and (m.resolve_call(f_ld, s.value) or '').endswith('SignaturesFileError')]
    excname = u(exc_defs[0].targets[0]) if exc_defs else None
    hdr = [s for s in stmts_in(f_ld.node.body) if isinstance(s, ast.Assign) and isinstance(s.value, ast.Call) and callee_attr(s.value) == 'read']
    okh = len(hdr) == 1 and [u(a) for a in hdr[0].value.args] == ['8']
    hname = u(hdr[0].targets[0]) if hdr else None
    at = path_atoms(gml[ost])
    magic = "b'\\x89HDF\\r\\n\\x1a\\n'"
    okm = any(a[0] == 'eq' and hname in a and magic in a for a in at)
    rep.add('H6', f_ld.site(ost), 'the file is opened with h5py only after its first 8 bytes equal the HDF5 magic number', okh and okm, expected=f'{hname} == {magic} on the path to h5.File', found=sorted(at), stmt='magic guard')
    raises = [s for s in stmts_in(f_ld.node.body) if isinstance(s, ast.Raise)]
    mr = [r for r in raises if any(a[0] == 'ne' and hname in a for a in path_atoms(gml[r]))]
    rep.add('H6', f_ld.site(mr[0] if mr else ost), 'a foreign (non-HDF5) file raises the dedicated SignaturesFileError', len(mr) == 1 and u(mr[0].exc) == excname and excname is not None, expected=f'raise {excname} (SignaturesFileError)',
            found=[u(r) for r in mr], stmt='magic refusal')
    with_open = [s for s in f_ld.node.body if isinstance(s, ast.With) and any(isinstance(i.context_expr, ast.Call) and u(i.context_expr.func) == 'open' for i in s.items)]
    okwo = len(with_open) == 1 and [u(a) for a in with_open[0].items[0].context_expr.args] in ([pth, "'rb'"],) and with_open[0].lineno < ost.lineno
    rep.add('H6', f_ld.site(with_open[0] if with_open else ost), 'the magic bytes are read from the same path in binary mode and the handle is closed again', okwo, expected=f"with open({pth}, 'rb')", found=[u(w)[:50] for w in with_open],
            stmt='magic read')
    ctor = [c for c in calls_in(f_ld.node) if m.resolve_call(f_ld, c) == f'{H}.HDF5Signatures']
    rep.require(len(ctor) == 1, 'load_signatures_hdf5: expected one HDF5Signatures construction')
    cst = next(s for s in stmts_in(f_ld.node.body) if any(x is ctor[0] for x in ast.walk(s)) and isinstance(s, (ast.Return, ast.Assign)))
    fh = u(ost.targets[0]) if isinstance(ost, ast.Assign) else None
    atc = path_atoms(gml[cst])
    okmk = any(a[0] == 'in' and a[2] == f'{fh}.attrs' and a[1] in ('FMT_VERSION_ATTR', "'gambit_signatures_version'") for a in atc)
    rep.add('H6', f_ld.site(cst), 'an HDF5 file of another kind (no format marker) is refused before a collection is built', okmk, expected=f'FMT_VERSION_ATTR in {fh}.attrs on the path', found=sorted(atc), stmt='marker guard')
    mk = [r for r in raises if any(a[0] == 'notin' and a[2] == f'{fh}.attrs' for a in path_atoms(gml[r]))]
    rep.add('H6', f_ld.site(mk[0] if mk else cst), 'the missing marker raises the dedicated SignaturesFileError', len(mk) == 1 and u(mk[0].exc) == excname, expected=f'raise {excname}', found=[u(r) for r in mk], stmt='marker refusal')
    rep.account_returns('H6', f_ld, [cst] if isinstance(cst, ast.Return) else [], 'loaded collection')
    rep.add('H6', f_ld.site(cst), 'the collection is built on the opened file', [u(a) for a in ctor[0].args] == [fh], expected=f'HDF5Signatures({fh})', found=u(ctor[0]), stmt='constructor operand')
    # constructor: marker test first, raising SignaturesFileError
    first_raise = next((s for s in stmts_in(f_init.node.body) if isinstance(s, ast.Raise)), None)
    loads_before = [n for (k, form, n) in r_core if form == 'raising' and first_raise is not None and n.lineno < first_raise.lineno]
    okfr = first_raise is not None and (raised_name(first_raise) or '').endswith('SignaturesFileError') and any(a[0] == 'notin' and a[2] == f'{g_in}.attrs' for a in path_atoms(gmi[first_raise])) and not loads_before
    rep.add('H6', f_init.site(first_raise), 'the constructor refuses a group without the marker with SignaturesFileError before any other read', okfr, expected='if FMT_VERSION_ATTR not in group.attrs: raise SignaturesFileError',
            found=u(first_raise)[:70] if first_raise is not None else None, stmt='constructor marker')
    ver = [s for s in stmts_in(f_init.node.body) if isinstance(s, ast.Raise) and s is not first_raise]
    okv = any(any(a[0] == 'ne' and 'CURRENT_FMT_VERSION' in a for a in path_atoms(gmi[r])) for r in ver)
    rep.add('H6', f_init.site(ver[0] if ver else None), 'an unknown format version is refused', okv, expected='raise under format_version != CURRENT_FMT_VERSION', found=[u(r)[:60] for r in ver], stmt='version guard')
    req_forms = {k: form for (k, form, n) in r_core if k in ('kmerspec_k', 'kmerspec_prefix', 'gambit_signatures_version') and form != 'contains'}
    rep.add('H6', f_init.site(), 'required attributes are read with the raising form (a truncated file cannot load with defaults)', all(f == 'raising' for f in req_forms.values()) and len(req_forms) == 3, expected='group.attrs[...]',
            found=req_forms, stmt='required attribute form')
    ffe = m.cls('gambit.sigs.base.SignaturesFileError')
    rep.add('H6', ffe.site(), 'SignaturesFileError is an Exception subclass of its own', ffe.bases == ['Exception'], expected=['Exception'], found=ffe.bases, stmt='error class')
    # load_signatures dispatches here, and only path/**kw flow
    fl = m.func('gambit.sigs.base.load_signatures')
    rets = [s for s in fl.node.body if isinstance(s, ast.Return)]
    rep.add('H6', fl.site(), 'load_signatures is the HDF5 loader (the only format)', len(rets) == 1 and u(rets[0].value) == f'load_signatures_hdf5({fl.params()[0]}, **kw)', expected='load_signatures_hdf5(path, **kw)', found=[u(r.value) for r in rets],
            stmt='load dispatch')

    # ------------------------------------------------------------------ H7
    kp = f_ia.params()[2]
    wk = {k: u(v) for k, v, _ in w_core}
    rep.add('H7', f_ia.site(), 'k and the prefix string are written from the collection parameters', wk.get('kmerspec_k') == f'{kp}.k' and wk.get('kmerspec_prefix') == f'{kp}.prefix_str', expected=f'{kp}.k, {kp}.prefix_str',
            found={k: v for k, v in wk.items() if str(k).startswith('kmerspec')}, stmt='kmerspec write')
    ks = [s for s in f_init.node.body if isinstance(s, ast.Assign) and u(s.targets[0]) == 'self.kmerspec']
    okk = len(ks) == 1 and isinstance(ks[0].value, ast.Call) and m.resolve_call(f_init, ks[0].value) == 'gambit.kmers.KmerSpec' \
        and [u(a) for a in ks[0].value.args] == [f"{g_in}.attrs['kmerspec_k']", f"{g_in}.attrs['kmerspec_prefix']"]
    rep.add('H7', f_init.site(ks[0] if ks else None), 'parameters are restored as KmerSpec(k, prefix) from the attributes of those names', okk, expected="KmerSpec(attrs['kmerspec_k'], attrs['kmerspec_prefix'])",
            found=[u(s.value) for s in ks], stmt='kmerspec read')
    okmarker = wk.get('gambit_signatures_version') == 'CURRENT_FMT_VERSION'
    rep.add('H7', f_ia.site(), 'the format marker carries the current format version', okmarker, expected='CURRENT_FMT_VERSION', found=wk.get('gambit_signatures_version'), stmt='marker write')

    # ------------------------------------------------------------------ H8
    gmc = guard_map(f_cr.node)
    _, gc, sc = f_cr.params()[:3]
    rs = [s for s in stmts_in(f_cr.node.body) if isinstance(s, ast.Raise)]
    ia_pre = [c for c in calls_in(f_cr.node) if u(c.func) == 'cls._init_attrs']
    ds_pre = [c for c in calls_in(f_cr.node) if u(c.func) == 'cls._init_datasets']
    idn = u(ds_pre[0].args[2]) if ds_pre and len(ds_pre[0].args) > 2 else 'ids'
    metan = u(ia_pre[0].args[2]) if ia_pre and len(ia_pre[0].args) > 2 else 'meta'
    oks = any(raised_name(r) == 'ValueError' and any(a[0] == 'ne' and f'{idn}.shape' in a and f'(len({sc}),)' in a for a in path_atoms(gmc[r])) for r in rs)
    rep.add('H8', f_cr.site(rs[0] if rs else None), 'one id per signature is enforced on write', oks, expected=f'raise ValueError when ids.shape != (len({sc}),)', found=[(u(r)[:40], sorted(path_atoms(gmc[r]))) for r in rs], stmt='id count')
    ia = [c for c in calls_in(f_cr.node) if u(c.func) == 'cls._init_attrs']
    ds = [c for c in calls_in(f_cr.node) if u(c.func) == 'cls._init_datasets']
    kwn = get_arg(ds[0], 3, 'values_kw') if ds else None
    kwd = def_value(reaching_def(f_cr.node, kwn.id, next(s for s in f_cr.node.body if any(x is ds[0] for x in ast.walk(s))))) if isinstance(kwn, ast.Name) else kwn
    okc = len(ia) == 1 and len(ds) == 1 and [u(a) for a in ia[0].args] == [gc, f'{sc}.kmerspec', metan] and [u(a) for a in ds[0].args[:3]] == [gc, sc, idn] \
        and isinstance(kwd, ast.Call) and u(kwd.func) == 'dict' and {k.arg: u(k.value) for k in kwd.keywords} == {'compression': 'compression', 'compression_opts': 'compression_opts'}
    rep.add('H8', f_cr.site(ia[0] if ia else None), 'attributes (own kmerspec, own metadata) and datasets (own signatures, own ids) are written into the same group', okc, expected='_init_attrs(group, signatures.kmerspec, meta); _init_datasets(group, signatures, ids, values_kw=kw)',
            found=[u(c) for c in ia + ds], stmt='create writes')
    metas = [s for s in stmts_in(f_cr.node.body) if isinstance(s, ast.Assign) and u(s.targets[0]) == metan]
    idsd = [s for s in stmts_in(f_cr.node.body) if isinstance(s, ast.Assign) and u(s.targets[0]) == idn]
    isref = ('true', f'isinstance({sc}, ReferenceSignatures)')
    okmeta = any(u(s.value) == f'{sc}.meta' and isref in path_atoms(gmc[s]) for s in metas) and any(u(s.value) == f'np.asarray({sc}.ids)' and isref in path_atoms(gmc[s]) for s in idsd)
    rep.add('H8', f_cr.site(metas[0] if metas else None), 'ids and metadata of an annotated collection are the ones stored', okmeta, expected=f'ids = np.asarray({sc}.ids); meta = {sc}.meta', found=[u(s) for s in metas + idsd], stmt='create sources')
    last = f_cr.node.body[-1]
    rep.account_returns('H8', f_cr, [last] if isinstance(last, ast.Return) else [], 'written collection')
    rep.add('H8', f_cr.site(last), 'create returns the reader over the group it has just written', isinstance(last, ast.Return) and u(last.value) == f'cls({gc})', expected=f'cls({gc})', found=u(last), stmt='create result')
    body = [s for s in f_dp.node.body if not (isinstance(s, ast.Expr) and isinstance(s.value, ast.Constant))]
    okd = len(body) == 1 and isinstance(body[0], ast.With) and len(body[0].items) == 1 and u(body[0].items[0].context_expr) in (f"h5.File({f_dp.params()[0]}, 'w')",) \
        and len(body[0].body) == 1 and u(body[0].body[0]) == f'HDF5Signatures.create({u(body[0].items[0].optional_vars)}, {f_dp.params()[1]}, **kw)'
    rep.add('H8', f_dp.site(), 'dump is a single open-write-close of a new file', okd, expected="with h5.File(path, 'w') as f: HDF5Signatures.create(f, signatures, **kw)", found=[u(s)[:90] for s in body], stmt='dump')
    fdz = m.func('gambit.sigs.base.dump_signatures')
    dcalls = [c for c in calls_in(fdz.node) if callee(c) == 'dump_signatures_hdf5']
    rep.add('H8', fdz.site(), 'dump_signatures forwards path and collection to the HDF5 writer', len(dcalls) == 1 and [u(a) for a in dcalls[0].args] == fdz.params()[:2], expected='dump_signatures_hdf5(path, signatures, **kw)',
            found=[u(c) for c in dcalls], stmt='dump dispatch')


from ..variants import V  # noqa: E402

_H = 'src/gambit/sigs/hdf5.py'
_B = 'src/gambit/sigs/base.py'
VARIANTS = [
    V("writer misspells 'id_attr'", 'B', _H, "group.attrs['id_attr'] = none_to_empty(meta.id_attr, STR_DTYPE)", "group.attrs['idattr'] = none_to_empty(meta.id_attr, STR_DTYPE)", 'H'),
    V('new metadata field not stored', 'B', _B, "\tdescription : Optional[str] = attrib(default=None, kw_only=True, repr=False)\n", "\tdescription : Optional[str] = attrib(default=None, kw_only=True, repr=False)\n\tsource : Optional[str] = attrib(default=None, kw_only=True)\n", 'H2'),
    V('bounds[:-1] = cumsum', 'B', _H, "bounds[1:] = np.cumsum(sizes, dtype=BOUNDS_DTYPE)", "bounds[:-1] = np.cumsum(sizes, dtype=BOUNDS_DTYPE)", 'H4'),
    V('list path drops dtype', 'B', _H, "shape=int(bounds[-1]), dtype=signatures.dtype, **values_kw)", "shape=int(bounds[-1]), **values_kw)", 'H5'),
    V('magic check after opening', 'B', _H, "\tif header != b'\\x89HDF\\r\\n\\x1a\\n':\n\t\traise exc\n\n\th5file = h5.File(path, **kw)\n", "\th5file = h5.File(path, **kw)\n\tif header != b'\\x89HDF\\r\\n\\x1a\\n':\n\t\traise exc\n", 'H6'),
    V('magic refusal raises ValueError', 'B', _H, "\tif header != b'\\x89HDF\\r\\n\\x1a\\n':\n\t\traise exc\n", "\tif header != b'\\x89HDF\\r\\n\\x1a\\n':\n\t\traise ValueError('not hdf5')\n", 'H6'),
    V('fill slice off by one', 'B', _H, "values[bounds[i]:bounds[i + 1]] = signatures[i]", "values[bounds[i]:bounds[i + 1]] = signatures[i - 1]", 'H4'),
    V('name written from id', 'B', _H, "group.attrs['name'] = none_to_empty(meta.name, STR_DTYPE)", "group.attrs['name'] = none_to_empty(meta.id, STR_DTYPE)", 'H3'),
    V('version restored from name', 'B', _H, "version=empty_to_none(group.attrs.get('version')),", "version=empty_to_none(group.attrs.get('name')),", 'H3'),
    V('kmerspec k read with default', 'B', _H, "KmerSpec(group.attrs['kmerspec_k'], group.attrs['kmerspec_prefix'])", "KmerSpec(group.attrs.get('kmerspec_k', 11), group.attrs['kmerspec_prefix'])", 'H'),
    V('marker guard dropped in loader', 'B', _H, "\tif FMT_VERSION_ATTR not in h5file.attrs:\n\t\traise exc\n", "", 'H6'),
    V('values/bounds crossed on read', 'B', _H, "\t\tself.values = group['values']\n\t\tself.bounds = group['bounds']", "\t\tself.values = group['bounds']\n\t\tself.bounds = group['values']", 'H4'),
    V('string ids not decoded', 'B', _H, "self.ids = ids_data.asstr()[:]", "self.ids = ids_data[:]", 'H5'),
    V('array path casts values to u4', 'B', _H, "group.create_dataset('values', data=signatures.values, **values_kw)", "group.create_dataset('values', data=signatures.values, dtype='u4', **values_kw)", 'H5'),
    V('empty_to_none inverted', 'B', _H, "return None if isinstance(value, h5.Empty) else value", "return value if isinstance(value, h5.Empty) else None", 'H3'),
    V('prefix written from bytes repr', 'B', _H, "group.attrs['kmerspec_prefix'] = kmerspec.prefix_str", "group.attrs['kmerspec_prefix'] = str(kmerspec.prefix)", 'H7'),
    V('id count check dropped', 'B', _H, "\t\t\tif ids.shape != (len(signatures),):\n\t\t\t\traise ValueError('Length of ids must match length of data')\n", "", 'H8'),
    V('E: fill via enumerate-free alias', 'E', _H, "\t\t\tn = len(signatures)\n", "\t\t\tn = len(signatures)  # number of signatures\n"),
    V('E: upper bound commuted', 'E', _H, "values[bounds[i]:bounds[i + 1]] = signatures[i]", "values[bounds[i]:bounds[1 + i]] = signatures[i]"),
]
